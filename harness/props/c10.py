"""C10 - Timer queue runs each action once, never early, in deadline order.

Implementation under test: the real scales.timer_queue.TimerQueue (Schedule, the cancel closure, the
_TimerWorker greenlet) imported from $SCALES_REPO, constructed with time_source = a virtual clock.  The
names gevent / Event / time inside scales.timer_queue are replaced by the proxies of
harness/c10_vclock.py, so every blocking point of the worker hands control back to the driver below,
which chooses the interleaving: Schedule / cancel calls (also from inside running actions), clock
advances, one worker segment at a time (resumed by the event or by the time-out), one action at a time.
The executed label sequence and the implementation's state after every label are replayed through
`TimerQueue.step` inside Coq (correspondence); `monitor` checks the property statement itself on the
log of calls, spawns and runs, without any reference to the model.

Time unit: 1 tick = 1/256 s; resolutions 4, 64, 256 ticks (1/64, 1/4, 1 s) and 0 (= no rounding, as in
test_timer_queue.py), so every float operation of the code on times is exact.
"""
import sys
from fractions import Fraction

from .. import common as C
from .. import c10_vclock as V

PID = 'C10'
PROPS_FILE = 'Props/C10.v'
COQ_HEADER = 'From Scales Require Import Model.TimerQueue.\nImport TimerQueue.Short.'
COQ_CASE_TYPE = 'TimerQueue.case'
COQ_CHECK = 'TimerQueue.check_case'
COQ_EXPLAIN = 'TimerQueue.explain_case'
SHARD = 400
WORKERS = 1
U = 256.0            # ticks per second
RES = [4, 64, 256, 0]

RULE = ('kind=trace: seeded random op sequences (<= 40 ops) over Schedule (deadline in the past / equal to now / on and off '
        'the resolution grid / equal to or rounding to an existing deadline / earlier than the current head / far), cancel '
        '(head, pending, already fired or dropped, twice, not yet scheduled = skipped), clock advances (1 tick, to / just '
        'before / just after the next deadline), single worker segments resumed by the event or by the time-out (both when '
        'both are possible), single action runs, actions that call Schedule/cancel themselves, settle; kind=eager: the same '
        'with the worker and actions run to quiescence after every op; kind=exh: every sequence of length <= 5 (quick 4) over '
        '8 ops at resolution 4 (duplicates of an executed label sequence are not re-sent to the model); kind=real: random op '
        'sequences on the REAL gevent hub/Event/spawn with only time virtual, checked by the monitor alone; kind=scen: hand-written scenarios (new earliest deadline during sleep(0), burst during '
        'sleep(0), set()/time-out coincidence in both orders, cancel of head while waiting, same-tick ties in both '
        'registration orders); resolutions 1/64, 1/4, 1 s and 0.  Ops that are not enabled are skipped. non-trivial = at '
        'least one worker segment and one Schedule executed; distinct by canonical JSON of (case, observation)')
TRUSTED = ['harness/c10_vclock.py: deterministic stand-in for gevent Event / sleep / spawn (set wakes the waiter, wait(timeout) '
           'returns True iff woken by set, sleep(0) yields, spawned greenlets start in FIFO order)',
           'independent Python monitor in harness/props/c10.py']
ASSUMPTIONS = ['gevent Event semantics as provided by harness/c10_vclock.py (DESIGN.md section 5, C10 assumptions)',
               'times are multiples of 1/256 s and resolutions are dyadic, so float arithmetic on times is exact (DESIGN 4.2); '
               'for the default resolution 0.01 ceil(d/0.01)*0.01 can be below d by one ulp, which is outside the model',
               "the queue's time_source is the clock on which Event.wait time-outs elapse"]

MANIFEST = {
    'text': ('Theorems C10_once, C10_never_early, C10_cancel, C10_cancel_frame, C10_worker_safe, C10_no_lost_wakeup, C10_order, '
             'C10_terminates and the summary C10_fire_spec hold for every resolution r >= 0 and every sequence of Schedule / '
             'cancel / clock-advance / worker-segment / action-run labels from the initial state of the Gallina small-step '
             'transcription of TimerQueue (one label = one atomic segment between gevent yield points); the transcription is '
             'replayed label by label against the real TimerQueue under a virtual clock and a deterministic scheduler on '
             '~2.1k (quick) / ~27k (thorough) traces per run, comparing queue snapshot, event flag, worker position, '
             'resumability, spawned FIFO and run log; 250 / 3000 further runs on the real gevent hub are checked by the '
             'independent monitor (once, never early, cancelled never runs, order, nothing due left at quiescence).'),
    'note': ('Trusted: Coq kernel; harness/c10_vclock.py as a model of gevent Event/sleep/spawn; sampling of interleavings by the '
             'harness. Float rounding for non-dyadic resolutions (default 0.01) is outside the model. All theorems closed under '
             'the global context.'),
    'technique': 'Coq proof (inductive invariant over a small-step model of the worker loop) + trace-driven differential execution model vs code + independent monitor',
    'design_ref': 'DESIGN.md section 5, C10',
}

_S = {}


def setup():
  if _S:
    return
  if C.REPO not in sys.path:
    sys.path.insert(0, C.REPO)
  import scales
  assert scales.__file__.startswith(C.REPO), scales.__file__
  import scales.timer_queue as tqm
  # the module-level queues created at import time are not under test: their (never started) workers must not
  # run on the hub used by the 'real' cases
  for name in ('GLOBAL_TIMER_QUEUE', 'LOW_RESOLUTION_TIMER_QUEUE'):
    try:
      getattr(tqm, name)._worker.kill(block=False)
    except Exception:
      pass
  V.install(tqm)
  _S['tqm'] = tqm
  import logging

  class _Count(logging.Handler):
    def emit(self, record):
      _S['critical'] = _S.get('critical', 0) + 1
  tqm.LOG.addHandler(_Count())
  tqm.LOG.propagate = False
  import atexit
  # at interpreter shutdown TimerQueue.__del__ would call kill() on greenlets that are being finalised (stderr noise only)
  atexit.register(lambda: setattr(tqm.TimerQueue, '__del__', lambda self: None))


# ---------------------------------------------------------------------------------------------
# generators
# ---------------------------------------------------------------------------------------------
def _ceil(d, r):
  return d if r == 0 else -((-d) // r) * r


def _gen_body(rng, now, rr, nsched):
  body = []
  for _ in range(rng.choice([1, 1, 2])):
    if rng.random() < 0.7:
      body.append({'op': 'sched', 'd': now + rng.choice([-rr, 0, 1, rr, 2 * rr, rng.randrange(0, 4 * rr)])})
    else:
      body.append({'op': 'cancel', 'k': rng.randrange(1, nsched + 3)})
  return body


def gen_trace(rng, r, n, t0=0):
  rr = r or 8
  now = t0
  ops = []
  dls = []
  nsched = 0
  for _ in range(n):
    x = rng.random()
    if x < 0.30:
      mode = rng.choice(['past', 'now', 'grid', 'off', 'tie', 'tie_round', 'before', 'far', 'off'])
      if mode == 'past':
        d = now - rng.randrange(1, 3 * rr)
      elif mode == 'now':
        d = now
      elif mode == 'grid':
        d = _ceil(now, rr) + rr * rng.randrange(0, 4)
      elif mode == 'off':
        d = now + rng.randrange(1, 4 * rr)
      elif mode == 'tie':
        d = rng.choice(dls) if dls else now + rr
      elif mode == 'tie_round':
        d = (_ceil(rng.choice(dls), rr) if dls else _ceil(now, rr) + rr) - rng.randrange(0, rr)
      elif mode == 'before':
        fut = [x_ for x_ in dls if x_ > now]
        d = (min(fut) if fut else now + 2 * rr) - rng.randrange(1, 2 * rr)
      else:
        d = now + rng.randrange(4 * rr, 12 * rr)
      op = {'op': 'sched', 'd': d}
      if rng.random() < 0.12:
        op['body'] = _gen_body(rng, max(now, d), rr, nsched)
      ops.append(op)
      dls.append(d)
      nsched += 1
    elif x < 0.42:
      ops.append({'op': 'cancel', 'k': rng.randrange(1, nsched + 2)})
    elif x < 0.62:
      fut = [_ceil(x_, r) for x_ in dls if _ceil(x_, r) > now]
      nxt = (min(fut) - now) if fut else rr
      dt = rng.choice([1, rng.randrange(1, rr + 1), rr, 2 * rr, nxt, max(1, nxt - 1), nxt + 1, 0])
      ops.append({'op': 'tick', 'dt': dt})
      now += dt
    elif x < 0.87:
      ops.append({'op': 'worker', 'by': rng.choice(['a', 'a', 'e', 't']), 'pref': rng.choice(['e', 't'])})
    elif x < 0.97:
      ops.append({'op': 'run'})
    else:
      ops.append({'op': 'settle', 'pref': rng.choice(['e', 't'])})
  if rng.random() < 0.6:
    ops.append({'op': 'tick', 'dt': rng.choice([rr, 4 * rr, 16 * rr])})
    ops.append({'op': 'settle', 'pref': rng.choice(['e', 't'])})
  return ops


EXH_OPS = [{'op': 'sched', 'd': 3}, {'op': 'sched', 'd': 4}, {'op': 'sched', 'd': 8}, {'op': 'cancel', 'k': 1},
           {'op': 'tick', 'dt': 4}, {'op': 'worker', 'by': 'e'}, {'op': 'worker', 'by': 't'}, {'op': 'run'}]


def _exh(depth):
  out = []

  def rec(prefix, nsch):
    if prefix:
      out.append({'kind': 'exh', 'r': 4, 'ops': [dict(o) for o in prefix]})
    if len(prefix) == depth:
      return
    for o in EXH_OPS:
      # syntactic pruning of ops that cannot be enabled
      if o['op'] == 'cancel' and nsch == 0:
        continue
      if o['op'] == 'run' and nsch == 0:
        continue
      rec(prefix + [o], nsch + (1 if o['op'] == 'sched' else 0))
  rec([], 0)
  # keep only maximal sequences (every prefix is replayed anyway as part of its extensions)
  return [c for c in out if len(c['ops']) == depth]


def scenarios():
  W = lambda by: {'op': 'worker', 'by': by}
  S = lambda d, **kw: dict({'op': 'sched', 'd': d}, **kw)
  T = lambda dt: {'op': 'tick', 'dt': dt}
  Cn = lambda k: {'op': 'cancel', 'k': k}
  R = {'op': 'run'}
  ST = {'op': 'settle', 'pref': 'e'}
  out = []
  for r in RES:
    g = r or 8
    sc = {
        # new earliest deadline arrives while the worker is in sleep(0)
        'new-head-during-sleep0': [S(10 * g), W('t'), W('e'), S(2 * g), W('t'), W('t'), T(2 * g), W('t'), R, T(8 * g), ST],
        # burst while the worker sleeps
        'burst-during-sleep0': [S(5 * g), W('t'), W('e'), S(4 * g), S(3 * g), S(3 * g), S(6 * g), Cn(3), W('t'), W('t'), T(6 * g), ST],
        # set() and time-out coincide: woken by the time-out although the flag is set (pops the NEW head)
        'timeout-wins-with-flag-set': [S(4 * g), W('t'), W('e'), W('t'), S(2 * g), T(4 * g), W('t'), R, ST],
        # ... and woken by the event although the time-out has elapsed
        'event-wins-after-expiry': [S(4 * g), W('t'), W('e'), W('t'), S(2 * g), T(4 * g), W('e'), W('t'), R, ST],
        # cancel of the head while the worker waits for it, then time-out
        'cancel-head-while-waiting': [S(2 * g), S(3 * g), W('t'), W('e'), W('t'), Cn(1), T(2 * g), W('t'), T(g), ST],
        # cancel after it fired / after it was spawned but before it ran / twice
        'cancel-late': [S(g), W('t'), W('e'), W('t'), T(g), W('t'), Cn(1), R, Cn(1), ST],
        # same-tick ties, both registration orders, and ties created by rounding
        'ties': [S(3 * g), S(3 * g), S(3 * g - (g - 1)), S(2 * g + 1), T(3 * g), ST],
        'ties-reversed': [S(2 * g + 1), S(3 * g - (g - 1)), S(3 * g), S(3 * g), T(3 * g), ST],
        # deadlines in the past and equal to now, scheduled before the worker ever ran and while it idles
        'past-deadlines': [T(5 * g), S(g), S(5 * g), S(-3), ST, W('t'), S(2 * g), ST, S(5 * g), W('e'), W('t'), R],
        # action that re-schedules itself (LowResolutionTime style) and cancels another
        'reschedule-from-action': [S(g, body=[S(2 * g, body=[S(3 * g)]), Cn(3)]), S(4 * g), T(g), ST, T(g), ST, T(g), ST, T(g), ST],
        # everything cancelled while the worker is in sleep(0): queue must not be popped empty under it
        'all-cancelled-during-sleep0': [S(g), W('t'), W('e'), Cn(1), W('t'), S(g), Cn(2), ST, T(g), ST],
    }
    for name, ops in sc.items():
      out.append({'kind': 'scen', 'name': name, 'r': r, 'ops': ops})
      out.append({'kind': 'scen', 'name': name + '/eager', 'r': r, 'eager': 'e', 'ops': ops})
  return out


def gen_cases(tier, seed):
  quick = tier == 'quick'
  out = scenarios()
  n = 900 if quick else 20000
  for i in range(n):
    rng = C.case_rng(seed, PID, i)
    r = RES[i % 4] if i % 7 else rng.choice(RES)
    t0 = rng.choice([0, 0, r or 8, 1000, 262144 + 3])
    k = rng.random()
    if k < 0.75:
      out.append({'kind': 'trace', 'r': r, 't0': t0, 'ops': gen_trace(rng, r, rng.choice([8, 16, 25, 40]), t0)})
    else:
      out.append({'kind': 'eager', 'r': r, 't0': t0, 'eager': rng.choice(['e', 't']),
                  'ops': gen_trace(rng, r, rng.choice([8, 16, 25]), t0)})
  for i in range(250 if quick else 3000):
    rng = C.case_rng(seed + 15485863, PID, i)
    r = RES[i % 4]
    out.append({'kind': 'real', 'r': r, 't0': rng.choice([0, 1000]), 'ops': gen_trace(rng, r, rng.choice([10, 20, 30]), 0)})
  out.extend(_exh(4 if quick else 5))
  return out


def search_cases(tier, seed, diverging):
  out = []
  for i in range(6000):
    rng = C.case_rng(seed + 104729, PID, i)
    r = RES[i % 4]
    if i % 2:
      out.append({'kind': 'eager', 'r': r, 't0': 0, 'eager': rng.choice(['e', 't']), 'ops': gen_trace(rng, r, 30)})
    else:
      out.append({'kind': 'trace', 'r': r, 't0': 0, 'ops': gen_trace(rng, r, 40)})
  return out


# ---------------------------------------------------------------------------------------------
# implementation driver
# ---------------------------------------------------------------------------------------------
def _ticks(x, flags):
  f = Fraction(x) * 256
  if f.denominator != 1:
    flags['nonint'] = True
    return f.numerator // f.denominator
  return int(f)


PC = {'top': 0, 'idle': 1, 'sleep0': 2, 'timed': 3, 'sleepn': 5}


def run_real(case):
  """End-to-end run on the real gevent hub (virtual time only); observed by the monitor alone."""
  tqm = _S['tqm']
  r = case['r']
  w = V.RealWorld(0.0).activate()
  flags = {}
  events = []
  cancels = {}
  st = {'nsched': 0}

  def tk(x):
    return _ticks(x, flags)

  w.on_spawn = lambda fn: events.append(['spawn', getattr(fn, 'k', -1), tk(w.now)])
  tq = tqm.TimerQueue(time_source=w.time, resolution=r / U)

  def make_action(k, body):
    def act():
      events.append(['run', k, tk(w.now)])
      for op in body:
        call(op)
    act.k = k
    return act

  def call(op):
    if op['op'] == 'sched':
      k = st['nsched'] + 1
      st['nsched'] = k
      events.append(['sched', k, op['d'], tk(w.now)])
      cancels[k] = tq.Schedule(op['d'] / U, make_action(k, op.get('body') or []))
    elif op['op'] == 'cancel' and op['k'] in cancels:
      events.append(['cancel', op['k'], tk(w.now)])
      cancels[op['k']]()

  def quiet():
    if tq._worker.dead and not flags.get('worker_exc'):
      flags['worker_exc'] = type(tq._worker.exception).__name__
      events.append(['worker-died', flags['worker_exc'], tk(w.now)])
    if w.livelock:
      if not flags.get('livelock'):
        flags['livelock'] = True
        events.append(['livelock', tk(w.now)])
      return
    events.append(['quiet', tk(w.now)])
  try:
    if case.get('t0'):
      w.advance_to(case['t0'] / U)
      events.append(['tick', tk(w.now)])
    for op in case['ops']:
      t = op['op']
      if w.livelock:
        break
      if t in ('sched', 'cancel'):
        call(op)
      elif t == 'tick':
        # the clock moves while greenlets are parked; time-outs that elapse on the way fire at their own time
        w.advance_to((tk(w.now) + op['dt']) / U, on_time=lambda: events.append(['tick', tk(w.now)]))
        quiet()
      elif t in ('worker', 'run'):
        w.yield_once()
      elif t == 'settle':
        w.settle()
        quiet()
    w.settle()
    quiet()
  finally:
    w.close()
  return {'steps': [], 'events': events, 'flags': flags, 'nsched': st['nsched']}


def run_impl(case):
  setup()
  if case['kind'] == 'real':
    return run_real(case)
  tqm = _S['tqm']
  r = case['r']
  w = V.World(0.0).activate()
  flags = {}
  steps = []          # [label, obs]
  events = []         # log for the monitor
  cancels = {}
  st = {'nsched': 0, 'tq': None}
  runs = []

  def tk(x):
    return _ticks(x, flags)

  def obs(full_q, full_ran):
    tq = st['tq']
    if w.worker_dead():
      pc = [4, 0]
    else:
      kind, exp, _e = w.parked
      pc = [PC[kind], tk(exp) if exp is not None else 0]
    en = w.worker_enabled()
    o = {'pc': pc, 'ev': bool(tq._event.is_set()), 'en': [bool(en[0]), bool(en[1])], 'qlen': len(tq._queue),
         'sp': [getattr(g.fn, 'k', -1) for g in w.fifo], 'ranlen': len(runs)}
    if full_q:
      o['q'] = sorted([tk(e[0]), int(e[1]), bool(e[2])] for e in tq._queue)
    if full_ran:
      o['ran'] = [list(x) for x in runs]
    return o

  def record(label):
    steps.append([label, obs(label[0] == 'W', label[0] == 'R')])
    en = w.worker_enabled()
    if not en[0] and not en[1] and not w.fifo:
      events.append(['quiet', tk(w.now)])

  def on_spawn(fn):
    events.append(['spawn', getattr(fn, 'k', -1), tk(w.now)])
  w.on_spawn = on_spawn

  def make_action(k, body):
    def act():
      runs.append([k, tk(w.now)])
      events.append(['run', k, tk(w.now)])
      record(['R'])
      for op in body:
        call(op)
    act.k = k
    return act

  def call(op):
    t = op['op']
    if t == 'sched':
      k = st['nsched'] + 1
      st['nsched'] = k
      events.append(['sched', k, op['d'], tk(w.now)])
      cancels[k] = st['tq'].Schedule(op['d'] / U, make_action(k, op.get('body') or []))
      record(['S', op['d']])
    elif t == 'cancel':
      k = op['k']
      if k in cancels:
        events.append(['cancel', k, tk(w.now)])
        cancels[k]()
        record(['C', k])

  def worker(by, pref):
    en = w.worker_enabled()
    if by == 'e':
      ok, be = en[0], True
    elif by == 't':
      ok, be = en[1], False
    else:
      ok = en[0] or en[1]
      be = en[0] if (pref == 'e' or not en[1]) else False
    if not ok:
      return False
    w.resume_worker(be)
    if w.worker_exc and not flags.get('worker_exc'):
      flags['worker_exc'] = w.worker_exc
      events.append(['worker-died', w.worker_exc, tk(w.now)])
    record(['W', be])
    return True

  def settle(pref):
    n = 0
    while True:
      bound = 6 * (len(st['tq']._queue) + len(w.fifo) + st['nsched']) + 12
      progressed = False
      if w.fifo and pref == 't':
        w.run_next()
        progressed = True
      elif worker('a', pref):
        progressed = True
      elif w.fifo:
        w.run_next()
        progressed = True
      if not progressed:
        return
      n += 1
      if n > bound:
        flags['livelock'] = True
        events.append(['livelock', tk(w.now)])
        return

  crit0 = _S.get('critical', 0)
  try:
    st['tq'] = tqm.TimerQueue(time_source=w.time, resolution=r / U)
    eager = case.get('eager')
    if case.get('t0'):
      w.now = case['t0'] / U
      events.append(['tick', tk(w.now)])
      record(['T', tk(w.now)])
    for op in case['ops']:
      t = op['op']
      if t in ('sched', 'cancel'):
        call(op)
      elif t == 'tick':
        w.now = (tk(w.now) + op['dt']) / U
        events.append(['tick', tk(w.now)])
        record(['T', tk(w.now)])
      elif t == 'worker':
        worker(op.get('by', 'a'), op.get('pref', 'e'))
      elif t == 'run':
        if w.fifo:
          w.run_next()
      elif t == 'settle':
        settle(op.get('pref', 'e'))
      if eager:
        settle(eager)
    if steps:
      steps[-1][1] = obs(True, True)
    if w.action_errors:
      flags['action_errors'] = list(w.action_errors)
    if _S.get('critical', 0) != crit0:
      flags['seq_mismatch_logged'] = _S['critical'] - crit0
  finally:
    st['tq'] = None
    w.close()
  return {'steps': steps, 'events': events, 'flags': flags, 'nsched': st['nsched']}


# ---------------------------------------------------------------------------------------------
# monitor: the property statement on the implementation's log (independent of the model)
# ---------------------------------------------------------------------------------------------
def monitor(case, obs):
  v = []
  r = case['r']
  sched = {}          # k -> (d, index in the event log)
  first_cancel = {}   # k -> (time, index)
  spawned_at = {}     # k -> index
  ran = {}            # k -> [times]
  ev = obs['events']

  def cr(d):
    return d if r == 0 else -((-d) // r) * r

  for i, e in enumerate(ev):
    t = e[0]
    if t == 'sched':
      sched[e[1]] = (e[2], i)
    elif t == 'cancel':
      first_cancel.setdefault(e[1], (e[2], i))
    elif t == 'spawn':
      a = e[1]
      if a not in sched:
        v.append(('spawned-unscheduled', 'worker spawned something that was never scheduled: %r' % (e,)))
        continue
      if a in spawned_at:
        v.append(('ran-twice', 'action %d taken off the queue twice' % a))
      spawned_at[a] = i
      ka = (cr(sched[a][0]), a)
      if a in first_cancel and first_cancel[a][1] < i and first_cancel[a][0] < ka[0]:
        v.append(('cancelled-ran', 'action %d cancelled at %d < rounded deadline %d was started at %d' % (a, first_cancel[a][0], ka[0], e[2])))
      # order: everything scheduled, not cancelled and not yet taken at this moment is not earlier than a
      for b, (db, ib) in sched.items():
        if b == a or ib > i or b in spawned_at and spawned_at[b] < i:
          continue
        if b in first_cancel and first_cancel[b][1] < i:
          continue
        if (cr(db), b) < ka:
          v.append(('out-of-order', 'action %d (rounded deadline %d) taken at t=%d before pending action %d (rounded deadline %d)'
                    % (a, ka[0], e[2], b, cr(db))))
    elif t == 'run':
      a, tr = e[1], e[2]
      ran.setdefault(a, []).append(tr)
      if a not in sched:
        continue
      d = sched[a][0]
      if len(ran[a]) > 1:
        v.append(('ran-twice', 'action %d ran at %s' % (a, ran[a])))
      if tr < d:
        v.append(('ran-early', 'action %d requested for %d ran at %d' % (a, d, tr)))
      elif tr < cr(d):
        v.append(('ran-before-rounded-deadline', 'action %d requested for %d (rounded %d) ran at %d' % (a, d, cr(d), tr)))
      if a in first_cancel and first_cancel[a][0] < cr(d):
        v.append(('cancelled-ran', 'action %d cancelled at %d < rounded deadline %d ran at %d' % (a, first_cancel[a][0], cr(d), tr)))
    elif t == 'quiet':
      now = e[1]
      for a, (d, ia) in sched.items():
        if a in first_cancel and first_cancel[a][1] < i:
          continue
        if cr(d) <= now and a not in ran:
          v.append(('due-not-run-at-quiescence', 'action %d (rounded deadline %d) has not run at t=%d although the worker is '
                    'blocked and nothing is runnable' % (a, cr(d), now)))
          break
    elif t == 'worker-died':
      v.append(('worker-died', 'the timer worker greenlet died with %s at t=%d' % (e[1], e[2])))
    elif t == 'livelock':
      v.append(('worker-livelock', 'the worker stayed runnable without any Schedule call or clock advance (t=%d)' % e[1]))
  # run order = take order (FIFO of spawned greenlets is provided by the scheduler)
  if obs['flags'].get('action_errors'):
    v.append(('action-error', 'exception inside a harness action: %s' % obs['flags']['action_errors']))
  # de-duplicate by signature, keep first message
  seen = set()
  out = []
  for s, m in v:
    if s not in seen:
      seen.add(s)
      out.append((s, m))
  return out


# ---------------------------------------------------------------------------------------------
# translation to Coq
# ---------------------------------------------------------------------------------------------
def _z(n):
  n = int(n)
  return str(n) if n >= 0 else '(%d)' % n


def _label(l):
  t = l[0]
  if t == 'S':
    return 'LS %s' % _z(l[1])
  if t == 'C':
    return 'LC %s' % _z(l[1])
  if t == 'T':
    return 'LT %s' % _z(l[1])
  if t == 'W':
    return 'LW %s' % C.blit(l[1])
  return 'LR'


def _obs(o):
  q = 'None'
  if 'q' in o:
    q = '(Some [%s])' % ';'.join('(%s,%s,%s)' % (_z(a), _z(b), C.blit(c)) for a, b, c in o['q'])
  ran = 'None'
  if 'ran' in o:
    ran = '(Some [%s])' % ';'.join('(%s,%s)' % (_z(a), _z(b)) for a, b in o['ran'])
  return 'Ob (%s,%s) %s (%s,%s) %s %s [%s] %s %s' % (
      _z(o['pc'][0]), _z(o['pc'][1]), C.blit(o['ev']), C.blit(o['en'][0]), C.blit(o['en'][1]), _z(o['qlen']), q,
      ';'.join(_z(x) for x in o['sp']), _z(o['ranlen']), ran)


_SEEN_EXH = set()


def to_coq(case, obs):
  if not obs['steps']:
    return None
  if case['kind'] == 'exh':
    key = C.canon([l for l, _o in obs['steps']])
    if key in _SEEN_EXH:
      return None
    _SEEN_EXH.add(key)
  return 'mkCase %s [%s]%%Z' % (_z(case['r']), ';\n '.join('(%s, %s)' % (_label(l), _obs(o)) for l, o in obs['steps']))


def nontrivial(case, obs):
  if case['kind'] == 'real':
    return any(e[0] == 'run' for e in obs['events'])
  ls = [l[0] for l, _o in obs['steps']]
  return 'W' in ls and 'S' in ls


def describe(case, obs):
  return {'case': case, 'labels': [l for l, _o in obs['steps']][:60], 'events': obs['events'][:60], 'flags': obs['flags']}


def stats(cases, obs):
  import collections
  labels = collections.Counter()
  trans = collections.Counter()
  schedk = collections.Counter()
  canck = collections.Counter()
  runs = 0
  names = {0: 'Top', 1: 'Idle', 2: 'Sleep0', 3: 'Timed', 4: 'Dead', 5: 'SleepN'}
  for c, o in zip(cases, obs):
    if not isinstance(o, dict) or 'steps' not in o:
      continue
    prev = {'pc': [0, 0], 'ev': False, 'qlen': 0, 'sp': [], 'q': []}
    for l, ob in o['steps']:
      labels[l[0]] += 1
      if l[0] == 'W':
        popped = prev['qlen'] - ob['qlen']
        spn = len(ob['sp']) - len(prev['sp'])
        trans['%s/%s/ev=%d -> %s pop=%s spawn=%s' % (names[prev['pc'][0]], 'event' if l[1] else 'timeout', prev['ev'],
                                                   names[ob['pc'][0]], min(popped, 3), min(spn, 3))] += 1
      elif l[0] == 'S':
        schedk['%s sets_event=%d at %s' % ('first' if prev['qlen'] == 0 else 'more', (not prev['ev']) and ob['ev'],
                                          names[ob['pc'][0]])] += 1
      elif l[0] == 'C':
        canck['at %s' % names[ob['pc'][0]]] += 1
      elif l[0] == 'R':
        runs += 1
      prev = ob
  crit = sum(o['flags'].get('seq_mismatch_logged', 0) for o in obs if isinstance(o, dict) and 'flags' in o)
  return {'seq_mismatch_critical_logged': crit, 'labels_executed': dict(labels), 'worker_segment_branches': dict(sorted(trans.items())),
          'schedule_kinds': dict(sorted(schedk.items())), 'cancel_kinds': dict(canck), 'actions_run': runs}
