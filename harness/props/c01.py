"""C01 - Every call completes exactly once, no later than its deadline.

Implementation under test: full client stacks as shipped (scales.thrift.builder.Thrift / scales.thriftmux.builder.ThriftMux:
MessageDispatcher -> ClientTimeoutSink -> serializer -> ApertureBalancerSink -> ResurrectorSink -> [WatermarkPoolSink] ->
transport) running in the simulation world (harness/vworld.py: virtual clock, fake sockets, scripted peers).
Model: coq/Model/CallLife.v (per call; everything below the timeout sink is an arbitrary environment).
Correspondence: for every call of every scenario the sink-stack events the implementation produced (class-level
wrappers in harness/scenario.py) are replayed label by label through CallLife.step inside Coq; every label must be
enabled, the frame on top of the model's stack must be of the class the implementation popped, and the completions
(count, tick, kind) must be equal.  Monitor: the property statement on what callers observed.
"""
import logging
import sys

from .. import common as C

PID = 'C01'
PROPS_FILE = 'Props/C01.v'
COQ_HEADER = 'From Scales Require Import Model.CallLife.'
# one runner case = one scenario = a list of per-call model cases
COQ_CASE_TYPE = 'list CallLife.case'
COQ_CHECK = '(forallb CallLife.check_case)'
COQ_EXPLAIN = '(map (fun c => (CallLife.check_case c, CallLife.explain_case c)))'
SHARD = 400
WORKERS = 8
RULE = ('seeded full-stack scenarios (harness/scengen.py): Thrift and ThriftMux stacks, 1-3 endpoints, 1-12 calls, replies '
        'delayed to just before/at/after the deadline, dropped, garbage, server exceptions, connection close/reset, duplicate and '
        'bogus-tag mux replies, refused/hanging connects, injected I/O faults, joins/leaves, client close, calls issued before the '
        'client finished opening (SetOpenTimeout(0)), timer resolution 1 or 4 ticks, both same-tick timer orders; one Coq case per '
        'call; non-trivial = the call reached the timeout sink and something other than a plain immediate reply happened; distinct '
        'by canonical JSON of the per-call label sequence')
TRUSTED = ['simulation world harness/vworld.py (virtual time for gevent.sleep/Timeout/Event.wait/AsyncResult.wait, fake gsocket)',
           'scripted peers harness/peers.py; class-level tracing wrappers in harness/scenario.py',
           'gevent AsyncResult semantics; C10 (timer queue) for "the timer action runs once the clock reaches the rounded deadline"']
ASSUMPTIONS = ['time is quantised to ticks of 1/64 s so that float arithmetic on times is exact',
               'C01_deadline / C01_completes_by_rounded_deadline are stated over coarse runs in which a response is drained '
               'completely (no sink handler raises or swallows it); the four fine-grained theorems have no such assumption',
               'calls issued before the client finished opening are bounded by DispatchMethodCall\'s own timer (fix f922715; model '
               'fields waited/otmr, label OFire)']
MANIFEST = {
    'text': ('Theorems over every label sequence of the per-call model (any replies/faults/duplicates/timer firings in any '
             'order, any resolution r>0): completed at most once, late arrivals inert, TimeoutError never before t0+T, and - '
             'with complete drains - completion by the rounded deadline for every call, including calls issued before the client '
             'finished opening (bounded by the dispatcher\'s own timer; never dispatched once timed out). Model tied to the real Thrift/ThriftMux stacks by '
             'replaying the sink-stack events of each simulated call through the model inside Coq.'),
    'note': ('Trusted: Coq kernel; simulation world, scripted peers and tracing wrappers; gevent; the environment below the '
             'timeout sink is unconstrained in the model, so servers/connections/server-set behaviour need not be modelled. '
             'All theorems closed under the global context.'),
    'technique': 'Coq invariants over a per-call transition system + trace-driven replay of real full-stack executions in virtual time',
    'design_ref': 'DESIGN.md section 5, C01',
}

_S = {}


def setup():
  if _S:
    return
  logging.disable(logging.CRITICAL)
  if C.REPO not in sys.path:
    sys.path.insert(0, C.REPO)
  import scales
  assert scales.__file__.startswith(C.REPO), scales.__file__
  from harness import scenario, scengen
  _S['scenario'] = scenario
  _S['scengen'] = scengen


def members_leave_with_calls_in_flight(r, i):
  """Unanswered calls with different deadlines are in flight on the last member(s) when they leave the server set (and
  perhaps re-join): every call must still complete by its own deadline."""
  stack = ['mux', 'thrift'][i % 2]
  n_ep = r.choice([1, 1, 2])
  n = r.choice([2, 3, 4])
  T = r.choice([16, 32])
  eps = [{'port': 9001 + k, 'default': {'act': r.choice(['drop', 'drop', 'reply']), 'delay': T + 20}, 'plan': {}, 'reach': []}
         for k in range(n_ep)]
  evs = [{'at': k, 'op': 'call', 'id': 'c%d' % k, 'timeout': T + 6 * k} for k in range(n)]
  t_leave = n + r.choice([0, 1, 3])
  for k in range(n_ep):
    evs.append({'at': t_leave + k * r.choice([0, 1]), 'op': 'leave', 'port': 9001 + k})
  if r.random() < 0.4:
    evs.append({'at': t_leave + r.choice([2, T // 2, T + 1]), 'op': 'join', 'port': 9001})
  if r.random() < 0.5:
    evs.append({'at': t_leave + 2, 'op': 'call', 'id': 'c%d' % n, 'timeout': T})
  spec = {'stack': stack, 'tie': r.choice(['fifo', 'lifo']), 'timeout': T, 'seed': r.randrange(1 << 30), 'resolution': r.choice([1, 4]),
          'endpoints': eps, 'events': sorted(evs, key=lambda e: e['at']), 'faults': [], 'horizon': T + 6 * n + 60}
  if stack == 'thrift':
    spec['pool'] = {'min': 1, 'max': r.choice([2, 4]), 'maxq': 8}
  return spec


def gen_cases(tier, seed):
  from harness import scengen
  n = 320 if tier == 'quick' else 6000
  out = []
  for i in range(n // 16):
    r = C.case_rng(seed, PID + 'leave', i)
    spec = members_leave_with_calls_in_flight(r, i)
    out.append({'kind': spec['stack'] + '/leave-in-flight', 'spec': spec})
  profs = ['mixed', 'timeouts', 'faults', 'outage', 'timeouts', 'mixed']
  for i in range(n):
    r = C.case_rng(seed, PID, i)
    spec = scengen.gen(r, profile=profs[i % len(profs)], idx=i)
    out.append({'kind': spec['stack'] + '/' + profs[i % len(profs)], 'spec': spec})
  from harness.props import c02
  for i in range(n // 8):
    r = C.case_rng(seed, PID + 'late', i)
    spec = c02.late_reply(r, i)
    out.append({'kind': spec['stack'] + '/late-reply', 'spec': spec})
  return out


def search_cases(tier, seed, diverging):
  from harness import scengen
  out = []
  for i in range(1500):
    r = C.case_rng(seed + 104729, PID, i)
    spec = scengen.gen(r, profile=['timeouts', 'mixed', 'faults'][i % 3], idx=i)
    out.append({'kind': spec['stack'] + '/search', 'spec': spec})
  return out


def run_impl(case):
  setup()
  tr = _S['scenario'].run(case['spec'])
  # keep the observation compact
  calls = {}
  for cid, c in tr['calls'].items():
    calls[cid] = {k: c.get(k) for k in ('issued', 'timeout', 'done', 'opened', 'final', 'final_ready', 'issue_error')}
  evs = [e for e in tr['events']]
  args = {e['id']: e['id'] + '|' + e.get('pad', '') for e in _S['scenario'].call_events(case['spec'])}
  return {'calls': calls, 'events': evs, 'args': args, 'crashes': tr['crashes'], 'now': tr['now'], 'closed_at': tr.get('closed_at'),
          't_base': tr['t_base'], 'open_failed': tr.get('open_failed', False)}


def _ceil(r, d):
  return -((-d) // r) * r


def monitor(case, obs):
  v = []
  spec = case['spec']
  r = spec.get('resolution', 1)
  completes = {}
  entered = {}
  for e in obs['events']:
    if e[1] == 'complete':
      completes[e[2]] = completes.get(e[2], 0) + 1
    if e[1] == 'tsink' and e[2] not in entered:
      entered[e[2]] = e[0]
  for cid, c in obs['calls'].items():
    if c.get('issue_error'):
      continue
    dl = c['issued'] + c['timeout']
    limit = _ceil(r, dl)
    if c['timeout'] <= 0:
      limit = c['issued']      # deadline already passed when the call entered: it must fail at once (same tick)
    done = c['done']
    if len(done) > 1 or completes.get(cid, 0) > 1:
      v.append(('completed-twice', 'call %s completed %d times (%s)' % (cid, max(len(done), completes.get(cid, 0)), done)))
    fin = c.get('final')
    if fin and fin.get('has_value') and fin.get('has_exc'):
      v.append(('value-and-exception', 'call %s result carries both a value and an exception' % cid))
    if done and fin and (done[0]['kind'] != fin['kind'] or done[0]['value'] != fin['value']):
      v.append(('result-changed-after-completion', 'call %s: completed as %s but later reads %s' % (cid, done[0], fin)))
    for d in done:
      if d['kind'] == 'TimeoutError' and d['at'] < dl:
        v.append(('timeout-early', 'call %s issued at %s with timeout %s got TimeoutError at %s' % (cid, c['issued'], c['timeout'], d['at'])))
    late = (not done and obs['now'] >= limit) or (done and done[0]['at'] > limit)
    if late:
      what = 'call %s issued at tick %s with timeout %s (rounded deadline %s) %s' % (
          cid, c['issued'], c['timeout'], limit, ('completed at %s' % done[0]['at']) if done else 'had not completed at %s' % obs['now'])
      # known finding F2: the call is chained behind the client's open with no timer, so it is late exactly when the
      # open completed after the rounded deadline (the call then completes in that very tick) or has not completed at all
      t_in = entered.get(cid)
      f2 = c.get('opened') is False and ((t_in is None and not done) or
                                         (t_in is not None and t_in > limit and done and done[0]['at'] == t_in))
      if f2:
        v.append(('late-completion/issued-before-open', what + ' [issued before the client finished opening]'))
      else:
        v.append(('late-completion', what))
    # reply identity is only meaningful against peers that keep the mux contract (a scripted 'bogus' peer answers on
    # a tag of its own choosing, which may belong to another call: adversarial peers are C11's subject)
    adversarial = any(a.get('act') == 'bogus' for ep in spec['endpoints'] for a in (ep.get('plan') or {}).values())
    for d in ([] if adversarial else done):
      arg = obs.get('args', {}).get(cid)
      if d['kind'] == 'value' and arg is not None and d['value'] != 'R:' + arg:
        v.append(('wrong-reply', 'call %s with argument %r completed with %r, which is not the reply to that call' % (cid, arg, d['value'])))
  # exceptions escaping a greenlet are recorded in the evidence (stats) but are not by themselves a violation of this
  # property: e.g. a message entering through StaticDispatchMessage while the balancer is still opening is processed
  # inside a hub callback, where the resurrector's sleep(0) / a pool's Open().wait() raise BlockingSwitchOutError;
  # the call then still completes through its timer.
  return v


FRAME = {'_AsyncResponseSink': 'FResp', 'ClientTimeoutSink': 'FTimeout'}


def _mk(kind):
  if kind in ('stream', 'value'):
    return 'MValue'
  if kind == 'TimeoutError':
    return 'MTimeout'
  return 'MError'


def call_labels(cid, c, events):
  """The label sequence (with observed top-of-stack classes) the implementation took for one call."""
  steps = []
  cur = c['issued']

  def tick(t):
    nonlocal cur
    if t > cur:
      steps.append(('Tick %s' % C.zlit(t), None))
      cur = t
  opened = c.get('opened')
  entered = False
  steps.append(('Issue %s %s' % (C.zlit(c['timeout']), C.blit(bool(opened))), None))
  # a call issued before the client finished opening is bounded by DispatchMethodCall's own timer: if the caller saw
  # TimeoutError and the chained inner dispatch had not completed by then, that outer timer fired (label OFire)
  ofire_seq = None
  if not opened and c['done'] and c['done'][0]['kind'] == 'TimeoutError':
    dseq = c['done'][0].get('seq')
    inner = [e for e in events if e[2] == cid and e[1] == 'complete' and (dseq is None or e[-1] < dseq)]
    if not inner:
      ofire_seq = dseq
  ofired = False
  for e in events:
    if e[2] != cid:
      continue
    t, k = e[0], e[1]
    if ofire_seq is not None and not ofired and e[-1] > ofire_seq:
      tick(c['done'][0]['at'])
      steps.append(('OFire', None))
      ofired = True
    if k == 'tsink':
      if not opened:
        tick(t)
        steps.append(('OpenDone', None))
      entered = True
    elif k == 'push':
      if e[3] in FRAME:
        continue
      tick(t)
      steps.append(('Push', None))
    elif k == 'rawpop':
      tick(t)
      steps.append(('Unpush', None))
    elif k == 'timer-fire':
      if not e[3]:
        continue        # expired-on-entry path: no timer was armed
      tick(t)
      steps.append(('Fire', None))
    elif k == 'resp':
      tick(t)
      depth, top, kind = e[3], e[4], e[5]
      steps.append(('(Pop %s)' % _mk(kind), 'None' if depth == 0 else '(Some %s)' % FRAME.get(top, 'FLower')))
  if ofire_seq is not None and not ofired:
    tick(c['done'][0]['at'])
    steps.append(('OFire', None))
  return steps, entered


def _call_term(spec, cid, c, events):
  steps, entered = call_labels(cid, c, events)
  os = C.lst(['{| o_label := %s; o_top := %s |}' % (l if not l.startswith('Tick') and not l.startswith('Issue') else '(%s)' % l,
                                                      t or 'None') for l, t in steps])
  done = C.lst(['(%s, %s)' % (C.zlit(d['at']), _mk(d['kind'])) for d in reversed(c['done'])])
  return '{| c_r := %s; c_start := %s; c_steps := %s; c_done := %s |}' % (
      C.zlit(spec.get('resolution', 1)), C.zlit(c['issued']), os, done)


def to_coq(case, obs):
  """All calls of the scenario are folded into one Coq term list; the runner takes one term per case, so the
  per-call terms are conjoined through a list-typed case: see COQ_CASE_TYPE below."""
  terms = []
  for cid, c in sorted(obs['calls'].items()):
    if c.get('issue_error') or c['timeout'] <= 0:
      continue       # (calls entering with a deadline already in the past are checked by the monitor only)
    terms.append(_call_term(case['spec'], cid, c, obs['events']))
  return C.lst(terms)


def nontrivial(case, obs):
  for c in obs['calls'].values():
    if c['done'] and not (c['done'][0]['kind'] == 'value' and c['done'][0]['at'] == c['issued']):
      return True
  return False


def describe(case, obs):
  return {'spec': case['spec'], 'calls': obs['calls'], 'first_events': obs['events'][:12]}


def stats(cases, obs):
  kinds = {}
  ncalls = 0
  before_open = 0
  fires = 0
  for o in obs:
    if not isinstance(o, dict) or 'calls' not in o:
      continue
    for c in o['calls'].values():
      ncalls += 1
      k = c['done'][0]['kind'] if c['done'] else 'pending-at-horizon'
      kinds[k] = kinds.get(k, 0) + 1
      if c.get('opened') is False:
        before_open += 1
    fires += sum(1 for e in o['events'] if e[1] == 'timer-fire')
  crashes = {}
  for o in obs:
    if isinstance(o, dict):
      for cr in o.get('crashes', []):
        crashes[cr['type']] = crashes.get(cr['type'], 0) + 1
  return {'calls': ncalls, 'outcome_kinds': kinds, 'calls_issued_before_open': before_open, 'timer_fires': fires,
          'greenlet_crashes_by_type': crashes}
