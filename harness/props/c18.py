"""C18 - Metrics are neither lost, duplicated nor split across equal sources.

Implementation under test (imported from $SCALES_REPO as it is now):
  scales.varz.Source / VarzReceiver (VARZ_DATA, IncrementVarz, SetVarz, RecordPercentileSample) / _SampleSet,
  the VarzMetric classes (Counter, Rate, Gauge, AverageRate, AverageTimer, AggregateTimer; bound and unbound),
  VarzAggregator.Aggregate / CalculatePercentile / _Downsample, DefaultKeySelector,
  scales.dispatch.MessageDispatcher + _AsyncResponseSink (end-to-end case kind, stub next sink).
Model: coq/Model/Varz.v.  Monitor: the property statement computed by independent Python (reference
dictionaries keyed by field tuples, exact Fractions, sorted-sample percentile bounds / monotonicity).

EVERY update constructs a fresh Source object from freshly built field strings, so equal-but-not-identical
sources are the norm.  `random` and the low resolution clock inside scales.varz are replaced by scripted
sources whose draws are recorded and passed to the model in the labels.
"""
import re
import sys
from fractions import Fraction

from .. import common as C

PID = 'C18'
PROPS_FILE = 'Props/C18.v'
COQ_HEADER = 'From Coq Require Import QArith.\nFrom Scales Require Import Model.Base Model.Varz.\nLocal Open Scope Z_scope.'
COQ_CASE_TYPE = 'Varz.case'
COQ_CHECK = 'Varz.check_case'
COQ_EXPLAIN = 'Varz.explain_case'
SHARD = 60
WORKERS = 1
RULE = ('seeded generator: (run) 4..90 receiver / VarzMetric calls over 1..4 metrics of every VarzType (and an '
        'unregistered / unknown type), every call with a freshly constructed Source drawn from a pool of 2..6 field '
        'tuples (None and string fields), reservoir capacity in {1,2,3,5,8,30,1000}, scripted random draws around the '
        'keep threshold 0.1, clock jumps across the 300 s staleness limit, interleaved dumps of VARZ_DATA and '
        'Aggregate under 5 key selectors; 15% of the cases deliberately mix update kinds on one metric (error '
        'branches); (e2e) 1..60 calls through a real MessageDispatcher with a stub sink (success / error / no reply, '
        'endpoint None / str / empty / object; replies ok / ValueError / scales TimeoutError / gevent.Timeout / not a '
        'MethodReturnMessage; calls issued while Open() is pending, Open() failing, Close + refused call + re-Open, two '
        'dispatcher instances with equal or different labels, calls made from inside a completion callback); receiver '
        'calls executed by other greenlets INSIDE Aggregate\'s yields (first values of new metrics / sources), calls '
        'with a non-Source, VARZ_DATA.pop of a metric followed by a second life, the same Source object re-used across '
        'metrics, long-lived metric objects, empty-string fields, capacity 0, boundary amounts (2^8..2^32); (pct) CalculatePercentile on sorted lists of 0..40 floats over a grid of p in '
        '[0,1] plus out-of-range p; (down)/(target) _Downsample and its float size computation. non-trivial = at '
        'least two updates through distinct-but-equal Source objects, or a non-empty percentile input; distinct by '
        'canonical JSON of (case, observation)')
TRUSTED = ['independent Python reference of the property (exact Fractions, dictionaries keyed by field tuples) in '
           'harness/props/c18.py (monitor)',
           'float outputs (percentiles, means) are compared with the exact rational model within 1e-9 relative to the '
           'largest sample (DESIGN.md 4.3)']
ASSUMPTIONS = ['python dict semantics (insertion order, lookup by __hash__ then __eq__) as transcribed by the association '
               'lists of Model/Varz.v',
               'IEEE-754 binary64 round-to-nearest-even for len*(1.0/count) and len/target as transcribed by to_float; '
               'checked against CPython on every run (kinds target, down)',
               'increments are integers and gauge values dyadic rationals in generated histories, so the float sums of '
               'Aggregate are exact; theorems are over Q',
               'field values are strings or None (1 == 1.0 == True style cross-type equality of python is outside the model)']

MANIFEST = {
    'text': ('Theorems C18_sum, C18_sum_concurrent, C18_aggregate_atomic, C18_gauge, C18_gauge_agg, C18_series_bound, '
             'C18_pct_bounds, C18_pct_mono, C18_pct_agg, C18_no_error hold for every update sequence, every key selector, every reservoir capacity, every random '
             'outcome and every clock of the Gallina transcription of VARZ_DATA / _SampleSet / Aggregate / '
             'CalculatePercentile; the transcription is run in lock-step with the real code (fresh Source object per '
             'update) on ~1.2k (quick) / ~7.4k (thorough) generated histories per run, including end-to-end runs through a '
             'real MessageDispatcher.'),
    'note': ('Trusted: Coq kernel; the correspondence harness (harness/props/c18.py) and its sampling; float outputs '
             'compared within 1e-9, float decisions modelled by an explicit binary64 rounding. All theorems closed under '
             'the global context.'),
    'technique': 'Coq proof (invariants over all label sequences, percentile interpolation over Q) + lock-step differential execution model vs code',
    'design_ref': 'DESIGN.md section 5, C18',
}

_S = {}
PREFIX = ['method', 'service', 'endpoint', 'client']
E2E_METRICS = {'scales.MessageDispatcher.dispatch_messages': 100, 'scales.MessageDispatcher.success_messages': 101,
               'scales.MessageDispatcher.exception_messages': 102, 'scales.MessageDispatcher.request_latency': 103}
EXC_CODE = {'TypeError': 1, 'AttributeError': 2, 'ZeroDivisionError': 3, 'IndexError': 4, 'RuntimeError': 6}


class _Clock(object):
  now = 0


class _Random(object):
  """Scripted replacement of the `random` module inside scales.varz: records that a draw happened."""

  def __init__(self):
    self.next = None
    self.used = 0

  def random(self):
    self.used += 1
    if self.next is None:
      return 0.5
    return self.next


class _NoGevent(object):
  """Replacement of `gevent` inside scales.varz: Aggregate's gevent.sleep(0) runs the next scheduled batch of
  receiver calls (what other greenlets would do during that yield) instead of switching to the hub."""
  batches = []
  runner = None

  @classmethod
  def sleep(cls, *_a, **_k):
    if cls.batches:
      b = cls.batches.pop(0)
      for op in b:
        cls.runner(op)
    return None


class _NoTimers(object):
  @staticmethod
  def Schedule(deadline, action):
    return lambda: None


class _FakeTime(object):
  def __init__(self):
    self.t = 1024.0

  def time(self):
    return self.t


def setup():
  if _S:
    return
  if C.REPO not in sys.path:
    sys.path.insert(0, C.REPO)
  import scales
  assert scales.__file__.startswith(C.REPO), scales.__file__
  import scales.varz as V
  import scales.dispatch as D
  from scales.message import MethodReturnMessage
  from scales.constants import MessageProperties, SinkProperties
  from scales.sink import ClientMessageSink
  from scales.asynchronous import AsyncResult
  import gevent
  clk = _Clock()
  rnd = _Random()
  ftime = _FakeTime()
  V.LOW_RESOLUTION_TIME_SOURCE = clk
  V.random = rnd
  V.gevent = _NoGevent
  D.time = ftime
  if hasattr(D, 'GLOBAL_TIMER_QUEUE'):
    D.GLOBAL_TIMER_QUEUE = _NoTimers        # a call waiting for Open() never times out in these histories
  _S.update(V=V, D=D, clk=clk, rnd=rnd, ftime=ftime, gevent=gevent, MethodReturnMessage=MethodReturnMessage,
            MessageProperties=MessageProperties, SinkProperties=SinkProperties, ClientMessageSink=ClientMessageSink,
            AsyncResult=AsyncResult, metrics0=dict(V.VarzReceiver.VARZ_METRICS),
            pcts0=list(V.VarzReceiver.VARZ_PERCENTILES),
            classes={1: V.Gauge, 2: V.Rate, 3: V.AggregateTimer, 4: V.Counter, 5: V.AverageTimer, 6: V.AverageRate})


# ---------------------------------------------------------------------------------------------
# generators
# ---------------------------------------------------------------------------------------------
JS = [0.0, 0.05, 0.09999999999999999, 0.1, 0.10000000000000002, 0.25, 0.5, 0.999]
KIND_OF_TYPE = {1: 'set', 5: 'sample', 6: 'sample'}


def kind_of_type(ty):
  return KIND_OF_TYPE.get(ty, 'inc')


def _rand_tuple(r):
  # 99 stands for the empty string (falsy, but a value different from None)
  return [r.choice([None, 0, 1, 99]), r.choice([0, 0, 1, None, 99]), r.choice([None, None, 0, 1, 2, 99]), r.choice([None, None, 0])]


def _value(r, kind):
  if kind == 'inc':
    if r.random() < 0.06:
      return r.choice([255, 256, 65535, 65536, 2 ** 24, 2 ** 31 - 1, 2 ** 31, 2 ** 32, -2 ** 31])
    return r.choice([None, 1, 1, 2, 5, -1, 0, 100, 3])
  if kind == 'set':
    if r.random() < 0.5:
      return r.choice([5, 3, 3, 5, 7])          # re-sets of earlier values are the norm for gauges
    return r.choice([0, 1, 7, -3, r.randrange(-64, 64) / 8.0, r.randrange(0, 1000)])
  k = r.random()
  if k < 0.03:
    return r.choice([0, 7, -1.5, -0.0, 65536.0, 2.0 ** 31, 0, 7, -1.5, -0.0, 65536.0, 2.0 ** 31, 1e100, 1e-100])   # ints, negatives, extremes
  if k < 0.5:
    return r.randrange(0, 4096) / 64.0
  if k < 0.8:
    return round(r.uniform(0.0, 50.0), 3)
  if k < 0.9:
    return float(r.randrange(0, 5))
  return r.choice([0.1, 0.37, 1e-3, 123.456, 2.5, 0.0])


def _gen_update(r, types, pool, mixed, raw_only=False):
  m, ty = r.choice(types)
  kind = kind_of_type(ty if ty is not None else 2)
  if ty is None:
    kind = ['inc', 'set', 'sample'][m % 3]
  if mixed and r.random() < 0.25:
    kind = r.choice(['inc', 'set', 'sample'])
  src = list(r.choice(pool))
  v = _value(r, kind)
  j = r.choice(JS + [r.random()])
  if not raw_only and ty in (1, 2, 3, 4, 5, 6) and kind == kind_of_type(ty) and r.random() < 0.5:
    # 0: class-level metric(source, v); 1: a fresh bound object; 2..4: one of three long-lived bound objects
    return ['C', ty, m, src, v, j, r.choice([0, 1, 2, 3, 4, 2, 3])]
  if not raw_only and r.random() < 0.2:
    return ['L', kind, m, src, v, j, r.choice([0, 1])]      # the very same Source object as before (also for other metrics)
  return ['L', kind, m, src, v, j]


def gen_run(r, big=False, mixed=None):
  nm = r.choice([1, 2, 2, 3, 4])
  types = []
  for m in range(nm):
    ty = r.choice([1, 2, 4, 4, 5, 5, 6, 3, 2, 7, None])
    types.append([m, ty])
  pool = []
  for _ in range(r.choice([2, 3, 3, 4, 6])):
    t = _rand_tuple(r)
    if t not in pool:
      pool.append(t)
  cap = r.choice([1, 2, 3, 5, 8, 30, 1000, 1, 2, 3, 5, 8, 30, 1000, 0])
  if mixed is None:
    mixed = r.random() < 0.15
  nops = r.choice([4, 8, 15, 30, 60, 90])
  ops = []
  now = 0

  def agg(sel):
    if r.random() < 0.4:
      # other greenlets record metrics while Aggregate yields: first values of new metrics / sources included
      return ['A', sel, [[_gen_update(r, types, pool, mixed, raw_only=True) for _ in range(r.choice([0, 1, 1, 2, 3]))]
                         for _ in range(r.choice([1, 2, 3, 5]))]]
    return ['A', sel]
  for _ in range(nops):
    k = r.random()
    if k < 0.07:
      now += r.choice([0, 1, 5, 100, 299, 300, 301, 600, -3])
      ops.append(['K', now])
    elif k < 0.10:
      ops.append(['D'])
    elif k < 0.16:
      ops.append(agg(r.choice([0, 0, 0, 1, 2, 3, 4])))
    elif k < 0.175:
      ops.append(['I', r.choice(['inc', 'set', 'sample']), r.choice(types)[0], r.choice([0, 1, 2]), r.choice([0, 1])])
    elif k < 0.19:
      ops.append(['P', r.choice(types)[0]])                # the metric is dropped and starts a second life
    else:
      ops.append(_gen_update(r, types, pool, mixed))
  ops.append(['D'])
  ops.append(agg(0))
  ops.append(['A', r.choice([1, 2, 3, 4])])
  case = {'kind': 'run', 'cap': cap, 'types': types, 'ops': ops}
  if r.random() < 0.06:       # VARZ_PERCENTILES is configuration: other lists, also outside [0,1] (IndexError / negative index)
    case['pcts'] = r.choice([[0.0, 0.25, 1.0], [0.5], [0.5, 1.5], [-0.5, 0.5], [1.0, 0.0], []])
  return case


def gen_reservoir(r, cap, nsrc, n, sel=3):
  """Sample-heavy history on one timer metric: exercises the full-reservoir branch and _Downsample."""
  ty = r.choice([5, 6])
  pool = [[None, 0, i, None] for i in range(nsrc)]
  ops = []
  for i in range(n):
    src = list(pool[r.randrange(nsrc)]) if r.random() < 0.8 else list(pool[0])
    v = r.randrange(0, 1024) / 4.0 if cap > 100 else _value(r, 'sample')
    j = r.choice(JS + [r.random()])
    if r.random() < 0.5:
      ops.append(['C', ty, 0, src, v, j, r.choice([0, 1, 2, 3])])
    else:
      ops.append(['L', 'sample', 0, src, v, j])
    if r.random() < 0.03:
      ops.append(['K', i])
  ops += [['D'], ['A', 0], ['A', sel], ['A', 2]]
  return {'kind': 'run', 'cap': cap, 'types': [[0, ty]], 'ops': ops}


def gen_objects(r):
  """Several long-lived Varz / VarzMetric OBJECTS bound to equal sources, interleaved, re-setting earlier values."""
  ty = r.choice([1, 1, 1, 4, 2])
  pool = [[None, 0, 0, None]] if r.random() < 0.6 else [[None, 0, 0, None], [0, 0, 1, None]]
  vals = r.choice([[5, 3], [5, 3, 7], [0, 1], [2.5, 5]])
  ops = []
  for _ in range(r.choice([3, 5, 8, 14, 20])):
    src = list(r.choice(pool))
    v = r.choice(vals)
    ops.append(['C', ty, 0, src, v, 0.5, r.choice([2, 3, 4, 5, 2, 3, 0, 1])])
    if r.random() < 0.15:
      ops.append(['D'])
    elif r.random() < 0.08:
      ops.append(['P', 0])        # the series is dropped; the long-lived objects keep writing
  ops += [['D'], ['A', 0], ['A', 2]]
  return {'kind': 'run', 'cap': 1000, 'types': [[0, ty]], 'ops': ops}


def gen_e2e(r):
  n = r.choice([1, 2, 4, 5, 10, 25, 60])
  two = r.random() < 0.4
  calls = []
  for _ in range(n):
    method = r.choice([0, 0, 1, 2, 99])
    k = r.random()
    timeout = r.choice([None, 5, 0])
    opts = {}
    if two and r.random() < 0.5:
      opts['d'] = 1                    # a second MessageDispatcher instance in the same process
    if r.random() < 0.15:
      opts['chain'] = True             # issued from inside the previous call's completion callback
    if k < 0.1:
      calls.append([method, None, timeout, opts])
    else:
      ep = r.choice([None, 0, 0, 1, 2, 99])
      kind = r.choice([0, 0, 0, 0, 1, 1, 2, 3, 4])
      calls.append([method, [ep, r.random() < 0.5, r.randrange(0, 2048) / 256.0, kind, r.choice(JS)], timeout, opts])
    if r.random() < 0.06:
      calls.append(['close'])
      if r.random() < 0.5:
        calls.append([method, [None, False, 0.5, 0, 0.5], None, {}])       # refused: the dispatcher is closed
      calls.append(['open', r.choice(['now', 'now', 'later', 'fail'])])
  # open_after = k: the next sink's Open() result completes only after k calls were issued (None: it is complete at once)
  open_after = None if r.random() < 0.4 else r.choice([n, r.randrange(0, n + 1), min(n, 2)])
  case = {'kind': 'e2e', 'cap': r.choice([2, 3, 5, 1000]), 'service': r.choice([0, 1]), 'ops': calls,
          'open_after': open_after, 'open_fail': r.random() < 0.15, 'default_timeout': r.choice([None, 10]),
          'tail': [['D'], ['A', 0], ['A', r.choice([1, 2, 4])]]}
  if two:
    case['service2'] = r.choice([0, 1, 2])         # the same label as the first dispatcher, or another one
  return case


def gen_pct(r):
  n = r.choice([0, 1, 2, 3, 4, 5, 7, 11, 20, 40])
  vals = sorted(_value(r, 'sample') if r.random() < 0.9 else -_value(r, 'sample') for _ in range(n))
  grid = sorted(set([0.0, 1.0, 0.5, 0.9, 0.99, 0.999, 0.9999] + [r.random() for _ in range(6)] +
                    [r.randrange(0, 17) / 16.0 for _ in range(3)] +
                    ([i / float(n - 1) for i in range(n)] if 1 < n <= 11 else [])))
  extra = r.sample([-0.25, -1.0, 1.5, 2.0, -0.5, 1.25, -2.0], r.choice([0, 1, 2]))
  return {'kind': 'pct', 'values': vals, 'ps': grid + extra}


def gen_down(r):
  n = r.choice([0, 1, 2, 3, 4, 5, 6, 9, 10, 17, 30, 64])
  lst = [r.randrange(0, 256) / 4.0 for _ in range(n)]
  t = r.choice([0, 1, 2, 3, max(0, n - 1), n, n + 1, max(1, n // 2), max(1, n // 3), r.randrange(0, n + 2)])
  return {'kind': 'down', 'lst': lst, 'target': t}


def gen_target(r):
  count = r.choice([1, 1, 2, 3, 5, 7, 10, 49, 98, r.randrange(1, 200)])
  n = r.choice([0, 1, count, 2 * count, 3 * count, 7 * count, 1000, r.randrange(0, 1001)])
  return {'kind': 'target', 'n': n, 'count': count}


def gen_cases(tier, seed):
  quick = tier == 'quick'
  out = []
  n_run = 600 if quick else 4500
  for i in range(n_run):
    r = C.case_rng(seed, PID, i)
    out.append(gen_run(r))
  n_res = 40 if quick else 300
  for i in range(n_res):
    r = C.case_rng(seed, PID + 'res', i)
    out.append(gen_reservoir(r, r.choice([2, 3, 5, 8, 12, 30]), r.choice([1, 1, 2, 3, 5]), r.choice([10, 40, 120]),
                             sel=r.choice([3, 1, 0])))
  for i in range(1 if quick else 3):          # the production capacity, past the point where it is full
    r = C.case_rng(seed, PID + 'big', i)
    out.append(gen_reservoir(r, 1000, 1, 1030))
  for i in range(80 if quick else 600):
    out.append(gen_objects(C.case_rng(seed, PID + 'obj', i)))
  for i in range(60 if quick else 400):
    out.append(gen_e2e(C.case_rng(seed, PID + 'e2e', i)))
  for i in range(200 if quick else 1200):
    out.append(gen_pct(C.case_rng(seed, PID + 'pct', i)))
  for i in range(120 if quick else 600):
    out.append(gen_down(C.case_rng(seed, PID + 'down', i)))
  for count in [1, 2, 3, 7, 49, 98, 103, 107, 161, 187, 196, 197]:    # int(n * (1.0/count)) != n // count for some of these
    for n in [count, 2 * count, 5 * count, 1000]:
      out.append({'kind': 'target', 'n': n, 'count': count})
  for i in range(100 if quick else 400):
    out.append(gen_target(C.case_rng(seed, PID + 'tgt', i)))
  return out


def search_cases(tier, seed, diverging):
  """Adversarial stream used only when proof/correspondence broke: many equal-source updates, all selectors."""
  out = []
  for i in range(1500):
    r = C.case_rng(seed + 7919, PID, i)
    out.append(gen_run(r, mixed=False))
  for i in range(200):
    r = C.case_rng(seed + 7919, PID + 'res', i)
    out.append(gen_reservoir(r, r.choice([1, 2, 3, 5]), r.choice([1, 2, 4]), 60, sel=r.choice([0, 1, 3])))
  for i in range(300):
    out.append(gen_e2e(C.case_rng(seed + 7919, PID + 'e2e', i)))
  for i in range(300):
    out.append(gen_objects(C.case_rng(seed + 7919, PID + 'obj', i)))
  for i in range(500):
    out.append(gen_pct(C.case_rng(seed + 7919, PID + 'pct', i)))
  return out


# ---------------------------------------------------------------------------------------------
# implementation driver
# ---------------------------------------------------------------------------------------------
def _mname(m):
  return 'c18.m%d' % m


def _mid(name):
  if name in E2E_METRICS:
    return E2E_METRICS[name]
  mt = re.match(r'^c18\.m(\d+)$', name)
  return int(mt.group(1)) if mt else -1


def _field(i, x):
  """A freshly built (never interned, never shared) string for field i."""
  if x is None:
    return None
  if x == 99:
    return ''.join([])            # the empty string: falsy but not None
  return ''.join([PREFIX[i], str(x)])


def _fresh_source(src):
  return _S['V'].Source(*[_field(i, x) for i, x in enumerate(src)])


def _unfield(x):
  if x is None:
    return None
  if x == '':
    return 99
  mt = re.search(r'(\d+)$', str(x))
  return int(mt.group(1)) if mt else -7


def _src_ids(s):
  return [_unfield(s.method), _unfield(s.service), _unfield(s.endpoint), _unfield(s.client_id)]


def _num(v):
  return isinstance(v, (int, float)) and not isinstance(v, bool)


def _cell_obs(v):
  V = _S['V']
  if isinstance(v, V._SampleSet):
    return {'res': list(v.data), 'i': v.i, 'last': v.last_update}
  if _num(v):
    return {'num': v}
  return {'other': repr(v)[:60]}


def _dump():
  V = _S['V']
  out = []
  for name, srcs in list(V.VarzReceiver.VARZ_DATA.items()):
    out.append([_mid(name), [[_src_ids(s), _cell_obs(c)] for s, c in list(srcs.items())]])
  return out


SELECTORS = {
    0: None,
    1: lambda s: (s.service,),
    2: lambda s: s.to_tuple(),
    3: lambda s: (),
    4: lambda s: (s.method, s.endpoint),
}


def _total_obs(t):
  V = _S['V']
  if _num(t):
    return {'num': t}
  if isinstance(t, list) and t and all(_num(x) for x in t):
    return {'pcts': list(t)}
  if isinstance(t, list) and all(isinstance(x, V._SampleSet) for x in t):
    return {'work': len(t)}
  return {'other': repr(t)[:60]}


def _aggregate(sel, sched=None):
  V = _S['V']
  raw = _dump()
  now = _S['clk'].now
  during = []
  _NoGevent.batches = [list(b) for b in (sched or [])]
  _NoGevent.runner = lambda op: during.append(_do_update(op, {}))
  try:
    agg = V.VarzAggregator.Aggregate(V.VarzReceiver.VARZ_DATA, V.VarzReceiver.VARZ_METRICS, SELECTORS[sel])
  except Exception as e:          # the code's own failure modes (TypeError ...) are observations
    return {'exc': type(e).__name__, 'raw': raw, 'now': now, 'during': during}
  finally:
    _NoGevent.batches = []
  out = []
  for name, per in agg.items():
    out.append([_mid(name), [[[_unfield(x) for x in key], _total_obs(a.total), a.count] for key, a in per.items()]])
  return {'agg': out, 'raw': raw, 'now': now, 'during': during}


def _series_len(m_name):
  d = _S['V'].VarzReceiver.VARZ_DATA
  if m_name in d:                   # never index the defaultdict: that would create the series
    return len(d[m_name])
  return 0


def _reset(cap, types, pcts=None):
  V = _S['V']
  R = V.VarzReceiver
  R.VARZ_PERCENTILES = list(_S['pcts0']) if pcts is None else list(pcts)
  R.VARZ_DATA.clear()
  R.VARZ_METRICS.clear()
  for m, ty in types:
    if ty is not None:
      R.RegisterMetric(_mname(m), ty)
  R._MAX_PERCENTILE_SIZE = cap
  _S['clk'].now = 0
  _S['rnd'].next = None
  _S['rnd'].used = 0


def _restore():
  R = _S['V'].VarzReceiver
  R.VARZ_DATA.clear()
  R.VARZ_METRICS.clear()
  R.VARZ_METRICS.update(_S['metrics0'])
  R._MAX_PERCENTILE_SIZE = 1000
  R.VARZ_PERCENTILES = list(_S['pcts0'])


def _do_tail_op(op):
  if op[0] == 'D':
    return {'dump': _dump()}
  if op[0] == 'A':
    return _aggregate(op[1], op[2] if len(op) > 2 else None)
  raise ValueError(op)


def _bound_object(objects, ty, m, src, slot):
  """A long-lived metric object bound to a (fresh) Source equal to src; one per (type, metric, tuple, slot).
  Even slots are attributes of a Varz object (a VarzBase subclass instance), odd slots come from ForSource."""
  V = _S['V']
  key = (ty, m, tuple(src), slot)
  if key not in objects:
    cls = _S['classes'][ty]
    if slot % 2 == 0:
      attr = 'm%d' % m
      varz_cls = type(V.VarzBase)('C18Varz', (V.VarzBase,), {'_VARZ_BASE_NAME': 'c18', '_VARZ': {attr: cls}})
      objects[key] = getattr(varz_cls(_fresh_source(src)), attr)
    else:
      objects[key] = cls(_mname(m), None).ForSource(_fresh_source(src))
  return objects[key]


INVALID = {0: None, 1: ('method0', 'service0', None, None), 2: 'service0'}
KIND_CLASS = {'inc': 4, 'set': 1, 'sample': 5}


def _do_update(op, objects):
  """One receiver / VarzMetric call (ops 'L', 'C', 'I'); returns its step observation."""
  V = _S['V']
  R = V.VarzReceiver
  rnd = _S['rnd']
  if op[0] == 'I':
    _tag, kind, m, what, via = op
    name = _mname(m)
    bad = INVALID[what]
    try:
      if via:
        _S['classes'][KIND_CLASS[kind]](name, None)(bad, 1)
      elif kind == 'inc':
        R.IncrementVarz(bad, name, 1)
      elif kind == 'set':
        R.SetVarz(bad, name, 1)
      else:
        R.RecordPercentileSample(bad, name, 1.0)
      o = 'ok'
    except Exception as e:
      o = type(e).__name__
    return {'o': o, 'n': _series_len(name) if name in R.VARZ_DATA else -1, 'rnd': 0}
  if op[0] == 'L':
    _tag, kind, m, src, v, j = op[:6]
    reuse = op[6] if len(op) > 6 else None
    name = _mname(m)
    if reuse is None:
      s = _fresh_source(src)
    else:                       # the very same Source object again (also across metrics)
      s = objects.setdefault(('src', tuple(src), reuse), _fresh_source(src))
    rnd.next = j
    used0 = rnd.used
    try:
      if kind == 'inc':
        if v is None:
          R.IncrementVarz(s, name)
        else:
          R.IncrementVarz(s, name, v)
      elif kind == 'set':
        R.SetVarz(s, name, v)
      else:
        R.RecordPercentileSample(s, name, v)
      o = 'ok'
    except Exception as e:
      o = type(e).__name__
  else:
    _tag, ty, m, src, v, j, bound = op
    name = _mname(m)
    s = _fresh_source(src)
    rnd.next = j
    used0 = rnd.used
    metric = _S['classes'][ty](name, None)
    try:
      if bound:
        b = metric.ForSource(s) if int(bound) == 1 else _bound_object(objects, ty, m, src, int(bound))
        if v is None:
          b()
        else:
          b(v)
      else:
        if v is None:
          metric(s)
        else:
          metric(s, v)
      o = 'ok'
    except Exception as e:
      o = type(e).__name__
  return {'o': o, 'n': _series_len(name), 'rnd': rnd.used - used0}


def _run_ops(case):
  R = _S['V'].VarzReceiver
  obs = []
  objects = {}
  for op in case['ops']:
    if op[0] == 'K':
      _S['clk'].now = op[1]
      obs.append({'o': 'ok', 'n': 0, 'rnd': False})
    elif op[0] in ('D', 'A'):
      obs.append(_do_tail_op(op))
    elif op[0] == 'P':
      R.VARZ_DATA.pop(_mname(op[1]), None)
      obs.append({'o': 'ok', 'n': 0, 'rnd': 0})
    else:
      obs.append(_do_update(op, objects))
  return obs


def _e2e_call(entry):
  """(method, reply, timeout, opts) of a call entry; None for the control entries ['close'] / ['open', mode]."""
  if entry[0] in ('close', 'open'):
    return None
  opts = entry[3] if len(entry) > 3 and entry[3] else {}
  return entry[0], entry[1], (entry[2] if len(entry) > 2 else None), opts


def _reply_outcome(kind):
  kind = int(kind)
  return 0 if kind == 0 else (2 if kind == 4 else 1)


def _run_e2e(case):
  D = _S['D']
  gevent = _S['gevent']
  ftime = _S['ftime']
  rnd = _S['rnd']
  AR = _S['AsyncResult']
  R = _S['V'].VarzReceiver
  R.VARZ_DATA.clear()
  R.VARZ_METRICS.clear()
  R.VARZ_METRICS.update(_S['metrics0'])
  R._MAX_PERCENTILE_SIZE = case['cap']
  _S['clk'].now = 0
  ftime.t = 1024.0
  MRM = _S['MethodReturnMessage']
  EP = _S['MessageProperties'].Endpoint
  from scales.message import TimeoutError as ScalesTimeout
  ops = case['ops']
  events, used, lat_obs, issued_at, issued, results, ars = [], {}, {}, {}, [], {}, {}
  chained = set()            # calls made from inside the completion callback of the call before them
  for i_ in range(1, len(ops)):
    c_, p_ = _e2e_call(ops[i_]), _e2e_call(ops[i_ - 1])
    if c_ is not None and c_[3].get('chain') and p_ is not None and p_[1] is not None:
      chained.add(i_)

  class EndpointObj(object):
    def __init__(self, s):
      self.s = s

    def __str__(self):
      return ''.join(['', self.s])

  class StubSink(_S['ClientMessageSink']):
    def __init__(self):
      super(StubSink, self).__init__()
      self.next_sink = None
      self.gens = []              # one entry per Open(): {'ar': AsyncResult, 'waiting': [call indices], 'fail': bool}

    def new_gen(self, fail=False):
      self.gens.append({'ar': AR(), 'waiting': [], 'fail': fail})
      return self.gens[-1]

    def Open(self):
      return self.gens[-1]['ar']

    def Close(self):
      pass

    def AsyncProcessRequest(self, sink_stack, msg, stream, headers):
      idx = msg.args[0]
      reply = _e2e_call(ops[idx])[1]
      if reply is None:
        return
      ep, as_obj, lat, kind, j = reply
      if ep is not None:
        e = _field(2, ep)
        msg.properties[EP] = EndpointObj(e) if as_obj else e
      ftime.t += lat
      lat_obs[idx] = ftime.t - issued_at[idx]
      rnd.next = j
      u0 = rnd.used
      events.append(['r', idx])
      kind = int(kind)
      if kind == 0:
        m = MRM(return_value=7)
      elif kind == 1:
        m = MRM(error=ValueError('stub failure'))
      elif kind == 2:
        m = MRM(error=ScalesTimeout())
      elif kind == 3:
        m = MRM(error=gevent.Timeout(1))          # a BaseException subclass as the error
      else:
        m = object()                               # not a MethodReturnMessage
      sink_stack.AsyncProcessResponseMessage(m)
      used[idx] = rnd.used - u0

    def AsyncProcessResponse(self, sink_stack, context, stream, msg):
      raise NotImplementedError()

  def settle():
    # run the hub until nothing happens any more: no greenlet or callback of an earlier step may still be queued when
    # the next step starts (the order in which the deferred dispatches are logged below relies on it)
    quiet = 0
    for _ in range(400):
      n = (len(events), len(ars), len(results), len(used))
      gevent.sleep(0)
      if (len(events), len(ars), len(results), len(used)) == n:
        quiet += 1
        if quiet >= 6:
          break
      else:
        quiet = 0

  def complete(gen):
    # both deferred paths (ContinueWith and on_open) are rawlinks of the Open() result: once the hub is idle they run, in
    # the order the calls were issued, before any of the request greenlets they spawn - also when Open() failed
    if gen['ar'].ready():
      return
    settle()
    events.extend(['d', i] for i in gen['waiting'])
    del gen['waiting'][:]
    if gen['fail']:
      gen['ar'].set_exception(IOError('open failed'))
    else:
      gen['ar'].set()
    settle()

  services = [case['service']] + ([case['service2']] if case.get('service2') is not None else [])
  sinks, disps = [], []
  for sv in services:
    sink = StubSink()
    sink.new_gen(fail=bool(case.get('open_fail')) and not sinks)
    sinks.append(sink)

    class Provider(object):
      def CreateSink(self, properties, _sink=sink):
        return _sink
    d = D.MessageDispatcher(object, Provider(), case.get('default_timeout', 10), {_S['SinkProperties'].Label: _field(1, sv)})
    d.Open()
    disps.append(d)
  open_after = case.get('open_after')
  if open_after is None:
    complete(sinks[0].gens[-1])
  for sk in sinks[1:]:
    complete(sk.gens[-1])

  def issue(idx):
    method, reply, timeout, opts = _e2e_call(ops[idx])
    di = opts.get('d', 0) if opts.get('d', 0) < len(disps) else 0
    gen = sinks[di].gens[-1]
    if disps[di]._open_ar is None:
      will_run = False                     # closed: DispatchMethodCall must refuse
    else:
      will_run = True
      issued_at[idx] = ftime.t
      if gen['ar'].ready():
        events.append(['d', idx])
      else:
        gen['waiting'].append(idx)
    try:
      if timeout is None:
        ar = disps[di].DispatchMethodCall(_field(0, method), (idx,), {})
      else:
        ar = disps[di].DispatchMethodCall(_field(0, method), (idx,), {}, timeout=timeout)
    except Exception as e:
      results[idx] = 'raised:' + type(e).__name__
      if will_run:
        if events and events[-1] == ['d', idx]:
          events.pop()
        elif idx in gen['waiting']:
          gen['waiting'].remove(idx)
      return
    if not will_run:
      results[idx] = 'accepted-while-closed'
    issued.append(idx)
    ars[idx] = ar
    if idx + 1 in chained:
      # re-entrancy: the next call is made from inside this call's completion callback
      ar.rawlink(lambda _ar, _n=idx + 1: issue(_n))

  n_calls = 0
  for idx, entry in enumerate(ops):
    if entry[0] == 'close':
      disps[0].Close()
      continue
    if entry[0] == 'open':
      mode = entry[1] if len(entry) > 1 else 'now'
      gen = sinks[0].new_gen(fail=(mode == 'fail'))
      disps[0].Open()
      if mode != 'later':
        complete(gen)
      continue
    if open_after is not None and n_calls == open_after:
      complete(sinks[0].gens[0])
    n_calls += 1
    if idx in chained:
      continue
    issue(idx)
    settle()
  for sk in sinks:
    for gen in sk.gens:
      complete(gen)
  settle()
  out_results = []
  for idx, entry in enumerate(ops):
    c = _e2e_call(entry)
    if c is None:
      out_results.append('control')
    elif idx in results:
      out_results.append(results[idx])
    elif idx not in ars:
      out_results.append('never-issued')
    elif c[1] is None:
      out_results.append('pending' if not ars[idx].ready() else 'done?')
    elif not ars[idx].ready():
      out_results.append('not-ready')
    elif ars[idx].successful():
      out_results.append('ok')
    else:
      out_results.append(type(ars[idx].exception).__name__)
  tail = [_do_tail_op(op) for op in case['tail']]
  types = sorted([mid, R.VARZ_METRICS.get(name)] for name, mid in E2E_METRICS.items())
  n = len(ops)
  return {'results': out_results, 'issued': sorted(issued), 'used': [used.get(i, 0) for i in range(n)],
          'lat': [lat_obs.get(i) for i in range(n)], 'events': events, 'tail': tail, 'types': types}


def run_impl(case):
  setup()
  k = case['kind']
  V = _S['V']
  try:
    if k == 'run':
      _reset(case['cap'], case['types'], case.get('pcts'))
      return {'steps': _run_ops(case), 'pcts': list(V.VarzReceiver.VARZ_PERCENTILES)}
    if k == 'e2e':
      o = _run_e2e(case)
      o['pcts'] = list(V.VarzReceiver.VARZ_PERCENTILES)
      return o
    if k == 'pct':
      out = []
      for p in case['ps']:
        try:
          out.append(V.VarzAggregator.CalculatePercentile(list(case['values']), p))
        except IndexError:
          out.append(None)
      return {'out': out}
    if k == 'down':
      return {'out': list(V.VarzAggregator._Downsample(list(case['lst']), case['target']))}
    if k == 'target':
      n, count = case['n'], case['count']
      # the expression of Aggregate (varz.py:327-328) on a real _SampleSet of n samples, observed through _Downsample
      seen = {}
      orig = V.VarzAggregator._Downsample

      def spy(lst, target_size):
        seen.setdefault('t', []).append(target_size)
        return orig(lst, target_size)
      V.VarzAggregator._Downsample = staticmethod(spy)
      try:
        data = {'m': {}}
        for i in range(count):
          data['m'][V.Source(service='s', endpoint=''.join(['e', str(i)]))] = V._SampleSet(max(n, 1), [float(x) for x in range(n)])
        try:
          V.VarzAggregator.Aggregate(data, {'m': V.VarzType.AverageTimer})
        except (IndexError, TypeError, ZeroDivisionError, AttributeError):
          pass                      # only the size passed to _Downsample is observed here
      finally:
        V.VarzAggregator._Downsample = staticmethod(orig)
      ts = set(seen.get('t', []))
      return {'target': ts.pop() if len(ts) == 1 else None}
  finally:
    _restore()
  raise ValueError(k)


# ---------------------------------------------------------------------------------------------
# monitor: the property statement, computed independently
# ---------------------------------------------------------------------------------------------
TOL = 1e-9


def _key_of(sel, t):
  t = tuple(t)
  if sel == 0:
    return (t[1], t[3])
  if sel == 1:
    return (t[1],)
  if sel == 2:
    return t
  if sel == 3:
    return ()
  return (t[0], t[2])


def _approx(a, b, scale):
  return abs(a - b) <= TOL * max(abs(scale), 1e-300) or a == b


class _Ref(object):
  """Reference bookkeeping of one history: per metric, per field tuple."""

  def __init__(self, types, cap=1000):
    self.cap = cap
    self.types = dict((m, ty) for m, ty in types)
    self.kinds = {}          # m -> set of update kinds used
    self.cells = {}          # m -> {tuple: {'sum': Fraction, 'last': value, 'samples': [..]}}
    self.failed = set()      # metrics on which an update raised
    self.now = 0

  def clean(self, m):
    ks = self.kinds.get(m, set())
    if len(ks) > 1 or m in self.failed:
      return False
    ty = self.types.get(m)
    if ty is not None and ks and list(ks)[0] != kind_of_type(ty):
      return False
    return True

  def kind(self, m):
    ks = self.kinds.get(m, set())
    return list(ks)[0] if len(ks) == 1 else None

  def update(self, m, kind, src, v):
    self.kinds.setdefault(m, set()).add(kind)
    c = self.cells.setdefault(m, {}).setdefault(tuple(src), {'sum': Fraction(0), 'last': None, 'samples': [], 't': None})
    if kind == 'inc':
      c['sum'] += Fraction(1 if v is None else v)
    elif kind == 'set':
      c['last'] = v
    else:
      c['samples'].append(v)
      c['t'] = self.now


def _check_dump(ref, dump, v, where):
  for m, srcs in dump:
    tuples = [tuple(s) for s, _c in srcs]
    if len(set(tuples)) != len(tuples):
      dup = [t for t in set(tuples) if tuples.count(t) > 1][0]
      v.append(('series-split', '%s: metric %s has %d series for the equal source %r' % (where, m, tuples.count(dup), dup)))
    if m not in ref.cells and m >= 0 and m < 100:
      if srcs:                      # (a metric without series exists after a rejected update with a non-Source)
        v.append(('series-foreign', '%s: metric %s was never updated but has series' % (where, m)))
      continue
    if m >= 100 or not ref.clean(m):
      continue
    want = ref.cells[m]
    if set(tuples) - set(want):
      v.append(('series-foreign', '%s: metric %s has a series for a source never used: %r' % (where, m, sorted(set(tuples) - set(want), key=repr)[:2])))
    if set(want) - set(tuples):
      v.append(('series-lost', '%s: metric %s lost the series of %r' % (where, m, sorted(set(want) - set(tuples), key=repr)[:2])))
    kind = ref.kind(m)
    for s, c in srcs:
      w = want.get(tuple(s))
      if w is None:
        continue
      if kind == 'inc':
        if 'num' not in c or Fraction(c['num']) != w['sum']:
          v.append(('counter-raw', '%s: metric %s source %r holds %r, increments sum to %s' % (where, m, s, c, w['sum'])))
      elif kind == 'set':
        if 'num' not in c or c['num'] != w['last']:
          v.append(('gauge-last', '%s: metric %s source %r holds %r, last value set was %r' % (where, m, s, c, w['last'])))
      elif kind == 'sample':
        if ref.cap <= 0:
          pass
        elif 'res' not in c or not c['res']:
          v.append(('reservoir-empty', '%s: metric %s source %r holds %r after %d samples' % (where, m, s, c, len(w['samples']))))
        else:
          pool = list(w['samples'])
          for x in c['res']:
            if x in pool:
              pool.remove(x)
            else:
              v.append(('reservoir-foreign-sample', '%s: metric %s source %r retains %r which was not recorded (that often)' % (where, m, s, x)))
              break
  seen = set(m for m, _ in dump)
  for m in ref.cells:
    if m < 100 and ref.clean(m) and ref.cells[m] and m not in seen:
      v.append(('series-lost', '%s: metric %s has updates but no data' % (where, m)))


def _check_pcts_single(total, data, v, where, pcts=None):
  lo, hi = min(data), max(data)
  scale = max(abs(lo), abs(hi))
  if 'pcts' not in total or len(total['pcts']) < 1:
    v.append(('pct-shape', '%s: total %r' % (where, total)))
    return
  ps = total['pcts']
  if pcts is not None and not all(0.0 <= p <= 1.0 for p in pcts):
    return
  for x in ps:
    if x < lo - TOL * scale or x > hi + TOL * scale:
      v.append(('pct-bounds', '%s: reported %r outside retained samples [%r, %r]' % (where, x, lo, hi)))
      break
  if pcts is not None and any(a > b for a, b in zip(pcts, pcts[1:])):
    return
  for a, b in zip(ps[1:], ps[2:]):
    if b < a - TOL * scale:
      v.append(('pct-mono', '%s: percentiles decrease: %r' % (where, ps[1:])))
      break


def _ref_apply(ref, u, du, v, where):
  """Applies one update op (form 'L' or 'C') with step observation du to the reference."""
  if u[0] == 'L':
    kind, m, src, val = u[1], u[2], u[3], u[4]
  else:
    kind, m, src, val = kind_of_type(u[1]), u[2], u[3], u[4]
  was_clean = ref.clean(m)
  ref.update(m, kind, src, val)
  if du['o'] != 'ok':
    if was_clean and ref.clean(m):
      v.append(('unexpected-exception', '%s: %s on a consistently used metric raised %s' % (where, kind, du['o'])))
    ref.failed.add(m)
    return None
  return m


def _check_agg(ref, sel, o, v, where, pcts=None, sched=None):
  """Aggregate is not atomic: it yields once per registered metric of the snapshot of metric names taken at its start
  and reads that metric's sources after the yield; sched[i] are the updates other greenlets made inside the i-th yield."""
  during = list(o.get('during', []))
  flat = [u for b in (sched or []) for u in b]
  if 'exc' in o:
    ok = all(ref.clean(m) for m in ref.cells if ref.types.get(m) is not None) and (pcts is None or all(0.0 <= p <= 1.0 for p in pcts))
    for u, du in zip(flat, during):
      _ref_apply(ref, u, du, v, where)
    if ok and all(ref.clean(m) for m in ref.cells if ref.types.get(m) is not None):
      if o['exc'] == 'RuntimeError':
        v.append(('aggregate-raises-on-concurrent-first-update',
                  '%s: Aggregate raised RuntimeError because another greenlet recorded a first value while it was yielding' % where))
      else:
        v.append(('unexpected-exception', '%s: Aggregate raised %s on a well-typed history' % (where, o['exc'])))
    return
  raw = dict((m, dict((tuple(s), c) for s, c in srcs)) for m, srcs in o['raw'])
  got = dict((m, per) for m, per in o['agg'])
  batches = [list(b) for b in (sched or [])]
  touched = set(u[2] for u in flat)
  k = 0
  for m, _srcs in o['raw']:
    ty = ref.types.get(m)
    if ty is None:
      continue                          # not in metrics: no yield, not reported
    if batches:
      for u in batches.pop(0):
        if k < len(during):
          _ref_apply(ref, u, during[k], v, where)
        k += 1
    if k > len(during):
      v.append(('aggregate-yield-missing', '%s: fewer yields than registered metrics' % where))
      return
    cells = ref.cells.get(m)
    if not cells or not ref.clean(m):
      continue
    if m not in got:
      v.append(('agg-metric-lost', '%s: registered metric %s missing from Aggregate' % (where, m)))
      continue
    _check_agg_metric(ref, sel, m, ty, cells, got, raw, o, v, where, pcts, m in touched)


def _check_agg_metric(ref, sel, m, ty, cells, got, raw, o, v, where, pcts, skip_pct):
  if True:
    per = got[m]
    keys = [tuple(k) for k, _t, _c in per]
    if len(set(keys)) != len(keys):
      v.append(('agg-key-split', '%s: metric %s reports a key twice: %r' % (where, m, keys)))
    kind = ref.kind(m)
    groups = {}
    for t in cells:
      groups.setdefault(_key_of(sel, t), []).append(t)
    if ty in (1, 2, 3, 4):
      want = {}
      for k, ts in groups.items():
        want[k] = sum((cells[t]['sum'] if kind == 'inc' else Fraction(cells[t]['last'])) for t in ts)
      gotk = dict((tuple(k), t) for k, t, _c in per)
      if set(gotk) != set(want):
        v.append(('agg-keys', '%s: metric %s keys %r, expected %r' % (where, m, sorted(gotk, key=repr), sorted(want, key=repr))))
      for k, w in want.items():
        t = gotk.get(k)
        if t is None:
          continue
        if 'num' not in t or Fraction(t['num']) != w:
          sig = 'counter-sum' if kind == 'inc' else 'gauge-sum'
          v.append((sig, '%s: metric %s key %r aggregated to %r, recorded updates give %s' % (where, m, k, t, w)))
      if kind == 'inc':
        tot = sum((Fraction(t['num']) for t in gotk.values() if 'num' in t), Fraction(0))
        allsum = sum((c['sum'] for c in cells.values()), Fraction(0))
        if tot != allsum:
          v.append(('counter-sum', '%s: metric %s aggregates add up to %s, all increments to %s' % (where, m, tot, allsum)))
    elif ty in (5, 6) and not skip_pct:
      gotk = dict((tuple(k), (t, c)) for k, t, c in per)
      for k, ts in groups.items():
        if k not in gotk:
          v.append(('agg-keys', '%s: metric %s key %r missing' % (where, m, k)))
          continue
        if len(ts) != 1:
          continue
        c = raw.get(m, {}).get(ts[0])
        if not c or 'res' not in c or not c['res']:
          continue
        w = cells[ts[0]]
        surely_fresh = len(w['samples']) <= ref.cap and w['t'] is not None and ref.now - w['t'] < 300
        if o['now'] - c['last'] >= 300 and not surely_fresh:
          continue                      # a series without a retained sample for MAX_AGG_AGE is reported as empty (count 0)
        _check_pcts_single(gotk[k][0], c['res'], v, '%s metric %s key %r' % (where, m, k), pcts)


def _monitor_run(case, obs):
  v = []
  ref = _Ref(case['types'], case['cap'])
  for i, (op, o) in enumerate(zip(case['ops'], obs['steps'])):
    where = 'op %d' % i
    if op[0] == 'K':
      ref.now = op[1]
      continue
    if op[0] == 'D':
      _check_dump(ref, o['dump'], v, where)
      continue
    if op[0] == 'A':
      _check_dump(ref, o['raw'], v, where)
      _check_agg(ref, op[1], o, v, where, obs.get('pcts'), op[2] if len(op) > 2 else None)
      continue
    if op[0] == 'I':
      if o['o'] != 'ValueError':
        v.append(('invalid-source-accepted', '%s: an update with a non-Source was not rejected with ValueError: %s' % (where, o['o'])))
      continue
    if op[0] == 'P':
      ref.cells.pop(op[1], None)
      ref.kinds.pop(op[1], None)
      ref.failed.discard(op[1])
      continue
    m = _ref_apply(ref, op, o, v, where)
    if m is None:
      continue
    distinct = len(ref.cells[m])
    if o['n'] > distinct:
      v.append(('series-split', '%s: metric %s has %d series after updates from %d distinct sources' % (where, m, o['n'], distinct)))
    elif o['n'] < distinct and ref.clean(m):
      v.append(('series-lost', '%s: metric %s has %d series after updates from %d distinct sources' % (where, m, o['n'], distinct)))
  return v


def _monitor_e2e(case, obs):
  v = []
  services = [case['service']] + ([case['service2']] if case.get('service2') is not None else [])
  want_disp, want_host = {}, {}
  n_ok = n_err = 0
  issued = set(obs['issued'])
  closed = False
  for idx, (entry, res) in enumerate(zip(case['ops'], obs['results'])):
    c = _e2e_call(entry)
    if c is None:
      closed = entry[0] == 'close'
      continue
    method, reply, _timeout, opts = c
    di = opts.get('d', 0) if opts.get('d', 0) < len(services) else 0
    if res == 'accepted-while-closed':
      v.append(('e2e-call-while-closed', 'call %d was accepted by a closed dispatcher' % idx))
    if idx not in issued:
      continue
    svc = services[di]
    want_disp[(method, svc, None, None)] = want_disp.get((method, svc, None, None), 0) + 1
    if reply is None:
      continue
    ep, _as_obj, lat, kind, _j = reply
    oc = _reply_outcome(kind)
    h = want_host.setdefault((method, svc, ep, None), {'ok': 0, 'err': 0, 'lat': []})
    if oc == 0:
      h['ok'] += 1
      n_ok += 1
    elif oc == 1:
      h['err'] += 1
      n_err += 1
    h['lat'].append(lat)
    if res == 'not-ready':
      v.append(('e2e-no-result', 'a replied call did not complete'))
  for top, o in zip(case['tail'], obs['tail']):
    dump = o['dump'] if 'dump' in o else o['raw']
    d = dict((m, srcs) for m, srcs in dump)
    for m, srcs in dump:
      tuples = [tuple(s) for s, _c in srcs]
      want = want_disp if m == 100 else dict((t, h) for t, h in want_host.items()
                                             if m == 103 or (m == 101 and h['ok']) or (m == 102 and h['err']))
      if len(tuples) > len(want) or len(set(tuples)) != len(tuples):
        v.append(('series-split', 'metric %s has %d series after %d calls from %d distinct sources' %
                  (m, len(tuples), len(case['ops']), len(want))))
      elif set(tuples) != set(want):
        v.append(('e2e-series', 'metric %s has series %r, calls used %r' % (m, sorted(tuples, key=repr), sorted(want, key=repr))))
    tot = dict((m, sum(c.get('num', 0) for _s, c in d.get(m, []))) for m in (100, 101, 102))
    if tot[100] != len(issued):
      v.append(('e2e-counts', 'dispatch_messages adds up to %r after %d calls were issued' % (tot[100], len(issued))))
    if tot[101] != n_ok or tot[102] != n_err:
      v.append(('e2e-counts', 'success/exception_messages add up to %r/%r after %d/%d such replies' % (tot[101], tot[102], n_ok, n_err)))
    for t, n in want_disp.items():
      c = dict((tuple(s), c) for s, c in d.get(100, [])).get(t)
      if c is not None and c.get('num') != n and len(d.get(100, [])) == len(want_disp):
        v.append(('counter-raw', 'dispatch_messages of %r is %r after %d calls' % (t, c, n)))
    if 'agg' in o and o.get('agg') is not None:
      sel = top[1]
      got = dict((m, dict((tuple(k), (t, c)) for k, t, c in per)) for m, per in o['agg'])
      for m, src_want in ((100, dict((t, n) for t, n in want_disp.items())),
                          (101, dict((t, h['ok']) for t, h in want_host.items() if h['ok'])),
                          (102, dict((t, h['err']) for t, h in want_host.items() if h['err']))):
        exp = {}
        for t, n in src_want.items():
          exp[_key_of(sel, t)] = exp.get(_key_of(sel, t), 0) + n
        g = dict((k, t.get('num')) for k, (t, _c) in got.get(m, {}).items())
        if g != exp:
          v.append(('counter-sum', 'metric %s aggregated (selector %d) to %r, calls give %r' % (m, sel, g, exp)))
      groups = {}
      for t in want_host:
        groups.setdefault(_key_of(sel, t), []).append(t)
      rawlat = dict((tuple(s), c) for s, c in d.get(103, []))
      for k, ts in groups.items():
        if len(ts) == 1 and ts[0] in rawlat and rawlat[ts[0]].get('res') and k in got.get(103, {}):
          _check_pcts_single(got[103][k][0], rawlat[ts[0]]['res'], v, 'request_latency key %r' % (k,))
    elif 'exc' in o:
      v.append(('unexpected-exception', 'Aggregate raised %s after dispatcher calls' % o['exc']))
  return v


def _monitor_pct(case, obs):
  v = []
  vals = case['values']
  if not vals:
    return v
  if any(a > b for a, b in zip(vals, vals[1:])):
    return v
  lo, hi = vals[0], vals[-1]
  scale = max(abs(lo), abs(hi))
  prev = None
  for p, x in sorted(zip(case['ps'], obs['out'])):
    if not 0.0 <= p <= 1.0:
      continue
    if x is None:
      v.append(('pct-index-error', 'CalculatePercentile raised IndexError for p=%r on %d values' % (p, len(vals))))
      continue
    if x < lo - TOL * scale or x > hi + TOL * scale:
      v.append(('pct-bounds', 'percentile %r = %r outside [%r, %r]' % (p, x, lo, hi)))
    if prev is not None and x < prev[1] - TOL * scale:
      v.append(('pct-mono', 'percentile %r = %r but percentile %r = %r' % (prev[0], prev[1], p, x)))
    prev = (p, x)
  return v


def monitor(case, obs):
  k = case['kind']
  if k == 'run':
    return _monitor_run(case, obs)
  if k == 'e2e':
    return _monitor_e2e(case, obs)
  if k == 'pct':
    return _monitor_pct(case, obs)
  return []


# ---------------------------------------------------------------------------------------------
# translation to Coq terms
# ---------------------------------------------------------------------------------------------
def z(n):
  n = int(n)
  return '(%d)' % n if n < 0 else '%d' % n


def q(x):
  f = Fraction(x)
  if f.denominator == 1:
    return '(qi %s)' % z(f.numerator)
  return '(qz %s %d)' % (z(f.numerator), f.denominator)


def qlist(xs):
  return C.lst([q(x) for x in xs])


def oz(x):
  return '(-1)' if x is None else '%d' % x


def src_lit(s):
  return '(src %s %s %s %s)' % tuple(oz(x) for x in s)


def key_lit(k):
  return '(kz %s)' % C.lst([oz(x) for x in k])


def cfg_lit(cap, types, pcts):
  return '(Build_config %s %s %s)' % (z(cap), C.lst(['(%s, %s)' % (z(m), z(ty)) for m, ty in types if ty is not None]),
                                      qlist(pcts))


def _cell_lit(c):
  if 'num' in c:
    return '(Num %s)' % q(c['num'])
  if 'res' in c:
    return '(Res (Build_reservoir %s %s %s))' % (qlist(c['res']), z(c['i']), z(c['last']))
  raise ValueError('cell outside the model: %r' % (c,))


def _dump_lit(d):
  return C.lst(['(%s, %s)' % (z(m), C.lst(['(%s, %s)' % (src_lit(s), _cell_lit(c)) for s, c in srcs])) for m, srcs in d])


def _total_lit(t):
  if 'num' in t:
    return '(ONum %s)' % q(t['num'])
  if 'pcts' in t:
    return '(OPcts %s)' % qlist(t['pcts'])
  if 'work' in t:
    return '(OWork %s)' % z(t['work'])
  raise ValueError('total outside the model: %r' % (t,))


def _tail_obs_lit(o):
  if 'dump' in o:
    return '(ObDump %s)' % _dump_lit(o['dump'])
  if 'exc' in o:
    return '(ObAggErr %s)' % z(EXC_CODE.get(o['exc'], 99))
  return '(ObAgg %s)' % C.lst(['(%s, %s)' % (z(m), C.lst(['(%s, (%s, %s))' % (key_lit(k), _total_lit(t), z(c))
                                                                 for k, t, c in per])) for m, per in o['agg']])


def _tail_op_lit(op):
  return 'OpDump' if op[0] == 'D' else '(OpAgg %s)' % z(op[1])


def _rnd_lit(j, used):
  if used == 0:
    return 'None'
  if used == 1:
    return '(Some %s)' % q(j)
  raise ValueError('random consulted %d times in one update' % used)


def _label_lit(op, used):
  _t, kind, m, src, v, j = op[:6]
  if kind == 'inc':
    return '(Inc %s %s %s)' % (z(m), src_lit(src), q(1 if v is None else v))
  if kind == 'set':
    return '(SetV %s %s %s)' % (z(m), src_lit(src), q(v))
  return '(Sample %s %s %s %s)' % (z(m), src_lit(src), q(v), _rnd_lit(j, used))


KIND_CODE = {'inc': 0, 'set': 1, 'sample': 2}


def to_coq(case, obs):
  k = case['kind']
  if k == 'run':
    ops, exp = [], []
    for op, o in zip(case['ops'], obs['steps']):
      if op[0] == 'K':
        ops.append('(OpL (Clock %s))' % z(op[1]))
        exp.append('(ObStep 0 0)')
      elif op[0] == 'A' and len(op) > 2 and op[2]:
        during = list(o.get('during', []))
        n = 0
        batches = []
        for b in op[2]:
          labs = []
          for u in b:
            labs.append(_label_lit(u, during[n]['rnd'] if n < len(during) else 0))
            n += 1
          batches.append(C.lst(labs))
        ops.append('(OpAggIL %s %s)' % (z(op[1]), C.lst(batches)))
        exp.append(_tail_obs_lit(o))
      elif op[0] in ('D', 'A'):
        ops.append(_tail_op_lit(op))
        exp.append(_tail_obs_lit(o))
      elif op[0] == 'P':
        ops.append('(OpPop %s)' % z(op[1]))
        exp.append('(ObStep 0 0)')
      elif op[0] == 'I':
        ops.append('(OpInvalid %s %d)' % (z(op[2]), KIND_CODE[op[1]]))
        exp.append('(ObStep %s %s)' % (z(5 if o['o'] == 'ValueError' else (0 if o['o'] == 'ok' else EXC_CODE.get(o['o'], 99))), z(o['n'])))
      else:
        if op[0] == 'L':
          ops.append('(OpL %s)' % _label_lit(op, o['rnd']))
        else:
          _t, ty, m, src, v, j, _b = op
          ops.append('(OpCall %s %s %s %s %s)' % (z(ty), z(m), src_lit(src), q(1 if v is None else v),
                                                  _rnd_lit(j, o['rnd'])))
        exp.append('(ObStep %s %s)' % (z(0 if o['o'] == 'ok' else EXC_CODE.get(o['o'], 99)), z(o['n'])))
    return 'CRun %s %s %s' % (cfg_lit(case['cap'], case['types'], obs['pcts']), C.lst(ops), C.lst(exp))
  if k == 'e2e':
    evs = []
    services = [case['service']] + ([case['service2']] if case.get('service2') is not None else [])
    for what, idx in obs['events']:
      method, reply, _timeout, opts = _e2e_call(case['ops'][idx])
      sv = services[opts.get('d', 0) if opts.get('d', 0) < len(services) else 0]
      if what == 'd':
        evs.append('(EvDispatch %s %s)' % (z(sv), z(method)))
      else:
        ep, _as_obj, _lat, kind, j = reply
        evs.append('(EvReply %s %s (oz %s) %s %d %s)' % (z(sv), z(method), oz(ep), q(obs['lat'][idx]), _reply_outcome(kind),
                                                        _rnd_lit(j, obs['used'][idx])))
    return 'CE2E %s %s %s %s' % (cfg_lit(case['cap'], obs['types'], obs['pcts']), C.lst(evs),
                                C.lst([_tail_op_lit(op) for op in case['tail']]),
                                C.lst([_tail_obs_lit(o) for o in obs['tail']]))
  if k == 'pct':
    return 'CPct %s %s %s' % (qlist(case['values']), qlist(case['ps']),
                              C.lst(['None' if x is None else '(Some %s)' % q(x) for x in obs['out']]))
  if k == 'down':
    return 'CDown %s %s %s' % (qlist(case['lst']), z(case['target']), qlist(obs['out']))
  if k == 'target':
    if obs['target'] is None:
      return None
    return 'CTarget %s %s %s' % (z(case['n']), z(case['count']), z(obs['target']))
  raise ValueError(k)


def nontrivial(case, obs):
  k = case['kind']
  if k == 'run':
    seen = {}
    for op in case['ops']:
      if op[0] in ('L', 'C'):
        key = (op[2], tuple(op[3]))
        seen[key] = seen.get(key, 0) + 1
    return any(n >= 2 for n in seen.values())
  if k == 'e2e':
    return len(case['ops']) >= 2
  if k == 'pct':
    return len(case['values']) >= 1
  if k == 'down':
    return len(case['lst']) >= 3
  return True


def describe(case, obs):
  c = dict(case)
  if 'ops' in c and len(c['ops']) > 12:
    c['ops'] = c['ops'][:12] + ['...%d more' % (len(case['ops']) - 12)]
  o = dict(obs)
  if 'steps' in o and len(o['steps']) > 12:
    o['steps'] = o['steps'][:12] + ['...']
  s = C.canon(o)
  if len(s) > 3000:
    o = {'truncated': s[:3000]}
  return {'case': c, 'obs': o}


def stats(cases, obs):
  st = {'updates': 0, 'updates_ok': 0, 'err_TypeError': 0, 'err_AttributeError': 0, 'random_consulted': 0,
        'random_keep': 0, 'random_drop': 0, 'reservoir_evictions': 0, 'dumps': 0, 'aggregates_ok': 0, 'aggregate_errors': {},
        'agg_total_kinds': {'num': 0, 'pcts': 0, 'work': 0}, 'stale_reservoirs_at_aggregate': 0,
        'multi_source_percentile_keys': 0, 'via_varzmetric_object': 0, 'via_receiver': 0, 'max_equal_source_updates': 0,
        'aggregates_with_concurrent_batches': 0, 'concurrent_updates_run_inside_yields': 0,
        'concurrent_first_value_of_a_metric': 0, 'concurrent_first_value_of_a_source': 0, 'invalid_source_calls': 0,
        'metric_pops': 0, 'updates_reusing_the_same_source_object': 0, 'e2e_calls_chained_from_completion_callback': 0,
        'e2e_calls_on_second_dispatcher': 0, 'e2e_close_reopen': 0, 'e2e_calls_refused_while_closed': 0,
        'e2e_open_failed_cases': 0, 'e2e_reply_kinds': {},
        'e2e_calls': 0, 'e2e_calls_issued_before_open_completed': 0, 'updates_via_long_lived_objects': 0,
        'gauge_resets_of_an_earlier_value_after_a_change': 0, 'pct_index_errors': 0, 'pct_exact_index': 0, 'pct_interpolated': 0, 'downsample_branches':
        {'target0': 0, 'all': 0, 'skip': 0}, 'mixed_kind_histories': 0}
  for c, o in zip(cases, obs):
    if not isinstance(o, dict) or 'harness_exc' in o:
      continue
    k = c['kind']
    if k == 'run':
      per = {}
      kinds = {}
      lastobj, lastval = {}, {}
      for op, s in zip(c['ops'], o['steps']):
        if op[0] in ('L', 'C'):
          st['updates'] += 1
          st['via_varzmetric_object' if op[0] == 'C' else 'via_receiver'] += 1
          if op[0] == 'L' and len(op) > 6 and op[6] is not None:
            st['updates_reusing_the_same_source_object'] += 1
          if op[0] == 'C' and int(op[6]) >= 2:
            st['updates_via_long_lived_objects'] += 1
            if kind_of_type(op[1]) == 'set':
              ok_ = (op[1], op[2], tuple(op[3]), int(op[6]))
              sk_ = (op[2], tuple(op[3]))
              if lastobj.get(ok_) == op[4] and lastval.get(sk_) != op[4]:
                st['gauge_resets_of_an_earlier_value_after_a_change'] += 1
              lastobj[ok_] = op[4]
          if (op[1] if op[0] == 'L' else kind_of_type(op[1])) == 'set':
            lastval[(op[2], tuple(op[3]))] = op[4]
          kinds.setdefault(op[2], set()).add(op[1] if op[0] == 'L' else kind_of_type(op[1]))
          key = (op[2], tuple(op[3]))
          per[key] = per.get(key, 0) + 1
          if s['o'] == 'ok':
            st['updates_ok'] += 1
          elif 'err_' + s['o'] in st:
            st['err_' + s['o']] += 1
          if s['rnd']:
            st['random_consulted'] += 1
            st['random_keep' if op[5] < 0.1 else 'random_drop'] += 1
        elif op[0] == 'D':
          st['dumps'] += 1
        elif op[0] == 'I':
          st['invalid_source_calls'] += 1
        elif op[0] == 'P':
          st['metric_pops'] += 1
        elif op[0] == 'A':
          if len(op) > 2 and op[2]:
            st['aggregates_with_concurrent_batches'] += 1
            st['concurrent_updates_run_inside_yields'] += len(s.get('during', []))
            have = dict((m_, set(tuple(x[0]) for x in srcs_)) for m_, srcs_ in s['raw'])
            for u in [u for b in op[2] for u in b][:len(s.get('during', []))]:
              if u[2] not in have:
                st['concurrent_first_value_of_a_metric'] += 1
              elif tuple(u[3]) not in have[u[2]]:
                st['concurrent_first_value_of_a_source'] += 1
              have.setdefault(u[2], set()).add(tuple(u[3]))
          if 'exc' in s:
            st['aggregate_errors'][s['exc']] = st['aggregate_errors'].get(s['exc'], 0) + 1
          else:
            st['aggregates_ok'] += 1
            for _m, perk in s['agg']:
              for _k, t, cnt in perk:
                for kk in t:
                  if kk in st['agg_total_kinds']:
                    st['agg_total_kinds'][kk] += 1
                if 'pcts' in t and cnt > 1:
                  st['multi_source_percentile_keys'] += 1
            for _m, srcs in s['raw']:
              for _s, cell in srcs:
                if 'res' in cell and s['now'] - cell['last'] >= 300:
                  st['stale_reservoirs_at_aggregate'] += 1
      if per:
        st['max_equal_source_updates'] = max(st['max_equal_source_updates'], max(per.values()))
      if any(len(x) > 1 for x in kinds.values()):
        st['mixed_kind_histories'] += 1
    elif k == 'e2e':
      st['e2e_calls'] += len([e for e in c['ops'] if _e2e_call(e) is not None])
      st['e2e_open_failed_cases'] += 1 if c.get('open_fail') else 0
      for e, res in zip(c['ops'], o['results']):
        cc = _e2e_call(e)
        if cc is None:
          st['e2e_close_reopen'] += 1 if e[0] == 'open' else 0
          continue
        st['e2e_calls_chained_from_completion_callback'] += 1 if cc[3].get('chain') else 0
        st['e2e_calls_on_second_dispatcher'] += 1 if cc[3].get('d') else 0
        st['e2e_calls_refused_while_closed'] += 1 if str(res).startswith('raised') else 0
        if cc[1] is not None:
          kk = str(int(cc[1][3]))
          st['e2e_reply_kinds'][kk] = st['e2e_reply_kinds'].get(kk, 0) + 1
      seen_d = set()
      for what, idx in o.get('events', []):
        if what == 'd':
          seen_d.add(idx)
      oa = c.get('open_after')
      if oa is not None:
        st['e2e_calls_issued_before_open_completed'] += min(oa, len(c['ops']))
    elif k == 'pct':
      n = len(c['values'])
      for p, x in zip(c['ps'], o['out']):
        if x is None:
          st['pct_index_errors'] += 1
        elif n and float((n - 1) * p).is_integer():
          st['pct_exact_index'] += 1
        else:
          st['pct_interpolated'] += 1
    elif k == 'down':
      n, t = len(c['lst']), c['target']
      st['downsample_branches']['target0' if t == 0 else ('all' if n < 3 or n <= t else 'skip')] += 1
  return st
