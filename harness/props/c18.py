"""C18 - Metrics are neither lost, duplicated nor split across equal sources.

Implementation under test (imported from $SCALES_REPO as it is now):
  scales.varz.Source / VarzReceiver (VARZ_DATA, IncrementVarz, SetVarz, RecordPercentileSample) / _SampleSet,
  the VarzMetric classes (Counter, Rate, Gauge, AverageRate, AverageTimer, AggregateTimer; bound and unbound),
  VarzAggregator.Aggregate / CalculatePercentile / _Downsample, DefaultKeySelector,
  scales.dispatch.MessageDispatcher + _AsyncResponseSink (end-to-end case kind, stub next sink).
Model: coq/Model/Varz.v.  Monitor: the property statement computed by independent Python (reference
dictionaries keyed by field tuples, exact Fractions, sorted-sample percentile bounds / monotonicity).

EVERY update constructs a fresh Source object from freshly built field strings, so equal-but-not-identical
sources are the norm.  `random` and the low resolution clock inside scales.varz are replaced by scripted
sources whose draws are recorded and passed to the model in the labels.
"""
import re
import sys
from fractions import Fraction

from .. import common as C

PID = 'C18'
PROPS_FILE = 'Props/C18.v'
COQ_HEADER = 'From Coq Require Import QArith.\nFrom Scales Require Import Model.Base Model.Varz.\nLocal Open Scope Z_scope.'
COQ_CASE_TYPE = 'Varz.case'
COQ_CHECK = 'Varz.check_case'
COQ_EXPLAIN = 'Varz.explain_case'
SHARD = 60
WORKERS = 1
RULE = ('seeded generator: (run) 4..90 receiver / VarzMetric calls over 1..4 metrics of every VarzType (and an '
        'unregistered / unknown type), every call with a freshly constructed Source drawn from a pool of 2..6 field '
        'tuples (None and string fields), reservoir capacity in {1,2,3,5,8,30,1000}, scripted random draws around the '
        'keep threshold 0.1, clock jumps across the 300 s staleness limit, interleaved dumps of VARZ_DATA and '
        'Aggregate under 5 key selectors; 15% of the cases deliberately mix update kinds on one metric (error '
        'branches); (e2e) 1..60 calls through a real MessageDispatcher with a stub sink (success / error / no reply, '
        'endpoint None / str / object); (pct) CalculatePercentile on sorted lists of 0..40 floats over a grid of p in '
        '[0,1] plus out-of-range p; (down)/(target) _Downsample and its float size computation. non-trivial = at '
        'least two updates through distinct-but-equal Source objects, or a non-empty percentile input; distinct by '
        'canonical JSON of (case, observation)')
TRUSTED = ['independent Python reference of the property (exact Fractions, dictionaries keyed by field tuples) in '
           'harness/props/c18.py (monitor)',
           'float outputs (percentiles, means) are compared with the exact rational model within 1e-9 relative to the '
           'largest sample (DESIGN.md 4.3)']
ASSUMPTIONS = ['python dict semantics (insertion order, lookup by __hash__ then __eq__) as transcribed by the association '
               'lists of Model/Varz.v',
               'IEEE-754 binary64 round-to-nearest-even for len*(1.0/count) and len/target as transcribed by to_float; '
               'checked against CPython on every run (kinds target, down)',
               'increments are integers and gauge values dyadic rationals in generated histories, so the float sums of '
               'Aggregate are exact; theorems are over Q',
               'field values are strings or None (1 == 1.0 == True style cross-type equality of python is outside the model)']

MANIFEST = {
    'text': ('Theorems C18_sum, C18_gauge, C18_gauge_agg, C18_series_bound, C18_pct_bounds, C18_pct_mono, C18_pct_agg, '
             'C18_no_error hold for every update sequence, every key selector, every reservoir capacity, every random '
             'outcome and every clock of the Gallina transcription of VARZ_DATA / _SampleSet / Aggregate / '
             'CalculatePercentile; the transcription is run in lock-step with the real code (fresh Source object per '
             'update) on ~1.2k (quick) / ~7.4k (thorough) generated histories per run, including end-to-end runs through a '
             'real MessageDispatcher.'),
    'note': ('Trusted: Coq kernel; the correspondence harness (harness/props/c18.py) and its sampling; float outputs '
             'compared within 1e-9, float decisions modelled by an explicit binary64 rounding. All theorems closed under '
             'the global context.'),
    'technique': 'Coq proof (invariants over all label sequences, percentile interpolation over Q) + lock-step differential execution model vs code',
    'design_ref': 'DESIGN.md section 5, C18',
}

_S = {}
PREFIX = ['method', 'service', 'endpoint', 'client']
E2E_METRICS = {'scales.MessageDispatcher.dispatch_messages': 100, 'scales.MessageDispatcher.success_messages': 101,
               'scales.MessageDispatcher.exception_messages': 102, 'scales.MessageDispatcher.request_latency': 103}
EXC_CODE = {'TypeError': 1, 'AttributeError': 2, 'ZeroDivisionError': 3, 'IndexError': 4}


class _Clock(object):
  now = 0


class _Random(object):
  """Scripted replacement of the `random` module inside scales.varz: records that a draw happened."""

  def __init__(self):
    self.next = None
    self.used = 0

  def random(self):
    self.used += 1
    if self.next is None:
      return 0.5
    return self.next


class _NoGevent(object):
  @staticmethod
  def sleep(*_a, **_k):
    return None


class _NoTimers(object):
  @staticmethod
  def Schedule(deadline, action):
    return lambda: None


class _FakeTime(object):
  def __init__(self):
    self.t = 1024.0

  def time(self):
    return self.t


def setup():
  if _S:
    return
  if C.REPO not in sys.path:
    sys.path.insert(0, C.REPO)
  import scales
  assert scales.__file__.startswith(C.REPO), scales.__file__
  import scales.varz as V
  import scales.dispatch as D
  from scales.message import MethodReturnMessage
  from scales.constants import MessageProperties, SinkProperties
  from scales.sink import ClientMessageSink
  from scales.asynchronous import AsyncResult
  import gevent
  clk = _Clock()
  rnd = _Random()
  ftime = _FakeTime()
  V.LOW_RESOLUTION_TIME_SOURCE = clk
  V.random = rnd
  V.gevent = _NoGevent
  D.time = ftime
  if hasattr(D, 'GLOBAL_TIMER_QUEUE'):
    D.GLOBAL_TIMER_QUEUE = _NoTimers        # a call waiting for Open() never times out in these histories
  _S.update(V=V, D=D, clk=clk, rnd=rnd, ftime=ftime, gevent=gevent, MethodReturnMessage=MethodReturnMessage,
            MessageProperties=MessageProperties, SinkProperties=SinkProperties, ClientMessageSink=ClientMessageSink,
            AsyncResult=AsyncResult, metrics0=dict(V.VarzReceiver.VARZ_METRICS),
            pcts0=list(V.VarzReceiver.VARZ_PERCENTILES),
            classes={1: V.Gauge, 2: V.Rate, 3: V.AggregateTimer, 4: V.Counter, 5: V.AverageTimer, 6: V.AverageRate})


# ---------------------------------------------------------------------------------------------
# generators
# ---------------------------------------------------------------------------------------------
JS = [0.0, 0.05, 0.09999999999999999, 0.1, 0.10000000000000002, 0.25, 0.5, 0.999]
KIND_OF_TYPE = {1: 'set', 5: 'sample', 6: 'sample'}


def kind_of_type(ty):
  return KIND_OF_TYPE.get(ty, 'inc')


def _rand_tuple(r):
  return [r.choice([None, 0, 1]), r.choice([0, 0, 1, None]), r.choice([None, None, 0, 1, 2]), r.choice([None, None, 0])]


def _value(r, kind):
  if kind == 'inc':
    return r.choice([None, 1, 1, 2, 5, -1, 0, 100, 3])
  if kind == 'set':
    if r.random() < 0.5:
      return r.choice([5, 3, 3, 5, 7])          # re-sets of earlier values are the norm for gauges
    return r.choice([0, 1, 7, -3, r.randrange(-64, 64) / 8.0, r.randrange(0, 1000)])
  k = r.random()
  if k < 0.5:
    return r.randrange(0, 4096) / 64.0
  if k < 0.8:
    return round(r.uniform(0.0, 50.0), 3)
  if k < 0.9:
    return float(r.randrange(0, 5))
  return r.choice([0.1, 0.37, 1e-3, 123.456, 2.5, 0.0])


def gen_run(r, big=False, mixed=None):
  nm = r.choice([1, 2, 2, 3, 4])
  types = []
  for m in range(nm):
    ty = r.choice([1, 2, 4, 4, 5, 5, 6, 3, 2, 7, None])
    types.append([m, ty])
  pool = []
  for _ in range(r.choice([2, 3, 3, 4, 6])):
    t = _rand_tuple(r)
    if t not in pool:
      pool.append(t)
  cap = r.choice([1, 2, 3, 5, 8, 30, 1000])
  if mixed is None:
    mixed = r.random() < 0.15
  nops = r.choice([4, 8, 15, 30, 60, 90])
  ops = []
  now = 0
  for _ in range(nops):
    k = r.random()
    if k < 0.07:
      now += r.choice([0, 1, 5, 100, 299, 300, 301, 600, -3])
      ops.append(['K', now])
      continue
    if k < 0.10:
      ops.append(['D'])
      continue
    if k < 0.15:
      ops.append(['A', r.choice([0, 0, 0, 1, 2, 3, 4])])
      continue
    m, ty = r.choice(types)
    kind = kind_of_type(ty if ty is not None else r.choice([2, 1, 5]))
    if ty is None:
      kind = ['inc', 'set', 'sample'][m % 3]
    if mixed and r.random() < 0.25:
      kind = r.choice(['inc', 'set', 'sample'])
    src = list(r.choice(pool))
    v = _value(r, kind)
    j = r.choice(JS + [r.random()])
    if ty in (1, 2, 3, 4, 5, 6) and kind == kind_of_type(ty) and r.random() < 0.5:
      # 0: class-level metric(source, v); 1: a fresh bound object; 2..4: one of three long-lived bound objects
      ops.append(['C', ty, m, src, v, j, r.choice([0, 1, 2, 3, 4, 2, 3])])
    else:
      ops.append(['L', kind, m, src, v, j])
  ops.append(['D'])
  ops.append(['A', 0])
  ops.append(['A', r.choice([1, 2, 3, 4])])
  case = {'kind': 'run', 'cap': cap, 'types': types, 'ops': ops}
  if r.random() < 0.06:       # VARZ_PERCENTILES is configuration: other lists, also outside [0,1] (IndexError / negative index)
    case['pcts'] = r.choice([[0.0, 0.25, 1.0], [0.5], [0.5, 1.5], [-0.5, 0.5], [1.0, 0.0], []])
  return case


def gen_reservoir(r, cap, nsrc, n, sel=3):
  """Sample-heavy history on one timer metric: exercises the full-reservoir branch and _Downsample."""
  ty = r.choice([5, 6])
  pool = [[None, 0, i, None] for i in range(nsrc)]
  ops = []
  for i in range(n):
    src = list(pool[r.randrange(nsrc)]) if r.random() < 0.8 else list(pool[0])
    v = r.randrange(0, 1024) / 4.0 if cap > 100 else _value(r, 'sample')
    j = r.choice(JS + [r.random()])
    if r.random() < 0.5:
      ops.append(['C', ty, 0, src, v, j, r.choice([0, 1, 2, 3])])
    else:
      ops.append(['L', 'sample', 0, src, v, j])
    if r.random() < 0.03:
      ops.append(['K', i])
  ops += [['D'], ['A', 0], ['A', sel], ['A', 2]]
  return {'kind': 'run', 'cap': cap, 'types': [[0, ty]], 'ops': ops}


def gen_objects(r):
  """Several long-lived Varz / VarzMetric OBJECTS bound to equal sources, interleaved, re-setting earlier values."""
  ty = r.choice([1, 1, 1, 4, 2])
  pool = [[None, 0, 0, None]] if r.random() < 0.6 else [[None, 0, 0, None], [0, 0, 1, None]]
  vals = r.choice([[5, 3], [5, 3, 7], [0, 1], [2.5, 5]])
  ops = []
  for _ in range(r.choice([3, 5, 8, 14, 20])):
    src = list(r.choice(pool))
    v = r.choice(vals)
    ops.append(['C', ty, 0, src, v, 0.5, r.choice([2, 3, 4, 5, 2, 3, 0, 1])])
    if r.random() < 0.15:
      ops.append(['D'])
  ops += [['D'], ['A', 0], ['A', 2]]
  return {'kind': 'run', 'cap': 1000, 'types': [[0, ty]], 'ops': ops}


def gen_e2e(r):
  n = r.choice([1, 2, 4, 5, 10, 25, 60])
  calls = []
  for _ in range(n):
    method = r.choice([0, 0, 1, 2])
    k = r.random()
    timeout = r.choice([None, 5])
    if k < 0.1:
      calls.append([method, None, timeout])
    else:
      ep = r.choice([None, 0, 0, 1, 2])
      calls.append([method, [ep, r.random() < 0.5, r.randrange(0, 2048) / 256.0, r.random() < 0.3, r.choice(JS)], timeout])
  # open_after = k: the next sink's Open() result completes only after k calls were issued (None: it is complete at once)
  open_after = None if r.random() < 0.4 else r.choice([n, r.randrange(0, n + 1), min(n, 2)])
  return {'kind': 'e2e', 'cap': r.choice([2, 3, 5, 1000]), 'service': r.choice([0, 1]), 'ops': calls,
          'open_after': open_after, 'default_timeout': r.choice([None, 10]),
          'tail': [['D'], ['A', 0], ['A', r.choice([1, 2, 4])]]}


def gen_pct(r):
  n = r.choice([0, 1, 2, 3, 4, 5, 7, 11, 20, 40])
  vals = sorted(_value(r, 'sample') if r.random() < 0.9 else -_value(r, 'sample') for _ in range(n))
  grid = sorted(set([0.0, 1.0, 0.5, 0.9, 0.99, 0.999, 0.9999] + [r.random() for _ in range(6)] +
                    [r.randrange(0, 17) / 16.0 for _ in range(3)] +
                    ([i / float(n - 1) for i in range(n)] if 1 < n <= 11 else [])))
  extra = r.sample([-0.25, -1.0, 1.5, 2.0, -0.5, 1.25, -2.0], r.choice([0, 1, 2]))
  return {'kind': 'pct', 'values': vals, 'ps': grid + extra}


def gen_down(r):
  n = r.choice([0, 1, 2, 3, 4, 5, 6, 9, 10, 17, 30, 64])
  lst = [r.randrange(0, 256) / 4.0 for _ in range(n)]
  t = r.choice([0, 1, 2, 3, max(0, n - 1), n, n + 1, max(1, n // 2), max(1, n // 3), r.randrange(0, n + 2)])
  return {'kind': 'down', 'lst': lst, 'target': t}


def gen_target(r):
  count = r.choice([1, 1, 2, 3, 5, 7, 10, 49, 98, r.randrange(1, 200)])
  n = r.choice([0, 1, count, 2 * count, 3 * count, 7 * count, 1000, r.randrange(0, 1001)])
  return {'kind': 'target', 'n': n, 'count': count}


def gen_cases(tier, seed):
  quick = tier == 'quick'
  out = []
  n_run = 600 if quick else 4500
  for i in range(n_run):
    r = C.case_rng(seed, PID, i)
    out.append(gen_run(r))
  n_res = 40 if quick else 300
  for i in range(n_res):
    r = C.case_rng(seed, PID + 'res', i)
    out.append(gen_reservoir(r, r.choice([2, 3, 5, 8, 12, 30]), r.choice([1, 1, 2, 3, 5]), r.choice([10, 40, 120]),
                             sel=r.choice([3, 1, 0])))
  for i in range(1 if quick else 3):          # the production capacity, past the point where it is full
    r = C.case_rng(seed, PID + 'big', i)
    out.append(gen_reservoir(r, 1000, 1, 1030))
  for i in range(80 if quick else 600):
    out.append(gen_objects(C.case_rng(seed, PID + 'obj', i)))
  for i in range(60 if quick else 400):
    out.append(gen_e2e(C.case_rng(seed, PID + 'e2e', i)))
  for i in range(200 if quick else 1200):
    out.append(gen_pct(C.case_rng(seed, PID + 'pct', i)))
  for i in range(120 if quick else 600):
    out.append(gen_down(C.case_rng(seed, PID + 'down', i)))
  for count in [1, 2, 3, 7, 49, 98, 103, 107, 161, 187, 196, 197]:    # int(n * (1.0/count)) != n // count for some of these
    for n in [count, 2 * count, 5 * count, 1000]:
      out.append({'kind': 'target', 'n': n, 'count': count})
  for i in range(100 if quick else 400):
    out.append(gen_target(C.case_rng(seed, PID + 'tgt', i)))
  return out


def search_cases(tier, seed, diverging):
  """Adversarial stream used only when proof/correspondence broke: many equal-source updates, all selectors."""
  out = []
  for i in range(1500):
    r = C.case_rng(seed + 7919, PID, i)
    out.append(gen_run(r, mixed=False))
  for i in range(200):
    r = C.case_rng(seed + 7919, PID + 'res', i)
    out.append(gen_reservoir(r, r.choice([1, 2, 3, 5]), r.choice([1, 2, 4]), 60, sel=r.choice([0, 1, 3])))
  for i in range(300):
    out.append(gen_e2e(C.case_rng(seed + 7919, PID + 'e2e', i)))
  for i in range(300):
    out.append(gen_objects(C.case_rng(seed + 7919, PID + 'obj', i)))
  for i in range(500):
    out.append(gen_pct(C.case_rng(seed + 7919, PID + 'pct', i)))
  return out


# ---------------------------------------------------------------------------------------------
# implementation driver
# ---------------------------------------------------------------------------------------------
def _mname(m):
  return 'c18.m%d' % m


def _mid(name):
  if name in E2E_METRICS:
    return E2E_METRICS[name]
  mt = re.match(r'^c18\.m(\d+)$', name)
  return int(mt.group(1)) if mt else -1


def _field(i, x):
  """A freshly built (never interned, never shared) string for field i."""
  if x is None:
    return None
  return ''.join([PREFIX[i], str(x)])


def _fresh_source(src):
  return _S['V'].Source(*[_field(i, x) for i, x in enumerate(src)])


def _unfield(x):
  if x is None:
    return None
  mt = re.search(r'(\d+)$', str(x))
  return int(mt.group(1)) if mt else -7


def _src_ids(s):
  return [_unfield(s.method), _unfield(s.service), _unfield(s.endpoint), _unfield(s.client_id)]


def _num(v):
  return isinstance(v, (int, float)) and not isinstance(v, bool)


def _cell_obs(v):
  V = _S['V']
  if isinstance(v, V._SampleSet):
    return {'res': list(v.data), 'i': v.i, 'last': v.last_update}
  if _num(v):
    return {'num': v}
  return {'other': repr(v)[:60]}


def _dump():
  V = _S['V']
  out = []
  for name, srcs in list(V.VarzReceiver.VARZ_DATA.items()):
    out.append([_mid(name), [[_src_ids(s), _cell_obs(c)] for s, c in list(srcs.items())]])
  return out


SELECTORS = {
    0: None,
    1: lambda s: (s.service,),
    2: lambda s: s.to_tuple(),
    3: lambda s: (),
    4: lambda s: (s.method, s.endpoint),
}


def _total_obs(t):
  V = _S['V']
  if _num(t):
    return {'num': t}
  if isinstance(t, list) and t and all(_num(x) for x in t):
    return {'pcts': list(t)}
  if isinstance(t, list) and all(isinstance(x, V._SampleSet) for x in t):
    return {'work': len(t)}
  return {'other': repr(t)[:60]}


def _aggregate(sel):
  V = _S['V']
  raw = _dump()
  try:
    agg = V.VarzAggregator.Aggregate(V.VarzReceiver.VARZ_DATA, V.VarzReceiver.VARZ_METRICS, SELECTORS[sel])
  except Exception as e:          # the code's own failure modes (TypeError ...) are observations
    return {'exc': type(e).__name__, 'raw': raw, 'now': _S['clk'].now}
  out = []
  for name, per in agg.items():
    out.append([_mid(name), [[[_unfield(x) for x in key], _total_obs(a.total), a.count] for key, a in per.items()]])
  return {'agg': out, 'raw': raw, 'now': _S['clk'].now}


def _series_len(m_name):
  d = _S['V'].VarzReceiver.VARZ_DATA
  if m_name in d:                   # never index the defaultdict: that would create the series
    return len(d[m_name])
  return 0


def _reset(cap, types, pcts=None):
  V = _S['V']
  R = V.VarzReceiver
  R.VARZ_PERCENTILES = list(_S['pcts0']) if pcts is None else list(pcts)
  R.VARZ_DATA.clear()
  R.VARZ_METRICS.clear()
  for m, ty in types:
    if ty is not None:
      R.RegisterMetric(_mname(m), ty)
  R._MAX_PERCENTILE_SIZE = cap
  _S['clk'].now = 0
  _S['rnd'].next = None
  _S['rnd'].used = 0


def _restore():
  R = _S['V'].VarzReceiver
  R.VARZ_DATA.clear()
  R.VARZ_METRICS.clear()
  R.VARZ_METRICS.update(_S['metrics0'])
  R._MAX_PERCENTILE_SIZE = 1000
  R.VARZ_PERCENTILES = list(_S['pcts0'])


def _do_tail_op(op):
  if op[0] == 'D':
    return {'dump': _dump()}
  if op[0] == 'A':
    return _aggregate(op[1])
  raise ValueError(op)


def _bound_object(objects, ty, m, src, slot):
  """A long-lived metric object bound to a (fresh) Source equal to src; one per (type, metric, tuple, slot).
  Even slots are attributes of a Varz object (a VarzBase subclass instance), odd slots come from ForSource."""
  V = _S['V']
  key = (ty, m, tuple(src), slot)
  if key not in objects:
    cls = _S['classes'][ty]
    if slot % 2 == 0:
      attr = 'm%d' % m
      varz_cls = type(V.VarzBase)('C18Varz', (V.VarzBase,), {'_VARZ_BASE_NAME': 'c18', '_VARZ': {attr: cls}})
      objects[key] = getattr(varz_cls(_fresh_source(src)), attr)
    else:
      objects[key] = cls(_mname(m), None).ForSource(_fresh_source(src))
  return objects[key]


def _run_ops(case):
  V = _S['V']
  R = V.VarzReceiver
  rnd = _S['rnd']
  obs = []
  objects = {}
  for op in case['ops']:
    if op[0] == 'K':
      _S['clk'].now = op[1]
      obs.append({'o': 'ok', 'n': 0, 'rnd': False})
      continue
    if op[0] in ('D', 'A'):
      obs.append(_do_tail_op(op))
      continue
    if op[0] == 'L':
      _tag, kind, m, src, v, j = op
      name = _mname(m)
      s = _fresh_source(src)
      rnd.next = j
      used0 = rnd.used
      try:
        if kind == 'inc':
          if v is None:
            R.IncrementVarz(s, name)
          else:
            R.IncrementVarz(s, name, v)
        elif kind == 'set':
          R.SetVarz(s, name, v)
        else:
          R.RecordPercentileSample(s, name, v)
        o = 'ok'
      except Exception as e:
        o = type(e).__name__
    else:
      _tag, ty, m, src, v, j, bound = op
      name = _mname(m)
      s = _fresh_source(src)
      rnd.next = j
      used0 = rnd.used
      metric = _S['classes'][ty](name, None)
      try:
        if bound:
          b = metric.ForSource(s) if int(bound) == 1 else _bound_object(objects, ty, m, src, int(bound))
          if v is None:
            b()
          else:
            b(v)
        else:
          if v is None:
            metric(s)
          else:
            metric(s, v)
        o = 'ok'
      except Exception as e:
        o = type(e).__name__
    obs.append({'o': o, 'n': _series_len(name), 'rnd': rnd.used - used0})
  return obs


def _run_e2e(case):
  D = _S['D']
  gevent = _S['gevent']
  ftime = _S['ftime']
  rnd = _S['rnd']
  R = _S['V'].VarzReceiver
  R.VARZ_DATA.clear()
  R.VARZ_METRICS.clear()
  R.VARZ_METRICS.update(_S['metrics0'])
  R._MAX_PERCENTILE_SIZE = case['cap']
  _S['clk'].now = 0
  ftime.t = 1024.0
  MRM = _S['MethodReturnMessage']
  EP = _S['MessageProperties'].Endpoint
  replies = {}
  events = []
  used = {}
  lat_obs = {}
  issued_at = {}

  class EndpointObj(object):
    def __init__(self, s):
      self.s = s

    def __str__(self):
      return ''.join(['', self.s])

  class StubSink(_S['ClientMessageSink']):
    def __init__(self):
      super(StubSink, self).__init__()
      self.next_sink = None
      self.open_ar = _S['AsyncResult']()

    def Open(self):
      return self.open_ar

    def Close(self):
      pass

    def AsyncProcessRequest(self, sink_stack, msg, stream, headers):
      idx = msg.args[0]
      reply = replies[idx]
      if reply is None:
        return
      ep, as_obj, lat, is_err, j = reply
      if ep is not None:
        e = _field(2, ep)
        msg.properties[EP] = EndpointObj(e) if as_obj else e
      ftime.t += lat
      lat_obs[idx] = ftime.t - issued_at[idx]
      rnd.next = j
      u0 = rnd.used
      events.append(['r', idx])
      if is_err:
        sink_stack.AsyncProcessResponseMessage(MRM(error=ValueError('stub failure')))
      else:
        sink_stack.AsyncProcessResponseMessage(MRM(return_value=7))
      used[idx] = rnd.used - u0

    def AsyncProcessResponse(self, sink_stack, context, stream, msg):
      raise NotImplementedError()

  sink = StubSink()

  class Provider(object):
    def CreateSink(self, properties):
      return sink

  label = _field(1, case['service'])
  disp = D.MessageDispatcher(object, Provider(), case.get('default_timeout', 10), {_S['SinkProperties'].Label: label})
  disp.Open()
  open_after = case.get('open_after')
  waiting = []

  def complete_open():
    # both deferred paths (ContinueWith and on_open) are rawlinks of the Open() result: they run, in the order the
    # calls were issued, before any of the request greenlets they spawn
    events.extend(['d', i] for i in waiting)
    del waiting[:]
    sink.open_ar.set()
    for _ in range(3):
      gevent.sleep(0)

  if open_after is None:
    complete_open()
  ars = []
  for idx, entry in enumerate(case['ops']):
    method, reply = entry[0], entry[1]
    timeout = entry[2] if len(entry) > 2 else None
    if open_after is not None and idx == open_after and not sink.open_ar.ready():
      complete_open()
    replies[idx] = reply
    issued_at[idx] = ftime.t
    if sink.open_ar.ready():
      events.append(['d', idx])
    else:
      waiting.append(idx)
    if timeout is None:
      ars.append(disp.DispatchMethodCall(_field(0, method), (idx,), {}))
    else:
      ars.append(disp.DispatchMethodCall(_field(0, method), (idx,), {}, timeout=timeout))
    gevent.sleep(0)
    gevent.sleep(0)
  if not sink.open_ar.ready():
    complete_open()
  results = []
  for entry, ar in zip(case['ops'], ars):
    if entry[1] is None:
      results.append('pending' if not ar.ready() else 'done?')
    elif not ar.ready():
      results.append('not-ready')
    elif ar.successful():
      results.append('ok')
    else:
      results.append(type(ar.exception).__name__)
  tail = [_do_tail_op(op) for op in case['tail']]
  types = sorted([mid, R.VARZ_METRICS.get(name)] for name, mid in E2E_METRICS.items())
  n = len(case['ops'])
  return {'results': results, 'used': [used.get(i, 0) for i in range(n)], 'lat': [lat_obs.get(i) for i in range(n)],
          'events': events, 'tail': tail, 'types': types}


def run_impl(case):
  setup()
  k = case['kind']
  V = _S['V']
  try:
    if k == 'run':
      _reset(case['cap'], case['types'], case.get('pcts'))
      return {'steps': _run_ops(case), 'pcts': list(V.VarzReceiver.VARZ_PERCENTILES)}
    if k == 'e2e':
      o = _run_e2e(case)
      o['pcts'] = list(V.VarzReceiver.VARZ_PERCENTILES)
      return o
    if k == 'pct':
      out = []
      for p in case['ps']:
        try:
          out.append(V.VarzAggregator.CalculatePercentile(list(case['values']), p))
        except IndexError:
          out.append(None)
      return {'out': out}
    if k == 'down':
      return {'out': list(V.VarzAggregator._Downsample(list(case['lst']), case['target']))}
    if k == 'target':
      n, count = case['n'], case['count']
      # the expression of Aggregate (varz.py:327-328) on a real _SampleSet of n samples, observed through _Downsample
      seen = {}
      orig = V.VarzAggregator._Downsample

      def spy(lst, target_size):
        seen.setdefault('t', []).append(target_size)
        return orig(lst, target_size)
      V.VarzAggregator._Downsample = staticmethod(spy)
      try:
        data = {'m': {}}
        for i in range(count):
          data['m'][V.Source(service='s', endpoint=''.join(['e', str(i)]))] = V._SampleSet(max(n, 1), [float(x) for x in range(n)])
        try:
          V.VarzAggregator.Aggregate(data, {'m': V.VarzType.AverageTimer})
        except (IndexError, TypeError, ZeroDivisionError, AttributeError):
          pass                      # only the size passed to _Downsample is observed here
      finally:
        V.VarzAggregator._Downsample = staticmethod(orig)
      ts = set(seen.get('t', []))
      return {'target': ts.pop() if len(ts) == 1 else None}
  finally:
    _restore()
  raise ValueError(k)


# ---------------------------------------------------------------------------------------------
# monitor: the property statement, computed independently
# ---------------------------------------------------------------------------------------------
TOL = 1e-9


def _key_of(sel, t):
  t = tuple(t)
  if sel == 0:
    return (t[1], t[3])
  if sel == 1:
    return (t[1],)
  if sel == 2:
    return t
  if sel == 3:
    return ()
  return (t[0], t[2])


def _approx(a, b, scale):
  return abs(a - b) <= TOL * max(abs(scale), 1e-300) or a == b


class _Ref(object):
  """Reference bookkeeping of one history: per metric, per field tuple."""

  def __init__(self, types, cap=1000):
    self.cap = cap
    self.types = dict((m, ty) for m, ty in types)
    self.kinds = {}          # m -> set of update kinds used
    self.cells = {}          # m -> {tuple: {'sum': Fraction, 'last': value, 'samples': [..]}}
    self.failed = set()      # metrics on which an update raised
    self.now = 0

  def clean(self, m):
    ks = self.kinds.get(m, set())
    if len(ks) > 1 or m in self.failed:
      return False
    ty = self.types.get(m)
    if ty is not None and ks and list(ks)[0] != kind_of_type(ty):
      return False
    return True

  def kind(self, m):
    ks = self.kinds.get(m, set())
    return list(ks)[0] if len(ks) == 1 else None

  def update(self, m, kind, src, v):
    self.kinds.setdefault(m, set()).add(kind)
    c = self.cells.setdefault(m, {}).setdefault(tuple(src), {'sum': Fraction(0), 'last': None, 'samples': [], 't': None})
    if kind == 'inc':
      c['sum'] += Fraction(1 if v is None else v)
    elif kind == 'set':
      c['last'] = v
    else:
      c['samples'].append(v)
      c['t'] = self.now


def _check_dump(ref, dump, v, where):
  for m, srcs in dump:
    tuples = [tuple(s) for s, _c in srcs]
    if len(set(tuples)) != len(tuples):
      dup = [t for t in set(tuples) if tuples.count(t) > 1][0]
      v.append(('series-split', '%s: metric %s has %d series for the equal source %r' % (where, m, tuples.count(dup), dup)))
    if m not in ref.cells and m >= 0 and m < 100:
      v.append(('series-foreign', '%s: metric %s was never updated but has series' % (where, m)))
      continue
    if m >= 100 or not ref.clean(m):
      continue
    want = ref.cells[m]
    if set(tuples) - set(want):
      v.append(('series-foreign', '%s: metric %s has a series for a source never used: %r' % (where, m, sorted(set(tuples) - set(want), key=repr)[:2])))
    if set(want) - set(tuples):
      v.append(('series-lost', '%s: metric %s lost the series of %r' % (where, m, sorted(set(want) - set(tuples), key=repr)[:2])))
    kind = ref.kind(m)
    for s, c in srcs:
      w = want.get(tuple(s))
      if w is None:
        continue
      if kind == 'inc':
        if 'num' not in c or Fraction(c['num']) != w['sum']:
          v.append(('counter-raw', '%s: metric %s source %r holds %r, increments sum to %s' % (where, m, s, c, w['sum'])))
      elif kind == 'set':
        if 'num' not in c or c['num'] != w['last']:
          v.append(('gauge-last', '%s: metric %s source %r holds %r, last value set was %r' % (where, m, s, c, w['last'])))
      elif kind == 'sample':
        if 'res' not in c or not c['res']:
          v.append(('reservoir-empty', '%s: metric %s source %r holds %r after %d samples' % (where, m, s, c, len(w['samples']))))
        else:
          pool = list(w['samples'])
          for x in c['res']:
            if x in pool:
              pool.remove(x)
            else:
              v.append(('reservoir-foreign-sample', '%s: metric %s source %r retains %r which was not recorded (that often)' % (where, m, s, x)))
              break
  seen = set(m for m, _ in dump)
  for m in ref.cells:
    if m < 100 and ref.clean(m) and ref.cells[m] and m not in seen:
      v.append(('series-lost', '%s: metric %s has updates but no data' % (where, m)))


def _check_pcts_single(total, data, v, where, pcts=None):
  lo, hi = min(data), max(data)
  scale = max(abs(lo), abs(hi))
  if 'pcts' not in total or len(total['pcts']) < 1:
    v.append(('pct-shape', '%s: total %r' % (where, total)))
    return
  ps = total['pcts']
  if pcts is not None and not all(0.0 <= p <= 1.0 for p in pcts):
    return
  for x in ps:
    if x < lo - TOL * scale or x > hi + TOL * scale:
      v.append(('pct-bounds', '%s: reported %r outside retained samples [%r, %r]' % (where, x, lo, hi)))
      break
  if pcts is not None and any(a > b for a, b in zip(pcts, pcts[1:])):
    return
  for a, b in zip(ps[1:], ps[2:]):
    if b < a - TOL * scale:
      v.append(('pct-mono', '%s: percentiles decrease: %r' % (where, ps[1:])))
      break


def _check_agg(ref, sel, o, v, where, pcts=None):
  if 'exc' in o:
    if all(ref.clean(m) for m in ref.cells if ref.types.get(m) is not None) and (pcts is None or all(0.0 <= p <= 1.0 for p in pcts)):
      v.append(('unexpected-exception', '%s: Aggregate raised %s on a well-typed history' % (where, o['exc'])))
    return
  raw = dict((m, dict((tuple(s), c) for s, c in srcs)) for m, srcs in o['raw'])
  got = dict((m, per) for m, per in o['agg'])
  for m, cells in ref.cells.items():
    ty = ref.types.get(m)
    if ty is None or not ref.clean(m) or not cells:
      continue
    if m not in got:
      v.append(('agg-metric-lost', '%s: registered metric %s missing from Aggregate' % (where, m)))
      continue
    per = got[m]
    keys = [tuple(k) for k, _t, _c in per]
    if len(set(keys)) != len(keys):
      v.append(('agg-key-split', '%s: metric %s reports a key twice: %r' % (where, m, keys)))
    kind = ref.kind(m)
    groups = {}
    for t in cells:
      groups.setdefault(_key_of(sel, t), []).append(t)
    if ty in (1, 2, 3, 4):
      want = {}
      for k, ts in groups.items():
        want[k] = sum((cells[t]['sum'] if kind == 'inc' else Fraction(cells[t]['last'])) for t in ts)
      gotk = dict((tuple(k), t) for k, t, _c in per)
      if set(gotk) != set(want):
        v.append(('agg-keys', '%s: metric %s keys %r, expected %r' % (where, m, sorted(gotk, key=repr), sorted(want, key=repr))))
      for k, w in want.items():
        t = gotk.get(k)
        if t is None:
          continue
        if 'num' not in t or Fraction(t['num']) != w:
          sig = 'counter-sum' if kind == 'inc' else 'gauge-sum'
          v.append((sig, '%s: metric %s key %r aggregated to %r, recorded updates give %s' % (where, m, k, t, w)))
      if kind == 'inc':
        tot = sum((Fraction(t['num']) for t in gotk.values() if 'num' in t), Fraction(0))
        allsum = sum((c['sum'] for c in cells.values()), Fraction(0))
        if tot != allsum:
          v.append(('counter-sum', '%s: metric %s aggregates add up to %s, all increments to %s' % (where, m, tot, allsum)))
    elif ty in (5, 6):
      gotk = dict((tuple(k), (t, c)) for k, t, c in per)
      for k, ts in groups.items():
        if k not in gotk:
          v.append(('agg-keys', '%s: metric %s key %r missing' % (where, m, k)))
          continue
        if len(ts) != 1:
          continue
        c = raw.get(m, {}).get(ts[0])
        if not c or 'res' not in c or not c['res']:
          continue
        w = cells[ts[0]]
        surely_fresh = len(w['samples']) <= ref.cap and w['t'] is not None and ref.now - w['t'] < 300
        if o['now'] - c['last'] >= 300 and not surely_fresh:
          continue                      # a series without a retained sample for MAX_AGG_AGE is reported as empty (count 0)
        _check_pcts_single(gotk[k][0], c['res'], v, '%s metric %s key %r' % (where, m, k), pcts)


def _monitor_run(case, obs):
  v = []
  ref = _Ref(case['types'], case['cap'])
  for i, (op, o) in enumerate(zip(case['ops'], obs['steps'])):
    where = 'op %d' % i
    if op[0] == 'K':
      ref.now = op[1]
      continue
    if op[0] == 'D':
      _check_dump(ref, o['dump'], v, where)
      continue
    if op[0] == 'A':
      _check_dump(ref, o['raw'], v, where)
      _check_agg(ref, op[1], o, v, where, obs.get('pcts'))
      continue
    if op[0] == 'L':
      _t, kind, m, src, val, _j = op
    else:
      _t, ty, m, src, val, _j, _b = op
      kind = kind_of_type(ty)
    was_clean = ref.clean(m)
    ref.update(m, kind, src, val)
    if o['o'] != 'ok':
      if was_clean and ref.clean(m):
        v.append(('unexpected-exception', '%s: %s on a consistently used metric raised %s' % (where, kind, o['o'])))
      ref.failed.add(m)
      continue
    distinct = len(ref.cells[m])
    if o['n'] > distinct:
      v.append(('series-split', '%s: metric %s has %d series after updates from %d distinct sources' % (where, m, o['n'], distinct)))
    elif o['n'] < distinct and ref.clean(m):
      v.append(('series-lost', '%s: metric %s has %d series after updates from %d distinct sources' % (where, m, o['n'], distinct)))
  return v


def _monitor_e2e(case, obs):
  v = []
  svc = case['service']
  want_disp, want_host = {}, {}
  n_ok = n_err = 0
  for entry, res in zip(case['ops'], obs['results']):
    method, reply = entry[0], entry[1]
    want_disp[(method, svc, None, None)] = want_disp.get((method, svc, None, None), 0) + 1
    if reply is None:
      continue
    ep, _as_obj, lat, is_err, _j = reply
    h = want_host.setdefault((method, svc, ep, None), {'ok': 0, 'err': 0, 'lat': []})
    h['err' if is_err else 'ok'] += 1
    h['lat'].append(lat)
    n_err += 1 if is_err else 0
    n_ok += 0 if is_err else 1
    if res == 'not-ready':
      v.append(('e2e-no-result', 'a replied call did not complete'))
  for top, o in zip(case['tail'], obs['tail']):
    dump = o['dump'] if 'dump' in o else o['raw']
    d = dict((m, srcs) for m, srcs in dump)
    for m, srcs in dump:
      tuples = [tuple(s) for s, _c in srcs]
      want = want_disp if m == 100 else dict((t, h) for t, h in want_host.items()
                                             if m == 103 or (m == 101 and h['ok']) or (m == 102 and h['err']))
      if len(tuples) > len(want) or len(set(tuples)) != len(tuples):
        v.append(('series-split', 'metric %s has %d series after %d calls from %d distinct sources' %
                  (m, len(tuples), len(case['ops']), len(want))))
      elif set(tuples) != set(want):
        v.append(('e2e-series', 'metric %s has series %r, calls used %r' % (m, sorted(tuples, key=repr), sorted(want, key=repr))))
    tot = dict((m, sum(c.get('num', 0) for _s, c in d.get(m, []))) for m in (100, 101, 102))
    if tot[100] != len(case['ops']):
      v.append(('e2e-counts', 'dispatch_messages adds up to %r after %d calls were issued' % (tot[100], len(case['ops']))))
    if tot[101] != n_ok or tot[102] != n_err:
      v.append(('e2e-counts', 'success/exception_messages add up to %r/%r after %d/%d such replies' % (tot[101], tot[102], n_ok, n_err)))
    for t, n in want_disp.items():
      c = dict((tuple(s), c) for s, c in d.get(100, [])).get(t)
      if c is not None and c.get('num') != n and len(d.get(100, [])) == len(want_disp):
        v.append(('counter-raw', 'dispatch_messages of %r is %r after %d calls' % (t, c, n)))
    if 'agg' in o and o.get('agg') is not None:
      sel = top[1]
      got = dict((m, dict((tuple(k), (t, c)) for k, t, c in per)) for m, per in o['agg'])
      for m, src_want in ((100, dict((t, n) for t, n in want_disp.items())),
                          (101, dict((t, h['ok']) for t, h in want_host.items() if h['ok'])),
                          (102, dict((t, h['err']) for t, h in want_host.items() if h['err']))):
        exp = {}
        for t, n in src_want.items():
          exp[_key_of(sel, t)] = exp.get(_key_of(sel, t), 0) + n
        g = dict((k, t.get('num')) for k, (t, _c) in got.get(m, {}).items())
        if g != exp:
          v.append(('counter-sum', 'metric %s aggregated (selector %d) to %r, calls give %r' % (m, sel, g, exp)))
      groups = {}
      for t in want_host:
        groups.setdefault(_key_of(sel, t), []).append(t)
      rawlat = dict((tuple(s), c) for s, c in d.get(103, []))
      for k, ts in groups.items():
        if len(ts) == 1 and ts[0] in rawlat and rawlat[ts[0]].get('res') and k in got.get(103, {}):
          _check_pcts_single(got[103][k][0], rawlat[ts[0]]['res'], v, 'request_latency key %r' % (k,))
    elif 'exc' in o:
      v.append(('unexpected-exception', 'Aggregate raised %s after dispatcher calls' % o['exc']))
  return v


def _monitor_pct(case, obs):
  v = []
  vals = case['values']
  if not vals:
    return v
  if any(a > b for a, b in zip(vals, vals[1:])):
    return v
  lo, hi = vals[0], vals[-1]
  scale = max(abs(lo), abs(hi))
  prev = None
  for p, x in sorted(zip(case['ps'], obs['out'])):
    if not 0.0 <= p <= 1.0:
      continue
    if x is None:
      v.append(('pct-index-error', 'CalculatePercentile raised IndexError for p=%r on %d values' % (p, len(vals))))
      continue
    if x < lo - TOL * scale or x > hi + TOL * scale:
      v.append(('pct-bounds', 'percentile %r = %r outside [%r, %r]' % (p, x, lo, hi)))
    if prev is not None and x < prev[1] - TOL * scale:
      v.append(('pct-mono', 'percentile %r = %r but percentile %r = %r' % (prev[0], prev[1], p, x)))
    prev = (p, x)
  return v


def monitor(case, obs):
  k = case['kind']
  if k == 'run':
    return _monitor_run(case, obs)
  if k == 'e2e':
    return _monitor_e2e(case, obs)
  if k == 'pct':
    return _monitor_pct(case, obs)
  return []


# ---------------------------------------------------------------------------------------------
# translation to Coq terms
# ---------------------------------------------------------------------------------------------
def z(n):
  n = int(n)
  return '(%d)' % n if n < 0 else '%d' % n


def q(x):
  f = Fraction(x)
  if f.denominator == 1:
    return '(qi %s)' % z(f.numerator)
  return '(qz %s %d)' % (z(f.numerator), f.denominator)


def qlist(xs):
  return C.lst([q(x) for x in xs])


def oz(x):
  return '(-1)' if x is None else '%d' % x


def src_lit(s):
  return '(src %s %s %s %s)' % tuple(oz(x) for x in s)


def key_lit(k):
  return '(kz %s)' % C.lst([oz(x) for x in k])


def cfg_lit(cap, types, pcts):
  return '(Build_config %s %s %s)' % (z(cap), C.lst(['(%s, %s)' % (z(m), z(ty)) for m, ty in types if ty is not None]),
                                      qlist(pcts))


def _cell_lit(c):
  if 'num' in c:
    return '(Num %s)' % q(c['num'])
  if 'res' in c:
    return '(Res (Build_reservoir %s %s %s))' % (qlist(c['res']), z(c['i']), z(c['last']))
  raise ValueError('cell outside the model: %r' % (c,))


def _dump_lit(d):
  return C.lst(['(%s, %s)' % (z(m), C.lst(['(%s, %s)' % (src_lit(s), _cell_lit(c)) for s, c in srcs])) for m, srcs in d])


def _total_lit(t):
  if 'num' in t:
    return '(ONum %s)' % q(t['num'])
  if 'pcts' in t:
    return '(OPcts %s)' % qlist(t['pcts'])
  if 'work' in t:
    return '(OWork %s)' % z(t['work'])
  raise ValueError('total outside the model: %r' % (t,))


def _tail_obs_lit(o):
  if 'dump' in o:
    return '(ObDump %s)' % _dump_lit(o['dump'])
  if 'exc' in o:
    return '(ObAggErr %s)' % z(EXC_CODE.get(o['exc'], 99))
  return '(ObAgg %s)' % C.lst(['(%s, %s)' % (z(m), C.lst(['(%s, (%s, %s))' % (key_lit(k), _total_lit(t), z(c))
                                                                 for k, t, c in per])) for m, per in o['agg']])


def _tail_op_lit(op):
  return 'OpDump' if op[0] == 'D' else '(OpAgg %s)' % z(op[1])


def _rnd_lit(j, used):
  if used == 0:
    return 'None'
  if used == 1:
    return '(Some %s)' % q(j)
  raise ValueError('random consulted %d times in one update' % used)


def to_coq(case, obs):
  k = case['kind']
  if k == 'run':
    ops, exp = [], []
    for op, o in zip(case['ops'], obs['steps']):
      if op[0] == 'K':
        ops.append('(OpL (Clock %s))' % z(op[1]))
        exp.append('(ObStep 0 0)')
      elif op[0] in ('D', 'A'):
        ops.append(_tail_op_lit(op))
        exp.append(_tail_obs_lit(o))
      else:
        if op[0] == 'L':
          _t, kind, m, src, v, j = op
          rl = _rnd_lit(j, o['rnd'])
          if kind == 'inc':
            lab = '(Inc %s %s %s)' % (z(m), src_lit(src), q(1 if v is None else v))
          elif kind == 'set':
            lab = '(SetV %s %s %s)' % (z(m), src_lit(src), q(v))
          else:
            lab = '(Sample %s %s %s %s)' % (z(m), src_lit(src), q(v), rl)
          ops.append('(OpL %s)' % lab)
        else:
          _t, ty, m, src, v, j, _b = op
          ops.append('(OpCall %s %s %s %s %s)' % (z(ty), z(m), src_lit(src), q(1 if v is None else v),
                                                  _rnd_lit(j, o['rnd'])))
        exp.append('(ObStep %s %s)' % (z(0 if o['o'] == 'ok' else EXC_CODE.get(o['o'], 99)), z(o['n'])))
    return 'CRun %s %s %s' % (cfg_lit(case['cap'], case['types'], obs['pcts']), C.lst(ops), C.lst(exp))
  if k == 'e2e':
    evs = []
    for what, idx in obs['events']:
      entry = case['ops'][idx]
      if what == 'd':
        evs.append('(EvDispatch %s)' % z(entry[0]))
      else:
        ep, _as_obj, _lat, is_err, j = entry[1]
        evs.append('(EvReply %s (oz %s) %s %s %s)' % (z(entry[0]), oz(ep), q(obs['lat'][idx]), C.blit(is_err),
                                                     _rnd_lit(j, obs['used'][idx])))
    return 'CE2E %s %s %s %s %s' % (cfg_lit(case['cap'], obs['types'], obs['pcts']), z(case['service']), C.lst(evs),
                                   C.lst([_tail_op_lit(op) for op in case['tail']]),
                                   C.lst([_tail_obs_lit(o) for o in obs['tail']]))
  if k == 'pct':
    return 'CPct %s %s %s' % (qlist(case['values']), qlist(case['ps']),
                              C.lst(['None' if x is None else '(Some %s)' % q(x) for x in obs['out']]))
  if k == 'down':
    return 'CDown %s %s %s' % (qlist(case['lst']), z(case['target']), qlist(obs['out']))
  if k == 'target':
    if obs['target'] is None:
      return None
    return 'CTarget %s %s %s' % (z(case['n']), z(case['count']), z(obs['target']))
  raise ValueError(k)


def nontrivial(case, obs):
  k = case['kind']
  if k == 'run':
    seen = {}
    for op in case['ops']:
      if op[0] in ('L', 'C'):
        key = (op[2], tuple(op[3]))
        seen[key] = seen.get(key, 0) + 1
    return any(n >= 2 for n in seen.values())
  if k == 'e2e':
    return len(case['ops']) >= 2
  if k == 'pct':
    return len(case['values']) >= 1
  if k == 'down':
    return len(case['lst']) >= 3
  return True


def describe(case, obs):
  c = dict(case)
  if 'ops' in c and len(c['ops']) > 12:
    c['ops'] = c['ops'][:12] + ['...%d more' % (len(case['ops']) - 12)]
  o = dict(obs)
  if 'steps' in o and len(o['steps']) > 12:
    o['steps'] = o['steps'][:12] + ['...']
  s = C.canon(o)
  if len(s) > 3000:
    o = {'truncated': s[:3000]}
  return {'case': c, 'obs': o}


def stats(cases, obs):
  st = {'updates': 0, 'updates_ok': 0, 'err_TypeError': 0, 'err_AttributeError': 0, 'random_consulted': 0,
        'random_keep': 0, 'random_drop': 0, 'reservoir_evictions': 0, 'dumps': 0, 'aggregates_ok': 0, 'aggregate_errors': {},
        'agg_total_kinds': {'num': 0, 'pcts': 0, 'work': 0}, 'stale_reservoirs_at_aggregate': 0,
        'multi_source_percentile_keys': 0, 'via_varzmetric_object': 0, 'via_receiver': 0, 'max_equal_source_updates': 0,
        'e2e_calls': 0, 'e2e_calls_issued_before_open_completed': 0, 'updates_via_long_lived_objects': 0,
        'gauge_resets_of_an_earlier_value_after_a_change': 0, 'pct_index_errors': 0, 'pct_exact_index': 0, 'pct_interpolated': 0, 'downsample_branches':
        {'target0': 0, 'all': 0, 'skip': 0}, 'mixed_kind_histories': 0}
  for c, o in zip(cases, obs):
    if not isinstance(o, dict) or 'harness_exc' in o:
      continue
    k = c['kind']
    if k == 'run':
      per = {}
      kinds = {}
      lastobj, lastval = {}, {}
      for op, s in zip(c['ops'], o['steps']):
        if op[0] in ('L', 'C'):
          st['updates'] += 1
          st['via_varzmetric_object' if op[0] == 'C' else 'via_receiver'] += 1
          if op[0] == 'C' and int(op[6]) >= 2:
            st['updates_via_long_lived_objects'] += 1
            if kind_of_type(op[1]) == 'set':
              ok_ = (op[1], op[2], tuple(op[3]), int(op[6]))
              sk_ = (op[2], tuple(op[3]))
              if lastobj.get(ok_) == op[4] and lastval.get(sk_) != op[4]:
                st['gauge_resets_of_an_earlier_value_after_a_change'] += 1
              lastobj[ok_] = op[4]
          if (op[1] if op[0] == 'L' else kind_of_type(op[1])) == 'set':
            lastval[(op[2], tuple(op[3]))] = op[4]
          kinds.setdefault(op[2], set()).add(op[1] if op[0] == 'L' else kind_of_type(op[1]))
          key = (op[2], tuple(op[3]))
          per[key] = per.get(key, 0) + 1
          if s['o'] == 'ok':
            st['updates_ok'] += 1
          elif 'err_' + s['o'] in st:
            st['err_' + s['o']] += 1
          if s['rnd']:
            st['random_consulted'] += 1
            st['random_keep' if op[5] < 0.1 else 'random_drop'] += 1
        elif op[0] == 'D':
          st['dumps'] += 1
        elif op[0] == 'A':
          if 'exc' in s:
            st['aggregate_errors'][s['exc']] = st['aggregate_errors'].get(s['exc'], 0) + 1
          else:
            st['aggregates_ok'] += 1
            for _m, perk in s['agg']:
              for _k, t, cnt in perk:
                for kk in t:
                  if kk in st['agg_total_kinds']:
                    st['agg_total_kinds'][kk] += 1
                if 'pcts' in t and cnt > 1:
                  st['multi_source_percentile_keys'] += 1
            for _m, srcs in s['raw']:
              for _s, cell in srcs:
                if 'res' in cell and s['now'] - cell['last'] >= 300:
                  st['stale_reservoirs_at_aggregate'] += 1
      if per:
        st['max_equal_source_updates'] = max(st['max_equal_source_updates'], max(per.values()))
      if any(len(x) > 1 for x in kinds.values()):
        st['mixed_kind_histories'] += 1
    elif k == 'e2e':
      st['e2e_calls'] += len(c['ops'])
      seen_d = set()
      for what, idx in o.get('events', []):
        if what == 'd':
          seen_d.add(idx)
      oa = c.get('open_after')
      if oa is not None:
        st['e2e_calls_issued_before_open_completed'] += min(oa, len(c['ops']))
    elif k == 'pct':
      n = len(c['values'])
      for p, x in zip(c['ps'], o['out']):
        if x is None:
          st['pct_index_errors'] += 1
        elif n and float((n - 1) * p).is_integer():
          st['pct_exact_index'] += 1
        else:
          st['pct_interpolated'] += 1
    elif k == 'down':
      n, t = len(c['lst']), c['target']
      st['downsample_branches']['target0' if t == 0 else ('all' if n < 3 or n <= t else 'skip')] += 1
  return st
