"""Generator-side shadow of the ServerSet/Kazoo mechanics (plain Python).

Used ONLY to steer case generation for C19: to know which operations are effective in the current
situation, to drive traces to quiescence, to enumerate state-covering traces and to avoid or
produce the two schedule families G2/G3 (see coq/Model/ZkSet.v).  It is not an oracle: the
monitor in props/c19.py judges the implementation from its observations alone, and the Coq model
is evaluated independently on every case.
"""
import copy


class St(object):
  __slots__ = ('started parent pz zx kids dw cw pend dver watching nodes members queue wk filt ml wnew').split()

  def __init__(self, filt=()):
    self.started = False
    self.parent = False
    self.pz = 0
    self.zx = 0
    self.kids = []
    self.dw = False
    self.cw = 0
    self.pend = []
    self.dver = None
    self.watching = False
    self.nodes = []
    self.members = []
    self.queue = []
    self.wk = None
    self.filt = tuple(filt)
    self.ml = set()      # names whose read may have been skipped (any read order) and that _nodes still lists
    self.wnew = []       # all names of the batch in progress

  def clone(self):
    return copy.deepcopy(self)

  def key(self):
    """State up to the things that can influence the future (zxids only through equality)."""
    return (self.started, self.parent, tuple(self.kids), self.dw, self.cw, tuple(self.pend),
            self.dver is None, self.dver == self.pz, self.watching, tuple(sorted(self.nodes)),
            tuple(sorted(self.members)),
            tuple(None if it is None else (tuple(sorted(it[0])), tuple(sorted(it[1]))) for it in self.queue),
            None if self.wk is None else (self.wk[0], tuple(sorted(self.wk[1])), tuple(sorted(self.wk[2])),
                                          tuple(sorted(self.wk[3]))),
            tuple(sorted(self.ml)))

  def quiescent(self):
    return self.started and not self.pend and not self.queue and self.wk is None


def _flt(s, n):
  return n not in s.filt


def _fire_d(s):
  if s.dw:
    s.pend.append('D')
    s.dw = False


def _fire_c(s):
  s.pend.extend(['C'] * s.cw)
  s.cw = 0


def _osc(s, kids):
  ch = [c for c in kids if _flt(s, c)]
  new = [c for c in ch if c not in s.nodes]
  rem = [c for c in s.nodes if c not in ch]
  s.nodes = ch
  s.ml &= set(ch)
  s.queue.append((new, rem))


def _data_body(s, first):
  s.dw = True
  ver = s.pz if s.parent else None
  call = first or ver != s.dver
  s.dver = ver
  if call:
    if not s.parent:
      s.watching = False
      s.nodes = []
      s.ml = set()
      s.queue.append(None)          # the all-members-left item, handled by the worker
    elif not s.watching:
      s.watching = True
      s.cw += 1
      _osc(s, s.kids)


def _cont(s, todo, done, rem):
  if todo:
    s.wk = (todo[0], todo[1:], done, rem)
    return True
  for m in done:
    if m not in s.members:
      s.members.append(m)
  for m in rem:
    if m in s.members:
      s.members.remove(m)
  s.wk = None
  return False


def _drain(s):
  while s.queue:
    it = s.queue.pop(0)
    new, rem = it if it is not None else ([], list(s.members))
    s.wnew = [n for n in new if _flt(s, n)]
    if _cont(s, [n for n in new if _flt(s, n)], [], rem):
      return


def expected(s):
  x = set(s.members)
  bs = []
  if s.wk is not None:
    cur, todo, done, rem = s.wk
    bs.append(([cur] + list(todo) + list(done), rem))
  bs += s.queue
  for it in bs:
    if it is None:
      x = set()
    else:
      x = (x | set(it[0])) - set(it[1])
  return x


def patterns(s, op):
  """Which of the schedule families the operation `op` would enter from state s (set of 'g2','g3')."""
  k = op[0]
  out = set()
  if k == 'mk' and s.parent and op[1] not in s.kids and op[1] in s.nodes and (op[1] not in expected(s) or op[1] in s.ml):
    out.add('g2')
  if ((k == 'mkp' and not s.parent) or (k == 'rmp' and s.parent)) and 'D' in s.pend:
    out.add('g3')
  return out


def effective(s, op):
  k = op[0]
  if k == 'start':
    return not s.started
  if k == 'mkp':
    return not s.parent
  if k in ('rmp', 'touch'):
    return s.parent
  if k == 'mk':
    return s.parent and op[1] not in s.kids
  if k == 'rm':
    return s.parent and op[1] in s.kids
  if k == 'deliver':
    return bool(s.pend)
  if k == 'work':
    return s.started and (s.wk is not None or bool(s.queue))
  return True


def step(s, op):
  """The worker reads members in list order here; the real order is a set iteration order, which only
  permutes which read is answered when (the generator does not depend on it for soundness)."""
  k = op[0]
  if k == 'start':
    if not s.started:
      s.started = True
      _data_body(s, True)
  elif k == 'mkp':
    if not s.parent:
      s.zx += 1
      s.parent = True
      s.pz = s.zx
      _fire_d(s)
  elif k == 'touch':
    if s.parent:
      s.zx += 1
      s.pz = s.zx
      _fire_d(s)
  elif k == 'rmp':
    if s.parent:
      if s.kids:
        _fire_c(s)
      s.kids = []
      s.parent = False
      _fire_d(s)
      _fire_c(s)
  elif k == 'mk':
    if s.parent and op[1] not in s.kids:
      s.kids = sorted(s.kids + [op[1]])
      _fire_c(s)
  elif k == 'rm':
    if s.parent and op[1] in s.kids:
      s.kids = [x for x in s.kids if x != op[1]]
      _fire_c(s)
  elif k == 'deliver':
    if s.pend:
      p = s.pend.pop(0)
      if p == 'D':
        _data_body(s, False)
      elif s.parent:
        s.cw += 1
        _osc(s, s.kids)
  elif k == 'work':
    if s.started:
      if s.wk is not None:
        cur, todo, done, rem = s.wk
        for n in s.wnew:
          if not (s.parent and n in s.kids):
            s.ml.add(n)
        if s.parent and cur in s.kids:
          done = done + [cur]
        if not _cont(s, todo, done, rem):
          _drain(s)
      else:
        _drain(s)
  return s
