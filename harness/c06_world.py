"""C06 helper: the simulation world around one real ApertureBalancerSink.

Everything the aperture talks to is replaced *from outside* (no change to /repo):

* member channels        -> `Chan` (state is a field the harness sets; Open() returns a pending AsyncResult that the
                            harness completes with an `opendone` op; requests are held until a `put` op)
* next sink provider     -> `Factory` (records CreateSink(endpoint))
* server-set provider    -> `Provider` (initial list + join/leave notifications on demand, duplicates/unknown allowed)
* `random` in aperture.py / heap.py / base.py -> `Script` (draws from the case PRNG, records every draw)
* `time` in scales.varz  -> proxy whose time() is a virtual clock (MonoClock reads it)
* `Ema` in aperture.py   -> recording subclass of the real Ema (same arithmetic; records ts, sample, weight, result)
* LOW_RESOLUTION_TIMER_QUEUE / TIME_SOURCE in aperture.py -> recorder; the harness fires the scheduled jitter itself
* tracing: class-level wrappers on the heap<->aperture interface (HeapBalancerSink._AddSink/_RemoveSink,
  ApertureBalancerSink._OnNodeDown/_OnGet/_OnPut) append to the event log of the world that owns the sink.
"""
import collections
import math
import sys

Ep = collections.namedtuple('Endpoint', 'host port')
Server = collections.namedtuple('Server', 'service_endpoint')

S = {}          # scales names, filled by install()
CUR = [None]    # the world whose sink is currently being driven


def ep_of(i):
  return Ep('h', 8000 + i)


def id_of(ep):
  return ep.port - 8000


class Clock(object):
  def __init__(self):
    self.now = 1000.0


class _TimeProxy(object):
  def __init__(self, real):
    self._real = real

  def time(self):
    w = CUR[0]
    return w.clock.now if w is not None else self._real.time()

  def __getattr__(self, k):
    return getattr(self._real, k)


class _Random(object):
  """Scripted replacement of the `random` module inside aperture.py, heap.py and base.py."""

  def __init__(self, real):
    self._real = real

  def choice(self, seq):
    w = CUR[0]
    s = sorted(seq)                       # independent of set iteration order
    x = s[w.rng.randrange(len(s))]
    w.ev('choice', [id_of(e) for e in s], id_of(x))
    w.expanding = True      # the next CreateSink is the expansion to x (also when it happens while members join)
    return x

  def randint(self, a, b):
    w = CUR[0]
    if w is None:
      return self._real.randint(a, b)
    x = w.rng.randint(a, b)
    w.ev('randint', a, b, x)
    return x

  def shuffle(self, lst):
    w = CUR[0]
    if w is None:
      return self._real.shuffle(lst)
    w.rng.shuffle(lst)
    w.ev('shuffle', [id_of(s.service_endpoint) for s in lst])

  def __getattr__(self, k):
    return getattr(self._real, k)


class _TQ(object):
  """Recorder standing in for LOW_RESOLUTION_TIMER_QUEUE inside aperture.py."""

  def Schedule(self, deadline, action):
    w = CUR[0]
    w.scheduled.append((deadline, action))
    w.ev('schedule', deadline)
    return lambda: None


class _TS(object):
  @property
  def now(self):
    return CUR[0].clock.now

  def Get(self):
    return CUR[0].clock.now


def install(repo):
  if S:
    return
  if repo not in sys.path:
    sys.path.insert(0, repo)
  import scales
  assert scales.__file__.startswith(repo), scales.__file__
  import gevent
  import scales.varz as varz
  import scales.loadbalancer.aperture as apmod
  import scales.loadbalancer.heap as heapmod
  import scales.loadbalancer.base as basemod
  from scales.asynchronous import AsyncResult
  from scales.constants import ChannelState, SinkProperties, MessageProperties
  from scales.sink import ClientMessageSink, ClientMessageSinkStack
  from scales.message import Message, MethodReturnMessage, FailedFastError
  from scales.loadbalancer.serverset import ServerSetProvider

  varz.time = _TimeProxy(varz.time)
  apmod.random = _Random(apmod.random)
  heapmod.random = _Random(heapmod.random)
  basemod.random = _Random(basemod.random)
  apmod.LOW_RESOLUTION_TIMER_QUEUE = _TQ()
  apmod.LOW_RESOLUTION_TIME_SOURCE = _TS()

  RealEma = apmod.Ema

  class RecEma(RealEma):
    def Update(self, ts, sample):
      prev_t = self._time
      prev_v = self.value
      r = RealEma.Update(self, ts, sample)
      w = CUR[0]
      if w is not None:
        if prev_t == -1:
          w.ev('ema', None, sample, None, r)
        else:
          delta = ts - prev_t
          win = 0 if self._window == 0 else math.exp(-float(delta) / self._window)
          w.ev('ema', prev_v, sample, win, r)
      return r
  apmod.Ema = RecEma

  Heap = heapmod.HeapBalancerSink
  Ap = apmod.ApertureBalancerSink

  def wrap(cls, name, pre, end=None):
    orig = cls.__dict__[name]

    def f(self, *a, **k):
      w = getattr(self, '_c06_world', None)
      if w is None:
        return orig(self, *a, **k)
      tok = pre(w, self, a)
      try:
        r = orig(self, *a, **k)
      finally:
        if end is not None:
          w.ev(end)          # hooks may be re-entered (a channel completing requests inside Close()): mark where one ends
      if tok is not None:
        tok(r)
      return r
    f.__name__ = name
    setattr(cls, name, f)

  def pre_add(w, self, a):
    w.ev('add', id_of(a[0]))
    return None

  def pre_remove(w, self, a):
    rec = w.ev('remove', id_of(a[0]), None)
    return lambda r: rec.__setitem__(2, bool(r))

  def pre_down(w, self, a):
    node = a[0]
    w.ev('down', id_of(node.endpoint), int(node.channel.state))
    return None

  wrap(Heap, '_AddSink', pre_add)
  wrap(Heap, '_RemoveSink', pre_remove)
  wrap(Ap, '_OnNodeDown', pre_down, 'down-end')
  wrap(Ap, '_OnGet', lambda w, self, a: w.ev('onget', id_of(a[0].endpoint)) and None, 'onget-end')
  wrap(Ap, '_OnPut', lambda w, self, a: w.ev('onput', id_of(a[0].endpoint)) and None, 'onput-end')

  class Chan(ClientMessageSink):
    def __init__(self, world, epid, cid):
      super(Chan, self).__init__()
      self.world = world
      self.epid = epid
      self.cid = cid
      self._state = ChannelState.Idle
      self.open_ar = None
      self.held = []
      self.endpoint = ep_of(epid)

    @property
    def state(self):
      return self._state

    @state.setter
    def state(self, v):
      self._state = v

    def Open(self):
      w = self.world
      w.ev('open', self.cid)
      if self.open_ar is None:
        self.open_ar = AsyncResult()
        mode = None
        if w.sync_open and w.rng.random() < w.sync_open:
          mode = 'ok' if w.rng.random() < 0.7 else 'fail'
        if mode is None:
          w.opening.append(self)
        else:
          # a collaborator that completes synchronously: the result is already set when Open() returns
          self._state = ChannelState.Open if mode == 'ok' else ChannelState.Closed
          if self.cause == 'expand':
            w.sync_fresh.append(self.cid)
          w.ev('chanstate', self.cid, self.epid, int(self._state))
          if mode == 'ok':
            self.open_ar.set(True)
          else:
            self.open_ar.set_exception(Exception('open failed at once'))
      return self.open_ar

    def Close(self):
      w = self.world
      w.ev('close', self.cid)
      self._state = ChannelState.Closed
      if w.close_inline:
        # a collaborator that fails its in-flight requests inline, i.e. re-enters the balancer from inside
        # heap._RemoveSink / _ContractAperture (one request at a time, each taken off the books first)
        while self.held:
          st = self.held.pop(0)
          w.outstanding[:] = [x for x in w.outstanding if x[1] is not st]
          st.AsyncProcessResponseMessage(MethodReturnMessage(error=FailedFastError()))

    def AsyncProcessRequest(self, sink_stack, msg, stream, headers):
      self.world.ev('req', self.cid, self.epid)
      if self.world.failfast and self._state != ChannelState.Open:
        sink_stack.AsyncProcessResponseMessage(MethodReturnMessage(error=FailedFastError()))
      else:
        self.held.append(sink_stack)
        self.world.outstanding.append((self, sink_stack))

    def AsyncProcessResponse(self, sink_stack, context, stream, msg):
      pass

  class Factory(object):
    def __init__(self, world):
      self.world = world

    def CreateSink(self, props):
      w = self.world
      epid = id_of(props[SinkProperties.Endpoint])
      c = Chan(w, epid, len(w.chans))
      c.cause = 'expand' if w.expanding else w.cause
      w.expanding = False
      w.chans.append(c)
      w.ev('create', c.cid, epid)
      return c

  class Provider(ServerSetProvider):
    def __init__(self, initial):
      self.initial = [Server(ep_of(i)) for i in initial]
      self.on_join = self.on_leave = None

    def Initialize(self, on_join, on_leave):
      self.on_join, self.on_leave = on_join, on_leave

    def Close(self):
      pass

    def GetServers(self):
      return list(self.initial)

  class Stack(ClientMessageSinkStack):
    def __init__(self, world=None, again=False):
      super(Stack, self).__init__()
      self.done = False
      self.msg = None
      self.world = world
      self.again = again        # the caller dispatches one more request from inside its completion callback

    def AsyncProcessResponse(self, stream, msg):
      if not self.Any():
        self.done = True
        self.msg = msg
        if self.again and self.world is not None:
          self.again = False
          self.world.ev('redispatch')
          self.world.dispatch(False)
        return
      super(Stack, self).AsyncProcessResponse(stream, msg)

  S.update(gevent=gevent, varz=varz, apmod=apmod, heapmod=heapmod, AsyncResult=AsyncResult, ChannelState=ChannelState,
           SinkProperties=SinkProperties, MessageProperties=MessageProperties, Message=Message, Chan=Chan,
           Factory=Factory, Provider=Provider, Stack=Stack, Ap=Ap, MethodReturnMessage=MethodReturnMessage)


class World(object):
  """One aperture sink with its scripted collaborators."""
  _n = [0]

  def __init__(self, cfg, rng):
    self.rng = rng
    self.clock = Clock()
    self.events = []
    self.chans = []
    self.opening = []          # channels whose Open() result is not yet completed (in Open() order)
    self.outstanding = []      # (chan, sink_stack) of held requests
    self.scheduled = []        # jitter actions handed to the timer queue and not yet fired
    self.jitter_g = None
    self.failfast = bool(cfg.get('failfast'))
    self.close_inline = bool(cfg.get('close_inline'))
    self.sync_open = cfg.get('sync_open') or 0
    self.errors = []
    self.cause = 'join'
    self.act = []
    self.sync_fresh = []
    self.expanding = False
    World._n[0] += 1
    self.label = 'c06-%d' % World._n[0]
    CUR[0] = self
    Ap = S['Ap']
    props = dict(Ap.Builder._defaults)
    self.provider = S['Provider'](cfg['init'])
    props.update(server_set_provider=self.provider, min_size=cfg['min_size'], max_size=cfg['max_size'],
                 min_load=cfg['min_load'], max_load=cfg['max_load'],
                 jitter_min_sec=cfg.get('jitter_min', 0), jitter_max_sec=cfg.get('jitter_max', 0),
                 smoothing_window=cfg.get('smoothing_window', 5))
    params = Ap.Builder.PARAMS_CLASS(**props)
    self.sink = Ap(S['Factory'](self), params, {S['SinkProperties'].Label: self.label})
    self.sink._c06_world = self
    self.open_ar = None

  def ev(self, *a):
    """Appends a trace record; its last element is a snapshot taken BEFORE the traced call runs:
    p/i/a/n = private pending, idle, heap members, size (diagnostic reads, None when unreadable);
    cs = state of every mock channel by id, t = virtual time, out = requests held by the mock channels, xo = expansion-created channels whose Open() is still in progress or completed inside Open() during this op (its completion callback has not run yet)."""
    rec = list(a)
    info = {'p': None, 'i': None, 'a': None, 'n': None}
    sink = getattr(self, 'sink', None)
    if sink is not None:
      try:
        info['p'] = sorted(id_of(e) for e in sink._pending_endpoints)
      except Exception:
        pass
      try:
        info['i'] = sorted(id_of(e) for e in sink._idle_endpoints)
      except Exception:
        pass
      try:
        info['a'] = [[id_of(n.endpoint), int(n.channel.state)] for n in sink._heap[1:]]
        info['n'] = len(info['a'])
      except Exception:
        pass
    info['cs'] = [int(c.state) for c in self.chans]
    info['t'] = self.clock.now
    info['out'] = len(self.outstanding)
    info['xo'] = [c.cid for c in self.opening if c.cause == 'expand'] + list(self.sync_fresh)
    rec.append(info)
    self.events.append(rec)
    return rec

  def dispatch(self, again):
    """One request through the sink, as a caller does it; returns (stack, message)."""
    st = S['Stack'](self, again)
    m = S['Message']()
    self.sink.AsyncProcessRequest(st, m, None, None)
    return st, m

  def take_events(self):
    e = self.events
    self.events = []
    return e

  def settle(self):
    CUR[0] = self
    g = S['gevent']
    for _ in range(40):      # a failed open unwinds one callback level per loop iteration
      g.sleep(0)

  def gauges(self):
    d = S['varz'].VarzReceiver.VARZ_DATA
    out = {}
    for k in ('active', 'idle', 'load_average'):
      m = d.get('scales.loadbalancer.Aperture.' + k, {})
      v = None
      for src, val in list(m.items()):
        if src.service == self.label:
          v = val
      out[k] = v
    return out

  def drop_gauges(self):
    d = S['varz'].VarzReceiver.VARZ_DATA
    for name in list(d.keys()):
      m = d[name]
      for src in [s for s in m.keys() if getattr(s, 'service', None) == self.label]:
        del m[src]

  def internals(self):
    """Diagnostic read of the private sets (inside try: a rename must not raise here)."""
    out = {}
    try:
      out['heap'] = [[id_of(n.endpoint), int(n.channel.state), n.channel.cid] for n in self.sink._heap[1:]]
    except Exception as e:
      out['heap_err'] = repr(e)
    try:
      out['idle'] = sorted(id_of(e) for e in self.sink._idle_endpoints)
    except Exception as e:
      out['idle_err'] = repr(e)
    try:
      out['pending'] = sorted(id_of(e) for e in self.sink._pending_endpoints)
    except Exception as e:
      out['pending_err'] = repr(e)
    try:
      out['servers'] = sorted(id_of(e) for e in self.sink._servers.keys())
    except Exception as e:
      out['servers_err'] = repr(e)
    return out
