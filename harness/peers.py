"""Scripted peers for the simulation world: a framed-Thrift server and a ThriftMux server.

Both decode what the client wrote with their own code (the Thrift library for the call payload, a
hand-written mux frame parser) and answer according to a per-request *plan*:
  {'act': 'reply', 'delay': ticks}            normal reply after a (virtual) delay
  {'act': 'drop'}                             never answer
  {'act': 'close'}                            close the connection (EOF at the client)
  {'act': 'reset'}                            connection error at the client
  {'act': 'garbage'}                          reply with bytes that are not a valid reply
  {'act': 'exc'}                              server-side application exception
  {'act': 'null'}                             a well-formed reply whose result struct carries no field (no `success`)
plus, for mux: 'dup' (answer twice), 'bogus' (also send a reply on a never-issued / reserved tag).
The reply value for a call `hi(x)` is always 'R:' + x, so a caller can tell whose reply it got.
"""
from struct import pack, unpack

from thrift.protocol.TBinaryProtocol import TBinaryProtocol
from thrift.transport.TTransport import TMemoryBuffer
from thrift.Thrift import TMessageType, TApplicationException

from . import vworld as V
from .ifaces.hello import Hello


def echo(x):
  return 'R:' + x


def decode_call(payload):
  tb = TMemoryBuffer(payload)
  p = TBinaryProtocol(tb)
  name, mtype, seq = p.readMessageBegin()
  args = Hello.hi_args()
  args.read(p)
  p.readMessageEnd()
  return name, mtype, seq, args.test_data


def encode_reply(name, seq, value=None, app_exc=None):
  tb = TMemoryBuffer()
  p = TBinaryProtocol(tb)
  if app_exc is not None:
    p.writeMessageBegin(name, TMessageType.EXCEPTION, seq)
    TApplicationException(TApplicationException.INTERNAL_ERROR, app_exc).write(p)
  else:
    p.writeMessageBegin(name, TMessageType.REPLY, seq)
    Hello.hi_result(success=value).write(p)
  p.writeMessageEnd()
  return tb.getvalue()


class PlannedServer(V.Server):
  """Common plumbing: request log and delayed actions on the virtual clock."""

  def __init__(self, port, reachable=True, plan=None, default=None):
    super(PlannedServer, self).__init__(port, reachable)
    self.plan = plan or {}            # request arg (call id string) or ordinal -> action dict
    self.default = default or {'act': 'reply', 'delay': 0}
    self.requests = []                # dicts: time, conn, arg, method, raw, tag
    self.discards = []                # mux: (time, conn, tag named, frame tag)
    self.frames = []                  # mux: every frame (time, conn, type, tag, bodylen)
    self.malformed = []
    self.replies = []                 # answers actually sent: dicts time, conn, id, tag, seq

  def action_for(self, arg, ordinal):
    key = arg.split('|')[0] if isinstance(arg, str) else arg
    if key in self.plan:
      return self.plan[key]
    if ordinal in self.plan:
      return self.plan[ordinal]
    return self.default

  def note_reply(self, conn, arg, tag=None):
    w = V.W()
    if conn.closed_by_client or conn.closed_by_peer:
      return
    self.replies.append({'time': w.clock.now, 'conn': conn.cid, 'id': arg.split('|')[0], 'tag': tag,
                         'seq': w.next_seq() if hasattr(w, 'next_seq') else None})

  def later(self, ticks, fn):
    w = V.W()
    if ticks <= 0:
      fn()
    else:
      w.clock.call_at(w.clock.now + ticks * V.TICK, fn)


class ThriftServer(PlannedServer):
  """4-byte length framed binary-protocol server (the serial transport's peer)."""

  def on_data(self, conn):
    w = V.W()
    while len(conn.rx) >= 4:
      n, = unpack('!i', conn.rx[:4])
      if n < 0 or n > (1 << 24):
        self.malformed.append((w.clock.now, conn.cid, 'bad length %d' % n))
        conn.rx = b''
        return
      if len(conn.rx) < 4 + n:
        break
      payload = conn.rx[4:4 + n]
      conn.rx = conn.rx[4 + n:]
      wseq, wtime = V.write_start(conn, conn.consumed)
      conn.consumed += 4 + n
      try:
        name, mtype, seq, arg = decode_call(payload)
      except Exception as e:
        self.malformed.append((w.clock.now, conn.cid, repr(e)))
        continue
      rec = {'time': w.clock.now, 'conn': conn.cid, 'port': self.port, 'arg': arg, 'method': name, 'tseq': seq,
             'seq': w.next_seq() if hasattr(w, 'next_seq') else None, 'wseq': wseq, 'wtime': wtime}
      self.requests.append(rec)
      act = self.action_for(arg, len(self.requests) - 1)
      self._do(conn, act, name, seq, arg)

  def _do(self, conn, act, name, seq, arg):
    a = act.get('act', 'reply')
    delay = act.get('delay', 0)
    if a == 'drop':
      return
    if a == 'close':
      return self.later(delay, conn.close)
    if a == 'reset':
      return self.later(delay, conn.reset)
    if a == 'garbage':
      body = b'\x00\x01\x02garbage'
      return self.later(delay, lambda: conn.send(pack('!i', len(body)) + body))
    if a == 'exc':
      body = encode_reply(name, seq, app_exc='boom:' + arg)
    elif a == 'null':
      body = encode_reply(name, seq, value=None)
    else:
      body = encode_reply(name, seq, value=echo(arg))
    data = pack('!i', len(body)) + body
    chunks = act.get('chunks')

    def send():
      self.note_reply(conn, arg)
      conn.send(data, chunks)
    self.later(delay, send)


T_DISPATCH, R_DISPATCH, T_PING, R_PING, T_DISCARDED, R_ERR = 2, -2, 65, -65, 66, -128


def mux_frame(mtype, tag, body):
  inner = pack('!b', mtype) + int(tag).to_bytes(3, 'big') + body
  return pack('!i', len(inner)) + inner


def parse_contexts(body):
  n, = unpack('!h', body[:2])
  o = 2
  ctx = []
  for _ in range(n):
    kl, = unpack('!h', body[o:o + 2]); o += 2
    k = body[o:o + kl]; o += kl
    vl, = unpack('!h', body[o:o + 2]); o += 2
    v = body[o:o + vl]; o += vl
    ctx.append((k, v))
  dl, = unpack('!h', body[o:o + 2]); o += 2 + dl
  nd, = unpack('!h', body[o:o + 2]); o += 2
  for _ in range(nd):
    for _x in range(2):
      sl, = unpack('!h', body[o:o + 2]); o += 2 + sl
  return ctx, body[o:]


class MuxServer(PlannedServer):
  """ThriftMux peer. `ping` controls Tping handling: True = answer, False = silent, int n = answer the first n."""

  def __init__(self, port, reachable=True, plan=None, default=None, ping=True):
    super(MuxServer, self).__init__(port, reachable, plan, default)
    self.ping = ping
    self.pings = 0

  def on_data(self, conn):
    w = V.W()
    while len(conn.rx) >= 4:
      n, = unpack('!i', conn.rx[:4])
      if n < 4 or n > (1 << 24):
        self.malformed.append((w.clock.now, conn.cid, 'bad length %d' % n))
        conn.rx = b''
        return
      if len(conn.rx) < 4 + n:
        break
      inner = conn.rx[4:4 + n]
      conn.rx = conn.rx[4 + n:]
      wseq, wtime = V.write_start(conn, conn.consumed)
      conn.consumed += 4 + n
      mtype, = unpack('!b', inner[:1])
      tag = int.from_bytes(inner[1:4], 'big')
      body = inner[4:]
      self.frames.append((w.clock.now, conn.cid, mtype, tag, len(body)))
      if mtype == T_PING:
        self.pings += 1
        ok = self.ping if isinstance(self.ping, bool) else self.pings <= self.ping
        if ok:
          conn.send(mux_frame(R_PING, tag, b''))
      elif mtype == T_DISCARDED:
        named = int.from_bytes(body[:3], 'big') if len(body) >= 3 else None
        self.discards.append({'time': w.clock.now, 'conn': conn.cid, 'named': named, 'frame_tag': tag,
                              'seq': w.next_seq() if hasattr(w, 'next_seq') else None,
                              'why': body[3:].decode('utf-8', 'replace')})
      elif mtype == T_DISPATCH:
        try:
          ctx, payload = parse_contexts(body)
          name, _mt, seq, arg = decode_call(payload)
        except Exception as e:
          self.malformed.append((w.clock.now, conn.cid, repr(e)))
          continue
        rec = {'time': w.clock.now, 'conn': conn.cid, 'port': self.port, 'arg': arg, 'method': name, 'tseq': seq,
               'seq': w.next_seq() if hasattr(w, 'next_seq') else None, 'wseq': wseq, 'wtime': wtime, 'tag': tag, 'ctx': [(k.decode('utf-8', 'replace'), v.hex()) for k, v in ctx]}
        self.requests.append(rec)
        act = self.action_for(arg, len(self.requests) - 1)
        self._do(conn, act, name, seq, arg, tag)
      else:
        self.malformed.append((w.clock.now, conn.cid, 'unexpected type %d' % mtype))

  def _do(self, conn, act, name, seq, arg, tag):
    a = act.get('act', 'reply')
    delay = act.get('delay', 0)
    if a == 'drop':
      return
    if a == 'close':
      return self.later(delay, conn.close)
    if a == 'reset':
      return self.later(delay, conn.reset)
    if a == 'garbage':
      return self.later(delay, lambda: conn.send(mux_frame(R_DISPATCH, tag, b'\x00')))
    if a == 'rerr':
      return self.later(delay, lambda: conn.send(mux_frame(R_ERR, tag, b'server says no')))
    if a == 'exc':
      body = pack('!bh', 0, 0) + encode_reply(name, seq, app_exc='boom:' + arg)
    elif a == 'null':
      body = pack('!bh', 0, 0) + encode_reply(name, seq, value=None)
    else:
      body = pack('!bh', 0, 0) + encode_reply(name, seq, value=echo(arg))
    frame = mux_frame(R_DISPATCH, tag, body)

    def send():
      self.note_reply(conn, arg, tag)
      conn.send(frame)
      if a == 'dup':
        conn.send(frame)
      if a == 'bogus':
        conn.send(mux_frame(R_DISPATCH, act.get('bogus_tag', 1), body))
    self.later(delay, send)
