"""Full-stack scenario runner on the simulation world (used by C01, C02, C09, C12).

A scenario spec (JSON-serialisable) describes: the stack (Thrift.NewBuilder / ThriftMux.NewBuilder as
shipped, i.e. timeout sink -> serializer -> aperture balancer -> resurrector -> [watermark pool] ->
transport), scripted endpoints, a list of timed events (calls, joins/leaves, close) in ticks of
1/64 s, I/O fault injections, and the same-tick timer tie-break.  `run(spec)` returns a trace with
everything externally observable: what each caller saw and when, every byte sequence written to
every connection (decoded by the peer), discards, connect attempts, greenlet crashes, plus the
sink-stack events collected by class-level wrappers (used for the model labels only).

spec = {
  'stack': 'thrift' | 'mux', 'tie': 'fifo'|'lifo', 'timeout': <ticks>, 'open_timeout0': bool,
  'resurrector': {'initial': <sec>, 'max': <sec>},  'pool': {'min':, 'max':, 'maxq':},
  'endpoints': [{'port': int, 'reach': [[tick, 'up'|'down'|'hang'], ...], 'plan': {...}, 'default': {...}, 'ping': ..., 'connect_delay': ticks, 'send_delay': ticks,
                 'member': bool (in the initial server set, default True)}],
  'faults': [{'op': 'send'|'recv'|'connect', 'nth': int, 'what': 'exc'|'eof'|'refuse'|'hang', 'port': int|None}],
  'events': [{'at': tick, 'op': 'call', 'id': str, 'timeout': ticks|None} | {'at':, 'op': 'join'|'leave', 'port':} |
             {'at':, 'op': 'close'}],
  'horizon': <ticks>, 'seed': int }
"""
import itertools
import random
import socket as _socket

import gevent

from . import vworld as V
from . import peers as P
from .ifaces.hello import Hello

T0 = 1024.0


def ticks(t):
  """virtual time -> ticks since T0 (exact: everything is dyadic)."""
  x = (t - T0) / V.TICK
  r = round(x)
  return r if abs(x - r) < 1e-9 else x


class DynServerSet(object):
  """A server set provider the scenario can change at run time (joins / leaves)."""

  def __init__(self, members):
    self._members = list(members)
    self._on_join = None
    self._on_leave = None
    self.closed = False

  def Initialize(self, on_join, on_leave):
    self._on_join, self._on_leave = on_join, on_leave

  def Close(self):
    self.closed = True

  def GetServers(self):
    return list(self._members)

  @property
  def endpoint_name(self):
    return None

  def join(self, m):
    self._members.append(m)
    if self._on_join:
      gevent.spawn(self._on_join, m)

  def leave(self, m):
    self._members = [x for x in self._members if x is not m]
    if self._on_leave:
      gevent.spawn(self._on_leave, m)


def _reach_fn(reach):
  sched = sorted((a, b) for a, b in (reach or []))

  def f(now):
    t = ticks(now)
    st = 'up'
    for at, s in sched:
      if at <= t:
        st = s
    return {'up': True, 'down': False, 'hang': 'hang'}[st]
  return f


_HOOKS = {}


def _install_hooks():
  """Class-level wrappers recording sink-stack events into the active world's trace."""
  if _HOOKS:
    return
  import scales.sink as sk
  import scales.dispatch as dp

  def rec(*ev):
    w = V._CUR[0]
    if w is not None and hasattr(w, 'trace'):
      w.trace.append((ticks(w.clock.now),) + ev + (w.next_seq(),))

  def callid(msg):
    try:
      a = msg.args[0]
      return a.split('|')[0]
    except Exception:
      return None

  # buffers handed to the transport's socket wrapper (one call = one frame in the shipped transports), per connection
  import scales.varz as vz
  orig_sock_write = vz.VarzSocketWrapper.write

  def sock_write(self, buff):
    w = V._CUR[0]
    ent = None
    if w is not None and hasattr(w, 'sockwrites'):
      try:
        g = self._socket.handle
        ent = [g.port, g._conn.cid if g._conn is not None else None, bytes(buff), False]
        w.sockwrites.append(ent)
      except Exception:
        ent = None
    r = orig_sock_write(self, buff)
    if ent is not None:
      # the call returned normally: the caller may assume the whole buffer is on its way (unless the peer is gone)
      try:
        ent[3] = not g._conn.closed_by_peer
      except Exception:
        pass
    return r
  vz.VarzSocketWrapper.write = sock_write

  orig_req = sk.ClientTimeoutSink.AsyncProcessRequest

  def ts_req(self, sink_stack, msg, stream, headers):
    w = V._CUR[0]
    cid = callid(msg)
    if w is not None and hasattr(w, 'stack_of'):
      w.stack_of[id(sink_stack)] = cid
      w.keep.append(sink_stack)
      dl = msg.properties.get('__Deadline')
      rec('tsink', cid, None if dl is None else ticks(dl))
    return orig_req(self, sink_stack, msg, stream, headers)
  sk.ClientTimeoutSink.AsyncProcessRequest = ts_req

  orig_push = sk.SinkStack.Push

  def st_push(self, sink, context=None):
    w = V._CUR[0]
    if w is not None and hasattr(w, 'stack_of') and id(self) in w.stack_of:
      rec('push', w.stack_of.get(id(self)), type(sink).__name__)
    return orig_push(self, sink, context)
  sk.SinkStack.Push = st_push

  orig_th = sk.ClientTimeoutSink._TimeoutHelper

  def ts_th(self, evt, sink_stack):
    w = V._CUR[0]
    rec('timer-fire', w.stack_of.get(id(sink_stack)) if w is not None and hasattr(w, 'stack_of') else None,
        evt is not None)
    return orig_th(self, evt, sink_stack)
  sk.ClientTimeoutSink._TimeoutHelper = ts_th

  orig_resp = sk.ClientMessageSinkStack.AsyncProcessResponse
  in_resp = [0]

  def st_resp(self, stream, msg):
    w = V._CUR[0]
    if w is not None and hasattr(w, 'stack_of'):
      top = type(self._stack[-1][0]).__name__ if self._stack else None
      kind = 'stream' if msg is None else (type(getattr(msg, 'error', None)).__name__ if getattr(msg, 'error', None) is not None else 'value')
      rec('resp', w.stack_of.get(id(self)), len(self._stack), top, kind)
    # the Pop() done by AsyncProcessResponse itself is part of the 'resp' event: expect exactly one
    in_resp[0] = id(self)
    try:
      return orig_resp(self, stream, msg)
    finally:
      if in_resp[0] == id(self):
        in_resp[0] = 0
  sk.ClientMessageSinkStack.AsyncProcessResponse = st_resp

  orig_pop = sk.SinkStack.Pop

  def st_pop(self):
    w = V._CUR[0]
    if in_resp[0] == id(self):
      in_resp[0] = 0
    elif w is not None and hasattr(w, 'stack_of') and id(self) in w.stack_of:
      top = type(self._stack[-1][0]).__name__ if self._stack else None
      rec('rawpop', w.stack_of.get(id(self)), top)
    return orig_pop(self)
  sk.SinkStack.Pop = st_pop

  orig_done = dp._AsyncResponseSink.AsyncProcessResponse

  def rs_done(self, sink_stack, context, stream, msg):
    w = V._CUR[0]
    if w is not None and hasattr(w, 'stack_of'):
      err = getattr(msg, 'error', None)
      rec('complete', w.stack_of.get(id(sink_stack)), type(err).__name__ if err is not None else 'value')
    return orig_done(self, sink_stack, context, stream, msg)
  dp._AsyncResponseSink.AsyncProcessResponse = rs_done
  # the exact moment the caller-visible result of a call is set (the AsyncResult handed out by the dispatcher)
  import scales.asynchronous as sa
  orig_set = sa.AsyncResult.set
  orig_sete = sa.AsyncResult.set_exception

  def ar_set(self, value=None):
    w = V._CUR[0]
    if w is not None and hasattr(w, 'ar_of') and id(self) in w.ar_of:
      rec('caller-set', w.ar_of[id(self)], 'value')
    return orig_set(self, value)

  def ar_sete(self, exception, exc_info=None):
    w = V._CUR[0]
    if w is not None and hasattr(w, 'ar_of') and id(self) in w.ar_of:
      inner = getattr(exception, 'inner_exception', None)
      rec('caller-set', w.ar_of[id(self)], type(inner if inner is not None else exception).__name__)
    return orig_sete(self, exception, exc_info) if exc_info is not None else orig_sete(self, exception)
  sa.AsyncResult.set = ar_set
  sa.AsyncResult.set_exception = ar_sete

  import scales.thrift.sink as ts
  import scales.mux.sink as ms
  orig_ser = ts.SocketTransportSink.AsyncProcessRequest

  def ser_req(self, sink_stack, msg, stream, headers):
    busy = self._processing is not None
    r = orig_ser(self, sink_stack, msg, stream, headers)
    cid = callid(msg)
    if cid is not None:
      rec('to-serial', cid, not busy)
    return r
  ts.SocketTransportSink.AsyncProcessRequest = ser_req
  orig_mux = ms.MuxSocketTransportSink.AsyncProcessRequest

  def mux_req(self, sink_stack, msg, stream, headers):
    cid = callid(msg)
    before = msg.properties.get('__Tag') if cid is not None else None
    r = orig_mux(self, sink_stack, msg, stream, headers)
    if cid is not None:
      tag = msg.properties.get('__Tag')
      rec('to-sendq', cid, tag if tag != before or tag else None)
    return r
  ms.MuxSocketTransportSink.AsyncProcessRequest = mux_req
  tag_owner = {}
  _HOOKS['tag_owner'] = tag_owner
  orig_mux2 = ms.MuxSocketTransportSink.AsyncProcessRequest

  def mux_req2(self, sink_stack, msg, stream, headers):
    r = orig_mux2(self, sink_stack, msg, stream, headers)
    cid = callid(msg)
    tag = msg.properties.get('__Tag') if cid is not None else None
    if tag:
      tag_owner[(id(self), tag)] = cid
    return r
  ms.MuxSocketTransportSink.AsyncProcessRequest = mux_req2
  orig_tr = ms.MuxSocketTransportSink._ProcessTaggedReply

  def tagged_reply(self, tag, stream):
    tup = getattr(self, '_tag_map', {}).get(tag)
    if tup is not None:
      w = V._CUR[0]
      # the recipient is the call whose sink stack the transport itself has bound to this tag
      owner = w.stack_of.get(id(tup[0])) if (w is not None and hasattr(w, 'stack_of')) else None
      rec('answered', owner, tag)
    return orig_tr(self, tag, stream)
  ms.MuxSocketTransportSink._ProcessTaggedReply = tagged_reply
  import scales.thriftmux.sink as tms
  orig_ot = tms.SocketTransportSink._OnTimeout

  def on_timeout(self, tag):
    if tag:
      rec('notify', tag_owner.get((id(self), tag)), tag)
    return orig_ot(self, tag)
  tms.SocketTransportSink._OnTimeout = on_timeout
  _HOOKS['ok'] = True


def call_events(spec):
  """Every call event of a scenario, including follow-up calls chained behind another call ('then')."""
  out = []
  for e in spec.get('events', []):
    while e is not None and e.get('op') == 'call':
      out.append(e)
      e = e.get('then')
  return out


def outcome_kind(ar):
  """Canonical outcome of a completed call result."""
  if ar.successful():
    return 'value', ar.value
  e = ar.exception
  inner = getattr(e, 'inner_exception', None)
  name = type(inner).__name__ if inner is not None else type(e).__name__
  return name, str(inner if inner is not None else e)[:120]


def run(spec):
  rng = random.Random(spec.get('seed', 0))
  w = V.World(rng, t0=T0, tie=spec.get('tie', 'fifo'), resolution=spec.get('resolution', 1) * V.TICK)
  w.trace = []
  w.next_seq = itertools.count(1).__next__
  w.stack_of = {}
  w.ar_of = {}
  w.keep = []
  w.sockwrites = []
  if spec.get('ping_ticks'):
    # the thriftmux ping loop sleeps random.randint(30, 40) seconds: script it to a few ticks so that keep-alive pings
    # fall inside the run (and inside slow writes)
    pt = list(spec['ping_ticks'])
    w.rand_hook = lambda kind, a, b: (rng.choice(pt) * V.TICK) if (kind, a, b) == ('randint', 30, 40) else rng.randint(a, b)
  _install_hooks()
  try:
    return _run(spec, w)
  finally:
    w.close()


def _run(spec, w):
  from scales.core import ScalesUriParser
  from scales.loadbalancer.zookeeper import Endpoint
  stack = spec['stack']
  servers = {}
  members = {}
  for ep in spec['endpoints']:
    cls = P.ThriftServer if stack == 'thrift' else P.MuxServer
    kw = {}
    if stack == 'mux':
      kw['ping'] = ep.get('ping', True)
    srv = cls(ep['port'], reachable=_reach_fn(ep.get('reach')), plan=ep.get('plan'), default=ep.get('default'), **kw)
    srv.connect_delay = ep.get('connect_delay', 0)
    srv.send_delay = ep.get('send_delay', 0)
    w.add_server(srv)
    servers[ep['port']] = srv
    members[ep['port']] = ScalesUriParser.Server(Endpoint('h', ep['port']))
  for f in spec.get('faults', []):
    what = {'exc': _socket.error(104, 'injected fault'), 'eof': 'eof', 'refuse': False, 'hang': 'hang'}[f['what']]
    if f['op'] != 'recv' and what == 'eof':
      what = _socket.error(32, 'injected EPIPE')
    w.add_fault(f['op'], f['nth'], what, f.get('port'))
  providers = []
  timeout_s = spec.get('timeout', 64) * V.TICK

  def make_builder():
    provider = DynServerSet([members[ep['port']] for ep in spec['endpoints'] if ep.get('member', True)])
    providers.append(provider)
    return _make_builder(spec, stack, provider, timeout_s)
  b = make_builder()

  calls = {}
  built = {}

  def build():
    built['c'] = b.Build()
    if spec.get('twin'):
      # a second, identically configured client in the same process (instances must not share state)
      built['c2'] = make_builder().Build()
  # Build blocks on evt.wait(open_timeout) -> run it in a greenlet and drive the clock meanwhile
  g = gevent.spawn(build)
  w.greenlets.append(g)
  w.settle()
  limit = T0 + spec.get('open_limit', 64 * 40) * V.TICK
  w.run_until(lambda: ('c' in built and (not spec.get('twin') or 'c2' in built)) or g.dead, limit)
  return _drive(spec, w, servers, members, providers, built, calls)


def _make_builder(spec, stack, provider, timeout_s):
  if stack == 'thrift':
    from scales.thrift.builder import Thrift
    from scales.resurrector import ResurrectorSink
    from scales.pool import WatermarkPoolSink
    b = Thrift.NewBuilder(Hello.Iface)
    if 'pool' in spec:
      pl = spec['pool']
      b.ReplaceSink(type(WatermarkPoolSink.Builder()), WatermarkPoolSink.Builder(
          min_watermark=pl.get('min', 1), max_watermark=pl.get('max', 2 ** 31), max_queue_len=pl.get('maxq', 2 ** 31)))
  else:
    from scales.thriftmux.builder import ThriftMux
    from scales.resurrector import ResurrectorSink
    b = ThriftMux.NewBuilder(Hello.Iface, client_id=spec.get('client_id', 'cid'))
  if 'resurrector' in spec:
    rs = spec['resurrector']
    b.ReplaceSink(type(ResurrectorSink.Builder()), ResurrectorSink.Builder(
        initial_wait_interval=rs.get('initial', 5), max_wait_interval=rs.get('max', 60)))
  b.SetUri('tcp://h:%d' % spec['endpoints'][0]['port'])
  b.SetServerSetProvider(provider)
  b.SetTimeout(timeout_s)
  if spec.get('open_timeout0'):
    b.SetOpenTimeout(0)
  else:
    b.SetOpenTimeout(None)
  return b


def _drive(spec, w, servers, members, providers, built, calls):
  stack = spec['stack']
  trace = {'calls': calls, 'open_done_at': ticks(w.clock.now) if 'c' in built else None}
  if 'c' not in built:
    trace['open_failed'] = True
  clients = [built.get('c'), built.get('c2')]
  t_base = w.clock.now
  trace['t_base'] = ticks(t_base)

  events = sorted(spec.get('events', []), key=lambda e: e['at'])
  closed_by = [[False], [False]]

  def do_event(e):
    op = e['op']
    ci = 1 if (e.get('client') == 1 and clients[1] is not None) else 0
    client = clients[ci]
    closed = closed_by[ci]
    if op == 'call':
      cid = e['id']
      rec = {'id': cid, 'issued': ticks(w.clock.now), 'timeout': e.get('timeout') or spec.get('timeout', 64),
             'done': []}
      calls[cid] = rec
      try:
        rec['opened'] = bool(client._dispatcher._open_ar.ready())
      except Exception:
        rec['opened'] = None
      if client is None:
        rec['issue_error'] = 'no client'
        return
      try:
        to = e.get('timeout')
        arg = cid + '|' + e.get('pad', '')
        if e.get('direct') and not closed[0]:
          # MessageDispatcher.StaticDispatchMessage (public static entry): the message goes down the sink chain at
          # once, also while the balancer is still opening (the dispatcher's own wait-for-open is bypassed)
          from scales.dispatch import MessageDispatcher
          from scales.message import MethodCallMessage
          tsec = (to or spec.get('timeout', 64)) * V.TICK
          msg = MethodCallMessage(Hello.Iface, 'hi', (arg,), {})
          if e.get('past'):
            # a deadline that has already passed when the message enters the chain (the request greenlet was starved)
            tsec = -e['past'] * V.TICK
            rec['timeout'] = -e['past']
          ar = MessageDispatcher.StaticDispatchMessage(client._dispatcher.next_sink, None, w.clock.now, w.clock.now + tsec, msg)
          rec['opened'] = True
          rec['direct'] = True
        elif to:
          ar = client._dispatcher.DispatchMethodCall('hi', (arg,), {}, timeout=to * V.TICK)
        else:
          ar = client.hi_async(arg)
      except Exception as ex:
        rec['issue_error'] = type(ex).__name__
        return

      def on_done(a, rec=rec):
        k, v = outcome_kind(a)
        rec['done'].append({'at': ticks(w.clock.now), 'kind': k, 'value': v, 'seq': w.next_seq()})
      w.ar_of[id(ar)] = cid
      w.keep.append(ar)
      ar.rawlink(on_done)
      rec['_ar'] = ar
      if e.get('then'):
        # a sequential caller: the follow-up call is issued by a greenlet the moment this one completes
        def chain(ar=ar, nxt=e['then']):
          try:
            ar.wait()
          except BaseException:
            pass
          do_event(nxt)
        cg = gevent.spawn(chain)
        w.greenlets.append(cg)
    elif op == 'join':
      for provider in providers:
        provider.join(members[e['port']])
    elif op == 'leave':
      for provider in providers:
        provider.leave(members[e['port']])
    elif op == 'close':
      if client is not None and not closed[0]:
        closed[0] = True
        client.DispatcherClose()
        trace['closed_at'] = ticks(w.clock.now)

  for e in events:
    w.advance_to(t_base + e['at'] * V.TICK)
    do_event(e)
    w.settle()
  w.advance_to(t_base + spec.get('horizon', 64 * 10) * V.TICK)

  for rec in calls.values():
    ar = rec.pop('_ar', None)
    if ar is not None:
      rec['final_ready'] = ar.ready()
      if ar.ready():
        k, v = outcome_kind(ar)
        rec['final'] = {'kind': k, 'value': v, 'has_value': ar.value is not None, 'has_exc': ar.exception is not None}
  trace['now'] = ticks(w.clock.now)
  trace['servers'] = {}
  for port, srv in servers.items():
    trace['servers'][str(port)] = {
        'requests': [{'at': ticks(r['time']), 'conn': r['conn'], 'id': r['arg'].split('|')[0], 'method': r['method'],
                      'tag': r.get('tag'), 'seq': r.get('seq'), 'arg': r['arg'],
                      'wseq': r.get('wseq') if r.get('wseq') is not None else r.get('seq'),
                      'wat': ticks(r['wtime']) if r.get('wtime') is not None else ticks(r['time'])} for r in srv.requests],
        'discards': [{'at': ticks(d['time']), 'conn': d['conn'], 'named': d['named'], 'frame_tag': d['frame_tag'],
                      'seq': d.get('seq')} for d in srv.discards],
        'replies': [{'at': ticks(r['time']), 'conn': r['conn'], 'id': r['id'], 'tag': r['tag'], 'seq': r['seq']} for r in srv.replies],
        'connects': [[ticks(t), str(o)] for t, o in srv.connect_log],
        'malformed': [str(m) for m in srv.malformed],
        'frames': [[ticks(t), c, ty, tg, ln] for t, c, ty, tg, ln in srv.frames],
    }
  if spec.get('want_streams'):
    # per connection: the buffers the client handed to the socket (in call order) and the bytes that reached the peer
    conns = []
    for port, srv in servers.items():
      for c in srv.conns:
        conns.append({'port': port, 'cid': c.cid,
                      'writes': [list(e[2]) for e in w.sockwrites if e[0] == port and e[1] == c.cid],
                      'returned': [bool(e[3]) for e in w.sockwrites if e[0] == port and e[1] == c.cid],
                      'stream': list(c.stream), 'closed': bool(c.closed_by_client or c.closed_by_peer)})
    trace['conns'] = conns
  trace['crashes'] = list(w.crashes)
  trace['events'] = [list(x) for x in w.trace]
  trace['netlog'] = [[ticks(x[0])] + [str(y) for y in x[1:]] for x in w.log]
  trace['closes'] = [[ticks(t), port, cid, sq] for (t, port, cid, sq) in getattr(w, 'closes', [])]
  for ci in (0, 1):
    if clients[ci] is not None and not closed_by[ci][0]:
      try:
        clients[ci].DispatcherClose()
      except Exception:
        pass
  return trace
