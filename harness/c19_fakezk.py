"""In-process fake of a Kazoo client, sufficient for the real kazoo.recipe.watchers.DataWatch and
ChildrenWatch (and therefore for scales.loadbalancer.zookeeper.ServerSet) to run on it unmodified.

What it simulates (ZooKeeper/Kazoo semantics the recipes rely on):
  * one watched directory `path` (present or absent, with an mzxid that changes on every creation
    or data change) and its children (name -> data);
  * one-shot watches: `get`/`exists` on the directory register a data watcher (`get` only when the
    node exists, `exists` always), `get_children` registers a child watcher only on success;
    watchers of a path form a *set* (Kazoo keeps `set`s; a DataWatch re-registers an equal bound
    method, two ChildrenWatch instances are two watchers);
  * a mutation moves the triggered watchers to the FIFO `pending` list (Kazoo dispatches watch
    callbacks to one sequential callback worker); on deletion of the directory its data watchers
    are queued before its child watchers (kazoo.protocol.connection._read_watch_event);
  * nothing runs until the harness calls `deliver()`: the callback then executes in the calling
    greenlet and reads the tree *as it is at that moment*;
  * a `get` of a child issued by any greenlet other than the harness greenlet (ServerSet's
    notification worker) parks until the harness calls `release()`; the answer (data or
    NoNodeError) is taken from the tree at release time.  With `sync_reads` (or while `inline` is
    raised by the harness around a re-entrant call) the read completes inside the call instead.

No network, no threads, no timers.  The harness greenlet never yields inside a mutation or a
delivery, so the schedule is exactly the sequence of harness calls.
"""
import gevent
from gevent.event import Event
from gevent.lock import RLock
from kazoo.client import KazooClient
from kazoo.exceptions import NoNodeError
from kazoo.protocol.states import WatchedEvent, ZnodeStat
from kazoo.retry import KazooRetry


class FakeHandler(object):
  def __init__(self, owner):
    self._owner = owner

  def lock_object(self):
    return RLock()

  def sleep_func(self, n):
    gevent.sleep(0)

  def spawn(self, fn, *a, **k):
    self._owner.spawned += 1
    return gevent.spawn(fn, *a, **k)


class FakeZk(KazooClient):
  def __init__(self, path):          # deliberately does NOT call KazooClient.__init__
    self.handler = FakeHandler(self)
    self.retry = KazooRetry(max_tries=0, sleep_func=self.handler.sleep_func)
    self.path = path
    self.parent = False
    self.pz = 0                       # mzxid of the directory
    self.zx = 0
    self.children = {}                # name -> bytes
    self.data_watchers = []           # set semantics (==)
    self.child_watchers = []
    self.pending = []                 # [(kind, watcher, event)] FIFO; kind 'data' | 'children'
    self.owner = gevent.getcurrent()  # the harness greenlet
    self.parked = None                # (name, Event) of the worker's in-flight read
    self.sync_reads = False           # True: every read completes inside the call (a zk.get that does not yield)
    self.inline = 0                   # >0: reads issued right now complete inside the call (re-entrant get_members)
    self.read_log = []                # [(name, found)] answered reads of the notification worker
    self.spawned = 0
    self._listeners = []

  # --- the part of the KazooClient interface the recipes and ServerSet use ----------------------
  @property
  def connected(self):
    return True

  def add_listener(self, l):
    self._listeners.append(l)

  def remove_listener(self, l):
    pass

  def _stat(self, mz, n):
    return ZnodeStat(mz, mz, 0, 0, 0, 0, 0, 0, n, 0, mz)

  @staticmethod
  def _reg(table, w):
    if w is not None and w not in table:
      table.append(w)

  def exists(self, path, watch=None):
    if path != self.path:
      raise AssertionError('exists(%r) not simulated' % path)
    self._reg(self.data_watchers, watch)
    return self._stat(self.pz, 0) if self.parent else None

  def get(self, path, watch=None):
    if path == self.path:
      if not self.parent:
        raise NoNodeError()
      self._reg(self.data_watchers, watch)
      return b'', self._stat(self.pz, 0)
    pre = self.path.rstrip('/') + '/'
    if not path.startswith(pre) or watch is not None:
      raise AssertionError('get(%r) not simulated' % path)
    name = path[len(pre):]
    if gevent.getcurrent() is not self.owner and not self.sync_reads and not self.inline:
      if self.parked is not None:
        raise AssertionError('two reads in flight')
      ev = Event()
      self.parked = (name, ev)
      ev.wait()
    found = self.parent and name in self.children
    if gevent.getcurrent() is not self.owner and not self.inline:
      self.read_log.append((name, found))           # reads of the notification worker only
    if not found:
      raise NoNodeError()
    return self.children[name], self._stat(1, len(self.children[name]))

  def get_children(self, path, watch=None):
    if path != self.path:
      raise AssertionError('get_children(%r) not simulated' % path)
    if not self.parent:
      raise NoNodeError()
    self._reg(self.child_watchers, watch)
    return sorted(self.children)

  # --- mutations (called by the harness; never yield) --------------------------------------------
  def _fire(self, table, kind, typ):
    ws = list(table)
    del table[:]
    for w in ws:
      self.pending.append((kind, w, WatchedEvent(typ, 'CONNECTED', self.path)))

  def create_parent(self):
    if self.parent:
      return False
    self.zx += 1
    self.parent, self.pz = True, self.zx
    self._fire(self.data_watchers, 'data', 'CREATED')
    return True

  def touch_parent(self):
    if not self.parent:
      return False
    self.zx += 1
    self.pz = self.zx
    self._fire(self.data_watchers, 'data', 'CHANGED')
    return True

  def create(self, name, data):
    if not self.parent or name in self.children:
      return False
    self.children[name] = data
    self._fire(self.child_watchers, 'children', 'CHILD')
    return True

  def delete(self, name):
    if not self.parent or name not in self.children:
      return False
    del self.children[name]
    self._fire(self.child_watchers, 'children', 'CHILD')
    return True

  def delete_parent(self):
    """Recursive delete: children first (a directory with children cannot be deleted)."""
    if not self.parent:
      return False
    for n in sorted(self.children):
      self.delete(n)
    self.parent = False
    self._fire(self.data_watchers, 'data', 'DELETED')
    self._fire(self.child_watchers, 'children', 'DELETED')
    return True

  # --- schedule control --------------------------------------------------------------------------
  def deliver(self):
    """Runs the oldest pending watch callback in the calling greenlet.
    Returns (kind, exception-or-None), or None when nothing is pending."""
    if not self.pending:
      return None
    kind, w, ev = self.pending.pop(0)
    try:
      w(ev)
    except Exception as e:        # what Kazoo's callback worker would log
      return kind, e
    return kind, None

  def release(self):
    """Answers the worker's in-flight read (from the tree as it is now)."""
    if self.parked is None:
      return None
    name, ev = self.parked
    self.parked = None
    ev.set()
    return name
