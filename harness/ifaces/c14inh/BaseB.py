#
# Hand-written in the style of the Thrift Compiler's `py` generator (no compiler is installed);
# layout and statements follow the compiler output for the IDL below (cf. ../hello/Hello.py, real 0.13.0 output).
#
#   service BaseB {
#     void ping(1: i32 n),
#     i32 name(1: bool loud),
#   }
#
#  options string: py
#

from thrift.Thrift import TType, TMessageType, TFrozenDict, TException, TApplicationException
from thrift.protocol.TProtocol import TProtocolException
from thrift.TRecursive import fix_spec

import sys
import logging
from .ttypes import *
from thrift.Thrift import TProcessor
from thrift.transport import TTransport
all_structs = []


class Iface(object):
    def ping(self, n):
        """
        Parameters:
         - n

        """
        pass

    def name(self, loud):
        """
        Parameters:
         - loud

        """
        pass


class Client(Iface):
    def __init__(self, iprot, oprot=None):
        self._iprot = self._oprot = iprot
        if oprot is not None:
            self._oprot = oprot
        self._seqid = 0

    def ping(self, n):
        """
        Parameters:
         - n

        """
        self.send_ping(n)
        self.recv_ping()

    def send_ping(self, n):
        self._oprot.writeMessageBegin('ping', TMessageType.CALL, self._seqid)
        args = ping_args()
        args.n = n
        args.write(self._oprot)
        self._oprot.writeMessageEnd()
        self._oprot.trans.flush()

    def recv_ping(self):
        iprot = self._iprot
        (fname, mtype, rseqid) = iprot.readMessageBegin()
        if mtype == TMessageType.EXCEPTION:
            x = TApplicationException()
            x.read(iprot)
            iprot.readMessageEnd()
            raise x
        result = ping_result()
        result.read(iprot)
        iprot.readMessageEnd()
        return

    def name(self, loud):
        """
        Parameters:
         - loud

        """
        self.send_name(loud)
        return self.recv_name()

    def send_name(self, loud):
        self._oprot.writeMessageBegin('name', TMessageType.CALL, self._seqid)
        args = name_args()
        args.loud = loud
        args.write(self._oprot)
        self._oprot.writeMessageEnd()
        self._oprot.trans.flush()

    def recv_name(self):
        iprot = self._iprot
        (fname, mtype, rseqid) = iprot.readMessageBegin()
        if mtype == TMessageType.EXCEPTION:
            x = TApplicationException()
            x.read(iprot)
            iprot.readMessageEnd()
            raise x
        result = name_result()
        result.read(iprot)
        iprot.readMessageEnd()
        if result.success is not None:
            return result.success
        raise TApplicationException(TApplicationException.MISSING_RESULT, "name failed: unknown result")


class Processor(Iface, TProcessor):
    def __init__(self, handler):
        self._handler = handler
        self._processMap = {}
        self._processMap["ping"] = Processor.process_ping
        self._processMap["name"] = Processor.process_name
        self._on_message_begin = None

    def on_message_begin(self, func):
        self._on_message_begin = func

    def process(self, iprot, oprot):
        (name, type, seqid) = iprot.readMessageBegin()
        if self._on_message_begin:
            self._on_message_begin(name, type, seqid)
        if name not in self._processMap:
            iprot.skip(TType.STRUCT)
            iprot.readMessageEnd()
            x = TApplicationException(TApplicationException.UNKNOWN_METHOD, 'Unknown function %s' % (name))
            oprot.writeMessageBegin(name, TMessageType.EXCEPTION, seqid)
            x.write(oprot)
            oprot.writeMessageEnd()
            oprot.trans.flush()
            return
        else:
            self._processMap[name](self, seqid, iprot, oprot)
        return True

    def process_ping(self, seqid, iprot, oprot):
        args = ping_args()
        args.read(iprot)
        iprot.readMessageEnd()
        result = ping_result()
        try:
            self._handler.ping(args.n)
            msg_type = TMessageType.REPLY
        except TTransport.TTransportException:
            raise
        except TApplicationException as ex:
            logging.exception('TApplication exception in handler')
            msg_type = TMessageType.EXCEPTION
            result = ex
        except Exception:
            logging.exception('Unexpected exception in handler')
            msg_type = TMessageType.EXCEPTION
            result = TApplicationException(TApplicationException.INTERNAL_ERROR, 'Internal error')
        oprot.writeMessageBegin("ping", msg_type, seqid)
        result.write(oprot)
        oprot.writeMessageEnd()
        oprot.trans.flush()

    def process_name(self, seqid, iprot, oprot):
        args = name_args()
        args.read(iprot)
        iprot.readMessageEnd()
        result = name_result()
        try:
            result.success = self._handler.name(args.loud)
            msg_type = TMessageType.REPLY
        except TTransport.TTransportException:
            raise
        except TApplicationException as ex:
            logging.exception('TApplication exception in handler')
            msg_type = TMessageType.EXCEPTION
            result = ex
        except Exception:
            logging.exception('Unexpected exception in handler')
            msg_type = TMessageType.EXCEPTION
            result = TApplicationException(TApplicationException.INTERNAL_ERROR, 'Internal error')
        oprot.writeMessageBegin("name", msg_type, seqid)
        result.write(oprot)
        oprot.writeMessageEnd()
        oprot.trans.flush()

# HELPER FUNCTIONS AND STRUCTURES


class ping_args(object):
    """
    Attributes:
     - n

    """


    def __init__(self, n=None,):
        self.n = n

    def read(self, iprot):
        if iprot._fast_decode is not None and isinstance(iprot.trans, TTransport.CReadableTransport) and self.thrift_spec is not None:
            iprot._fast_decode(self, iprot, [self.__class__, self.thrift_spec])
            return
        iprot.readStructBegin()
        while True:
            (fname, ftype, fid) = iprot.readFieldBegin()
            if ftype == TType.STOP:
                break
            if fid == 1:
                if ftype == TType.I32:
                    self.n = iprot.readI32()
                else:
                    iprot.skip(ftype)
            else:
                iprot.skip(ftype)
            iprot.readFieldEnd()
        iprot.readStructEnd()

    def write(self, oprot):
        if oprot._fast_encode is not None and self.thrift_spec is not None:
            oprot.trans.write(oprot._fast_encode(self, [self.__class__, self.thrift_spec]))
            return
        oprot.writeStructBegin('ping_args')
        if self.n is not None:
            oprot.writeFieldBegin('n', TType.I32, 1)
            oprot.writeI32(self.n)
            oprot.writeFieldEnd()
        oprot.writeFieldStop()
        oprot.writeStructEnd()

    def validate(self):
        return

    def __repr__(self):
        L = ['%s=%r' % (key, value)
             for key, value in self.__dict__.items()]
        return '%s(%s)' % (self.__class__.__name__, ', '.join(L))

    def __eq__(self, other):
        return isinstance(other, self.__class__) and self.__dict__ == other.__dict__

    def __ne__(self, other):
        return not (self == other)
all_structs.append(ping_args)
ping_args.thrift_spec = (
    None,  # 0
    (1, TType.I32, 'n', None, None, ),  # 1
)


class ping_result(object):


    def read(self, iprot):
        if iprot._fast_decode is not None and isinstance(iprot.trans, TTransport.CReadableTransport) and self.thrift_spec is not None:
            iprot._fast_decode(self, iprot, [self.__class__, self.thrift_spec])
            return
        iprot.readStructBegin()
        while True:
            (fname, ftype, fid) = iprot.readFieldBegin()
            if ftype == TType.STOP:
                break
            else:
                iprot.skip(ftype)
            iprot.readFieldEnd()
        iprot.readStructEnd()

    def write(self, oprot):
        if oprot._fast_encode is not None and self.thrift_spec is not None:
            oprot.trans.write(oprot._fast_encode(self, [self.__class__, self.thrift_spec]))
            return
        oprot.writeStructBegin('ping_result')
        oprot.writeFieldStop()
        oprot.writeStructEnd()

    def validate(self):
        return

    def __repr__(self):
        L = ['%s=%r' % (key, value)
             for key, value in self.__dict__.items()]
        return '%s(%s)' % (self.__class__.__name__, ', '.join(L))

    def __eq__(self, other):
        return isinstance(other, self.__class__) and self.__dict__ == other.__dict__

    def __ne__(self, other):
        return not (self == other)
all_structs.append(ping_result)
ping_result.thrift_spec = (
)


class name_args(object):
    """
    Attributes:
     - loud

    """


    def __init__(self, loud=None,):
        self.loud = loud

    def read(self, iprot):
        if iprot._fast_decode is not None and isinstance(iprot.trans, TTransport.CReadableTransport) and self.thrift_spec is not None:
            iprot._fast_decode(self, iprot, [self.__class__, self.thrift_spec])
            return
        iprot.readStructBegin()
        while True:
            (fname, ftype, fid) = iprot.readFieldBegin()
            if ftype == TType.STOP:
                break
            if fid == 1:
                if ftype == TType.BOOL:
                    self.loud = iprot.readBool()
                else:
                    iprot.skip(ftype)
            else:
                iprot.skip(ftype)
            iprot.readFieldEnd()
        iprot.readStructEnd()

    def write(self, oprot):
        if oprot._fast_encode is not None and self.thrift_spec is not None:
            oprot.trans.write(oprot._fast_encode(self, [self.__class__, self.thrift_spec]))
            return
        oprot.writeStructBegin('name_args')
        if self.loud is not None:
            oprot.writeFieldBegin('loud', TType.BOOL, 1)
            oprot.writeBool(self.loud)
            oprot.writeFieldEnd()
        oprot.writeFieldStop()
        oprot.writeStructEnd()

    def validate(self):
        return

    def __repr__(self):
        L = ['%s=%r' % (key, value)
             for key, value in self.__dict__.items()]
        return '%s(%s)' % (self.__class__.__name__, ', '.join(L))

    def __eq__(self, other):
        return isinstance(other, self.__class__) and self.__dict__ == other.__dict__

    def __ne__(self, other):
        return not (self == other)
all_structs.append(name_args)
name_args.thrift_spec = (
    None,  # 0
    (1, TType.BOOL, 'loud', None, None, ),  # 1
)


class name_result(object):
    """
    Attributes:
     - success

    """


    def __init__(self, success=None,):
        self.success = success

    def read(self, iprot):
        if iprot._fast_decode is not None and isinstance(iprot.trans, TTransport.CReadableTransport) and self.thrift_spec is not None:
            iprot._fast_decode(self, iprot, [self.__class__, self.thrift_spec])
            return
        iprot.readStructBegin()
        while True:
            (fname, ftype, fid) = iprot.readFieldBegin()
            if ftype == TType.STOP:
                break
            if fid == 0:
                if ftype == TType.I32:
                    self.success = iprot.readI32()
                else:
                    iprot.skip(ftype)
            else:
                iprot.skip(ftype)
            iprot.readFieldEnd()
        iprot.readStructEnd()

    def write(self, oprot):
        if oprot._fast_encode is not None and self.thrift_spec is not None:
            oprot.trans.write(oprot._fast_encode(self, [self.__class__, self.thrift_spec]))
            return
        oprot.writeStructBegin('name_result')
        if self.success is not None:
            oprot.writeFieldBegin('success', TType.I32, 0)
            oprot.writeI32(self.success)
            oprot.writeFieldEnd()
        oprot.writeFieldStop()
        oprot.writeStructEnd()

    def validate(self):
        return

    def __repr__(self):
        L = ['%s=%r' % (key, value)
             for key, value in self.__dict__.items()]
        return '%s(%s)' % (self.__class__.__name__, ', '.join(L))

    def __eq__(self, other):
        return isinstance(other, self.__class__) and self.__dict__ == other.__dict__

    def __ne__(self, other):
        return not (self == other)
all_structs.append(name_result)
name_result.thrift_spec = (
    (0, TType.I32, 'success', None, None, ),  # 0
)
fix_spec(all_structs)
del all_structs
