#
# Hand-written in the style of the Thrift Compiler's `py` generator (no compiler is installed);
# layout and statements follow the compiler output for the IDL below (cf. ../hello/Hello.py, real 0.13.0 output).
#
#   service SvcB extends BaseB {
#     Item get(1: Item item, 2: i32 times) throws (1: Ouch ouch),
#     bool sum(1: i64 l, 2: i16 h),
#   }
#
#  options string: py
#

from thrift.Thrift import TType, TMessageType, TFrozenDict, TException, TApplicationException
from thrift.protocol.TProtocol import TProtocolException
from thrift.TRecursive import fix_spec

import sys
import harness.ifaces.c14inh.BaseB
import logging
from .ttypes import *
from thrift.Thrift import TProcessor
from thrift.transport import TTransport
all_structs = []


class Iface(harness.ifaces.c14inh.BaseB.Iface):
    def get(self, item, times):
        """
        Parameters:
         - item
         - times

        """
        pass

    def sum(self, l, h):
        """
        Parameters:
         - l
         - h

        """
        pass


class Client(harness.ifaces.c14inh.BaseB.Client, Iface):
    def __init__(self, iprot, oprot=None):
        harness.ifaces.c14inh.BaseB.Client.__init__(self, iprot, oprot)

    def get(self, item, times):
        """
        Parameters:
         - item
         - times

        """
        self.send_get(item, times)
        return self.recv_get()

    def send_get(self, item, times):
        self._oprot.writeMessageBegin('get', TMessageType.CALL, self._seqid)
        args = get_args()
        args.item = item
        args.times = times
        args.write(self._oprot)
        self._oprot.writeMessageEnd()
        self._oprot.trans.flush()

    def recv_get(self):
        iprot = self._iprot
        (fname, mtype, rseqid) = iprot.readMessageBegin()
        if mtype == TMessageType.EXCEPTION:
            x = TApplicationException()
            x.read(iprot)
            iprot.readMessageEnd()
            raise x
        result = get_result()
        result.read(iprot)
        iprot.readMessageEnd()
        if result.success is not None:
            return result.success
        if result.ouch is not None:
            raise result.ouch
        raise TApplicationException(TApplicationException.MISSING_RESULT, "get failed: unknown result")

    def sum(self, l, h):
        """
        Parameters:
         - l
         - h

        """
        self.send_sum(l, h)
        return self.recv_sum()

    def send_sum(self, l, h):
        self._oprot.writeMessageBegin('sum', TMessageType.CALL, self._seqid)
        args = sum_args()
        args.l = l
        args.h = h
        args.write(self._oprot)
        self._oprot.writeMessageEnd()
        self._oprot.trans.flush()

    def recv_sum(self):
        iprot = self._iprot
        (fname, mtype, rseqid) = iprot.readMessageBegin()
        if mtype == TMessageType.EXCEPTION:
            x = TApplicationException()
            x.read(iprot)
            iprot.readMessageEnd()
            raise x
        result = sum_result()
        result.read(iprot)
        iprot.readMessageEnd()
        if result.success is not None:
            return result.success
        raise TApplicationException(TApplicationException.MISSING_RESULT, "sum failed: unknown result")


class Processor(harness.ifaces.c14inh.BaseB.Processor, Iface, TProcessor):
    def __init__(self, handler):
        harness.ifaces.c14inh.BaseB.Processor.__init__(self, handler)
        self._processMap["get"] = Processor.process_get
        self._processMap["sum"] = Processor.process_sum
        self._on_message_begin = None

    def on_message_begin(self, func):
        self._on_message_begin = func

    def process(self, iprot, oprot):
        (name, type, seqid) = iprot.readMessageBegin()
        if self._on_message_begin:
            self._on_message_begin(name, type, seqid)
        if name not in self._processMap:
            iprot.skip(TType.STRUCT)
            iprot.readMessageEnd()
            x = TApplicationException(TApplicationException.UNKNOWN_METHOD, 'Unknown function %s' % (name))
            oprot.writeMessageBegin(name, TMessageType.EXCEPTION, seqid)
            x.write(oprot)
            oprot.writeMessageEnd()
            oprot.trans.flush()
            return
        else:
            self._processMap[name](self, seqid, iprot, oprot)
        return True

    def process_get(self, seqid, iprot, oprot):
        args = get_args()
        args.read(iprot)
        iprot.readMessageEnd()
        result = get_result()
        try:
            result.success = self._handler.get(args.item, args.times)
            msg_type = TMessageType.REPLY
        except TTransport.TTransportException:
            raise
        except Ouch as ouch:
            msg_type = TMessageType.REPLY
            result.ouch = ouch
        except TApplicationException as ex:
            logging.exception('TApplication exception in handler')
            msg_type = TMessageType.EXCEPTION
            result = ex
        except Exception:
            logging.exception('Unexpected exception in handler')
            msg_type = TMessageType.EXCEPTION
            result = TApplicationException(TApplicationException.INTERNAL_ERROR, 'Internal error')
        oprot.writeMessageBegin("get", msg_type, seqid)
        result.write(oprot)
        oprot.writeMessageEnd()
        oprot.trans.flush()

    def process_sum(self, seqid, iprot, oprot):
        args = sum_args()
        args.read(iprot)
        iprot.readMessageEnd()
        result = sum_result()
        try:
            result.success = self._handler.sum(args.l, args.h)
            msg_type = TMessageType.REPLY
        except TTransport.TTransportException:
            raise
        except TApplicationException as ex:
            logging.exception('TApplication exception in handler')
            msg_type = TMessageType.EXCEPTION
            result = ex
        except Exception:
            logging.exception('Unexpected exception in handler')
            msg_type = TMessageType.EXCEPTION
            result = TApplicationException(TApplicationException.INTERNAL_ERROR, 'Internal error')
        oprot.writeMessageBegin("sum", msg_type, seqid)
        result.write(oprot)
        oprot.writeMessageEnd()
        oprot.trans.flush()

# HELPER FUNCTIONS AND STRUCTURES


class get_args(object):
    """
    Attributes:
     - item
     - times

    """


    def __init__(self, item=None, times=None,):
        self.item = item
        self.times = times

    def read(self, iprot):
        if iprot._fast_decode is not None and isinstance(iprot.trans, TTransport.CReadableTransport) and self.thrift_spec is not None:
            iprot._fast_decode(self, iprot, [self.__class__, self.thrift_spec])
            return
        iprot.readStructBegin()
        while True:
            (fname, ftype, fid) = iprot.readFieldBegin()
            if ftype == TType.STOP:
                break
            if fid == 1:
                if ftype == TType.STRUCT:
                    self.item = Item()
                    self.item.read(iprot)
                else:
                    iprot.skip(ftype)
            elif fid == 2:
                if ftype == TType.I32:
                    self.times = iprot.readI32()
                else:
                    iprot.skip(ftype)
            else:
                iprot.skip(ftype)
            iprot.readFieldEnd()
        iprot.readStructEnd()

    def write(self, oprot):
        if oprot._fast_encode is not None and self.thrift_spec is not None:
            oprot.trans.write(oprot._fast_encode(self, [self.__class__, self.thrift_spec]))
            return
        oprot.writeStructBegin('get_args')
        if self.item is not None:
            oprot.writeFieldBegin('item', TType.STRUCT, 1)
            self.item.write(oprot)
            oprot.writeFieldEnd()
        if self.times is not None:
            oprot.writeFieldBegin('times', TType.I32, 2)
            oprot.writeI32(self.times)
            oprot.writeFieldEnd()
        oprot.writeFieldStop()
        oprot.writeStructEnd()

    def validate(self):
        return

    def __repr__(self):
        L = ['%s=%r' % (key, value)
             for key, value in self.__dict__.items()]
        return '%s(%s)' % (self.__class__.__name__, ', '.join(L))

    def __eq__(self, other):
        return isinstance(other, self.__class__) and self.__dict__ == other.__dict__

    def __ne__(self, other):
        return not (self == other)
all_structs.append(get_args)
get_args.thrift_spec = (
    None,  # 0
    (1, TType.STRUCT, 'item', [Item, None], None, ),  # 1
    (2, TType.I32, 'times', None, None, ),  # 2
)


class get_result(object):
    """
    Attributes:
     - success
     - ouch

    """


    def __init__(self, success=None, ouch=None,):
        self.success = success
        self.ouch = ouch

    def read(self, iprot):
        if iprot._fast_decode is not None and isinstance(iprot.trans, TTransport.CReadableTransport) and self.thrift_spec is not None:
            iprot._fast_decode(self, iprot, [self.__class__, self.thrift_spec])
            return
        iprot.readStructBegin()
        while True:
            (fname, ftype, fid) = iprot.readFieldBegin()
            if ftype == TType.STOP:
                break
            if fid == 0:
                if ftype == TType.STRUCT:
                    self.success = Item()
                    self.success.read(iprot)
                else:
                    iprot.skip(ftype)
            elif fid == 1:
                if ftype == TType.STRUCT:
                    self.ouch = Ouch()
                    self.ouch.read(iprot)
                else:
                    iprot.skip(ftype)
            else:
                iprot.skip(ftype)
            iprot.readFieldEnd()
        iprot.readStructEnd()

    def write(self, oprot):
        if oprot._fast_encode is not None and self.thrift_spec is not None:
            oprot.trans.write(oprot._fast_encode(self, [self.__class__, self.thrift_spec]))
            return
        oprot.writeStructBegin('get_result')
        if self.success is not None:
            oprot.writeFieldBegin('success', TType.STRUCT, 0)
            self.success.write(oprot)
            oprot.writeFieldEnd()
        if self.ouch is not None:
            oprot.writeFieldBegin('ouch', TType.STRUCT, 1)
            self.ouch.write(oprot)
            oprot.writeFieldEnd()
        oprot.writeFieldStop()
        oprot.writeStructEnd()

    def validate(self):
        return

    def __repr__(self):
        L = ['%s=%r' % (key, value)
             for key, value in self.__dict__.items()]
        return '%s(%s)' % (self.__class__.__name__, ', '.join(L))

    def __eq__(self, other):
        return isinstance(other, self.__class__) and self.__dict__ == other.__dict__

    def __ne__(self, other):
        return not (self == other)
all_structs.append(get_result)
get_result.thrift_spec = (
    (0, TType.STRUCT, 'success', [Item, None], None, ),  # 0
    (1, TType.STRUCT, 'ouch', [Ouch, None], None, ),  # 1
)


class sum_args(object):
    """
    Attributes:
     - l
     - h

    """


    def __init__(self, l=None, h=None,):
        self.l = l
        self.h = h

    def read(self, iprot):
        if iprot._fast_decode is not None and isinstance(iprot.trans, TTransport.CReadableTransport) and self.thrift_spec is not None:
            iprot._fast_decode(self, iprot, [self.__class__, self.thrift_spec])
            return
        iprot.readStructBegin()
        while True:
            (fname, ftype, fid) = iprot.readFieldBegin()
            if ftype == TType.STOP:
                break
            if fid == 1:
                if ftype == TType.I64:
                    self.l = iprot.readI64()
                else:
                    iprot.skip(ftype)
            elif fid == 2:
                if ftype == TType.I16:
                    self.h = iprot.readI16()
                else:
                    iprot.skip(ftype)
            else:
                iprot.skip(ftype)
            iprot.readFieldEnd()
        iprot.readStructEnd()

    def write(self, oprot):
        if oprot._fast_encode is not None and self.thrift_spec is not None:
            oprot.trans.write(oprot._fast_encode(self, [self.__class__, self.thrift_spec]))
            return
        oprot.writeStructBegin('sum_args')
        if self.l is not None:
            oprot.writeFieldBegin('l', TType.I64, 1)
            oprot.writeI64(self.l)
            oprot.writeFieldEnd()
        if self.h is not None:
            oprot.writeFieldBegin('h', TType.I16, 2)
            oprot.writeI16(self.h)
            oprot.writeFieldEnd()
        oprot.writeFieldStop()
        oprot.writeStructEnd()

    def validate(self):
        return

    def __repr__(self):
        L = ['%s=%r' % (key, value)
             for key, value in self.__dict__.items()]
        return '%s(%s)' % (self.__class__.__name__, ', '.join(L))

    def __eq__(self, other):
        return isinstance(other, self.__class__) and self.__dict__ == other.__dict__

    def __ne__(self, other):
        return not (self == other)
all_structs.append(sum_args)
sum_args.thrift_spec = (
    None,  # 0
    (1, TType.I64, 'l', None, None, ),  # 1
    (2, TType.I16, 'h', None, None, ),  # 2
)


class sum_result(object):
    """
    Attributes:
     - success

    """


    def __init__(self, success=None,):
        self.success = success

    def read(self, iprot):
        if iprot._fast_decode is not None and isinstance(iprot.trans, TTransport.CReadableTransport) and self.thrift_spec is not None:
            iprot._fast_decode(self, iprot, [self.__class__, self.thrift_spec])
            return
        iprot.readStructBegin()
        while True:
            (fname, ftype, fid) = iprot.readFieldBegin()
            if ftype == TType.STOP:
                break
            if fid == 0:
                if ftype == TType.BOOL:
                    self.success = iprot.readBool()
                else:
                    iprot.skip(ftype)
            else:
                iprot.skip(ftype)
            iprot.readFieldEnd()
        iprot.readStructEnd()

    def write(self, oprot):
        if oprot._fast_encode is not None and self.thrift_spec is not None:
            oprot.trans.write(oprot._fast_encode(self, [self.__class__, self.thrift_spec]))
            return
        oprot.writeStructBegin('sum_result')
        if self.success is not None:
            oprot.writeFieldBegin('success', TType.BOOL, 0)
            oprot.writeBool(self.success)
            oprot.writeFieldEnd()
        oprot.writeFieldStop()
        oprot.writeStructEnd()

    def validate(self):
        return

    def __repr__(self):
        L = ['%s=%r' % (key, value)
             for key, value in self.__dict__.items()]
        return '%s(%s)' % (self.__class__.__name__, ', '.join(L))

    def __eq__(self, other):
        return isinstance(other, self.__class__) and self.__dict__ == other.__dict__

    def __ne__(self, other):
        return not (self == other)
all_structs.append(sum_result)
sum_result.thrift_spec = (
    (0, TType.BOOL, 'success', None, None, ),  # 0
)
fix_spec(all_structs)
del all_structs
