#
# Hand-written in the style of the Thrift Compiler's `py` generator (no compiler is installed);
# layout and statements follow the compiler output for the IDL below (cf. ../hello/Hello.py, real 0.13.0 output).
#
#   service SvcA extends BaseA {
#     string get(1: string key),
#     i64 sum(1: list<i32> xs),
#   }
#
#  options string: py
#

from thrift.Thrift import TType, TMessageType, TFrozenDict, TException, TApplicationException
from thrift.protocol.TProtocol import TProtocolException
from thrift.TRecursive import fix_spec

import sys
import harness.ifaces.c14inh.BaseA
import logging
from .ttypes import *
from thrift.Thrift import TProcessor
from thrift.transport import TTransport
all_structs = []


class Iface(harness.ifaces.c14inh.BaseA.Iface):
    def get(self, key):
        """
        Parameters:
         - key

        """
        pass

    def sum(self, xs):
        """
        Parameters:
         - xs

        """
        pass


class Client(harness.ifaces.c14inh.BaseA.Client, Iface):
    def __init__(self, iprot, oprot=None):
        harness.ifaces.c14inh.BaseA.Client.__init__(self, iprot, oprot)

    def get(self, key):
        """
        Parameters:
         - key

        """
        self.send_get(key)
        return self.recv_get()

    def send_get(self, key):
        self._oprot.writeMessageBegin('get', TMessageType.CALL, self._seqid)
        args = get_args()
        args.key = key
        args.write(self._oprot)
        self._oprot.writeMessageEnd()
        self._oprot.trans.flush()

    def recv_get(self):
        iprot = self._iprot
        (fname, mtype, rseqid) = iprot.readMessageBegin()
        if mtype == TMessageType.EXCEPTION:
            x = TApplicationException()
            x.read(iprot)
            iprot.readMessageEnd()
            raise x
        result = get_result()
        result.read(iprot)
        iprot.readMessageEnd()
        if result.success is not None:
            return result.success
        raise TApplicationException(TApplicationException.MISSING_RESULT, "get failed: unknown result")

    def sum(self, xs):
        """
        Parameters:
         - xs

        """
        self.send_sum(xs)
        return self.recv_sum()

    def send_sum(self, xs):
        self._oprot.writeMessageBegin('sum', TMessageType.CALL, self._seqid)
        args = sum_args()
        args.xs = xs
        args.write(self._oprot)
        self._oprot.writeMessageEnd()
        self._oprot.trans.flush()

    def recv_sum(self):
        iprot = self._iprot
        (fname, mtype, rseqid) = iprot.readMessageBegin()
        if mtype == TMessageType.EXCEPTION:
            x = TApplicationException()
            x.read(iprot)
            iprot.readMessageEnd()
            raise x
        result = sum_result()
        result.read(iprot)
        iprot.readMessageEnd()
        if result.success is not None:
            return result.success
        raise TApplicationException(TApplicationException.MISSING_RESULT, "sum failed: unknown result")


class Processor(harness.ifaces.c14inh.BaseA.Processor, Iface, TProcessor):
    def __init__(self, handler):
        harness.ifaces.c14inh.BaseA.Processor.__init__(self, handler)
        self._processMap["get"] = Processor.process_get
        self._processMap["sum"] = Processor.process_sum
        self._on_message_begin = None

    def on_message_begin(self, func):
        self._on_message_begin = func

    def process(self, iprot, oprot):
        (name, type, seqid) = iprot.readMessageBegin()
        if self._on_message_begin:
            self._on_message_begin(name, type, seqid)
        if name not in self._processMap:
            iprot.skip(TType.STRUCT)
            iprot.readMessageEnd()
            x = TApplicationException(TApplicationException.UNKNOWN_METHOD, 'Unknown function %s' % (name))
            oprot.writeMessageBegin(name, TMessageType.EXCEPTION, seqid)
            x.write(oprot)
            oprot.writeMessageEnd()
            oprot.trans.flush()
            return
        else:
            self._processMap[name](self, seqid, iprot, oprot)
        return True

    def process_get(self, seqid, iprot, oprot):
        args = get_args()
        args.read(iprot)
        iprot.readMessageEnd()
        result = get_result()
        try:
            result.success = self._handler.get(args.key)
            msg_type = TMessageType.REPLY
        except TTransport.TTransportException:
            raise
        except TApplicationException as ex:
            logging.exception('TApplication exception in handler')
            msg_type = TMessageType.EXCEPTION
            result = ex
        except Exception:
            logging.exception('Unexpected exception in handler')
            msg_type = TMessageType.EXCEPTION
            result = TApplicationException(TApplicationException.INTERNAL_ERROR, 'Internal error')
        oprot.writeMessageBegin("get", msg_type, seqid)
        result.write(oprot)
        oprot.writeMessageEnd()
        oprot.trans.flush()

    def process_sum(self, seqid, iprot, oprot):
        args = sum_args()
        args.read(iprot)
        iprot.readMessageEnd()
        result = sum_result()
        try:
            result.success = self._handler.sum(args.xs)
            msg_type = TMessageType.REPLY
        except TTransport.TTransportException:
            raise
        except TApplicationException as ex:
            logging.exception('TApplication exception in handler')
            msg_type = TMessageType.EXCEPTION
            result = ex
        except Exception:
            logging.exception('Unexpected exception in handler')
            msg_type = TMessageType.EXCEPTION
            result = TApplicationException(TApplicationException.INTERNAL_ERROR, 'Internal error')
        oprot.writeMessageBegin("sum", msg_type, seqid)
        result.write(oprot)
        oprot.writeMessageEnd()
        oprot.trans.flush()

# HELPER FUNCTIONS AND STRUCTURES


class get_args(object):
    """
    Attributes:
     - key

    """


    def __init__(self, key=None,):
        self.key = key

    def read(self, iprot):
        if iprot._fast_decode is not None and isinstance(iprot.trans, TTransport.CReadableTransport) and self.thrift_spec is not None:
            iprot._fast_decode(self, iprot, [self.__class__, self.thrift_spec])
            return
        iprot.readStructBegin()
        while True:
            (fname, ftype, fid) = iprot.readFieldBegin()
            if ftype == TType.STOP:
                break
            if fid == 1:
                if ftype == TType.STRING:
                    self.key = iprot.readString().decode('utf-8') if sys.version_info[0] == 2 else iprot.readString()
                else:
                    iprot.skip(ftype)
            else:
                iprot.skip(ftype)
            iprot.readFieldEnd()
        iprot.readStructEnd()

    def write(self, oprot):
        if oprot._fast_encode is not None and self.thrift_spec is not None:
            oprot.trans.write(oprot._fast_encode(self, [self.__class__, self.thrift_spec]))
            return
        oprot.writeStructBegin('get_args')
        if self.key is not None:
            oprot.writeFieldBegin('key', TType.STRING, 1)
            oprot.writeString(self.key.encode('utf-8') if sys.version_info[0] == 2 else self.key)
            oprot.writeFieldEnd()
        oprot.writeFieldStop()
        oprot.writeStructEnd()

    def validate(self):
        return

    def __repr__(self):
        L = ['%s=%r' % (key, value)
             for key, value in self.__dict__.items()]
        return '%s(%s)' % (self.__class__.__name__, ', '.join(L))

    def __eq__(self, other):
        return isinstance(other, self.__class__) and self.__dict__ == other.__dict__

    def __ne__(self, other):
        return not (self == other)
all_structs.append(get_args)
get_args.thrift_spec = (
    None,  # 0
    (1, TType.STRING, 'key', 'UTF8', None, ),  # 1
)


class get_result(object):
    """
    Attributes:
     - success

    """


    def __init__(self, success=None,):
        self.success = success

    def read(self, iprot):
        if iprot._fast_decode is not None and isinstance(iprot.trans, TTransport.CReadableTransport) and self.thrift_spec is not None:
            iprot._fast_decode(self, iprot, [self.__class__, self.thrift_spec])
            return
        iprot.readStructBegin()
        while True:
            (fname, ftype, fid) = iprot.readFieldBegin()
            if ftype == TType.STOP:
                break
            if fid == 0:
                if ftype == TType.STRING:
                    self.success = iprot.readString().decode('utf-8') if sys.version_info[0] == 2 else iprot.readString()
                else:
                    iprot.skip(ftype)
            else:
                iprot.skip(ftype)
            iprot.readFieldEnd()
        iprot.readStructEnd()

    def write(self, oprot):
        if oprot._fast_encode is not None and self.thrift_spec is not None:
            oprot.trans.write(oprot._fast_encode(self, [self.__class__, self.thrift_spec]))
            return
        oprot.writeStructBegin('get_result')
        if self.success is not None:
            oprot.writeFieldBegin('success', TType.STRING, 0)
            oprot.writeString(self.success.encode('utf-8') if sys.version_info[0] == 2 else self.success)
            oprot.writeFieldEnd()
        oprot.writeFieldStop()
        oprot.writeStructEnd()

    def validate(self):
        return

    def __repr__(self):
        L = ['%s=%r' % (key, value)
             for key, value in self.__dict__.items()]
        return '%s(%s)' % (self.__class__.__name__, ', '.join(L))

    def __eq__(self, other):
        return isinstance(other, self.__class__) and self.__dict__ == other.__dict__

    def __ne__(self, other):
        return not (self == other)
all_structs.append(get_result)
get_result.thrift_spec = (
    (0, TType.STRING, 'success', 'UTF8', None, ),  # 0
)


class sum_args(object):
    """
    Attributes:
     - xs

    """


    def __init__(self, xs=None,):
        self.xs = xs

    def read(self, iprot):
        if iprot._fast_decode is not None and isinstance(iprot.trans, TTransport.CReadableTransport) and self.thrift_spec is not None:
            iprot._fast_decode(self, iprot, [self.__class__, self.thrift_spec])
            return
        iprot.readStructBegin()
        while True:
            (fname, ftype, fid) = iprot.readFieldBegin()
            if ftype == TType.STOP:
                break
            if fid == 1:
                if ftype == TType.LIST:
                    self.xs = []
                    (_etype4, _size1) = iprot.readListBegin()
                    for _i5 in range(_size1):
                        _elem6 = iprot.readI32()
                        self.xs.append(_elem6)
                    iprot.readListEnd()
                else:
                    iprot.skip(ftype)
            else:
                iprot.skip(ftype)
            iprot.readFieldEnd()
        iprot.readStructEnd()

    def write(self, oprot):
        if oprot._fast_encode is not None and self.thrift_spec is not None:
            oprot.trans.write(oprot._fast_encode(self, [self.__class__, self.thrift_spec]))
            return
        oprot.writeStructBegin('sum_args')
        if self.xs is not None:
            oprot.writeFieldBegin('xs', TType.LIST, 1)
            oprot.writeListBegin(TType.I32, len(self.xs))
            for iter2 in self.xs:
                oprot.writeI32(iter2)
            oprot.writeListEnd()
            oprot.writeFieldEnd()
        oprot.writeFieldStop()
        oprot.writeStructEnd()

    def validate(self):
        return

    def __repr__(self):
        L = ['%s=%r' % (key, value)
             for key, value in self.__dict__.items()]
        return '%s(%s)' % (self.__class__.__name__, ', '.join(L))

    def __eq__(self, other):
        return isinstance(other, self.__class__) and self.__dict__ == other.__dict__

    def __ne__(self, other):
        return not (self == other)
all_structs.append(sum_args)
sum_args.thrift_spec = (
    None,  # 0
    (1, TType.LIST, 'xs', (TType.I32, None, False), None, ),  # 1
)


class sum_result(object):
    """
    Attributes:
     - success

    """


    def __init__(self, success=None,):
        self.success = success

    def read(self, iprot):
        if iprot._fast_decode is not None and isinstance(iprot.trans, TTransport.CReadableTransport) and self.thrift_spec is not None:
            iprot._fast_decode(self, iprot, [self.__class__, self.thrift_spec])
            return
        iprot.readStructBegin()
        while True:
            (fname, ftype, fid) = iprot.readFieldBegin()
            if ftype == TType.STOP:
                break
            if fid == 0:
                if ftype == TType.I64:
                    self.success = iprot.readI64()
                else:
                    iprot.skip(ftype)
            else:
                iprot.skip(ftype)
            iprot.readFieldEnd()
        iprot.readStructEnd()

    def write(self, oprot):
        if oprot._fast_encode is not None and self.thrift_spec is not None:
            oprot.trans.write(oprot._fast_encode(self, [self.__class__, self.thrift_spec]))
            return
        oprot.writeStructBegin('sum_result')
        if self.success is not None:
            oprot.writeFieldBegin('success', TType.I64, 0)
            oprot.writeI64(self.success)
            oprot.writeFieldEnd()
        oprot.writeFieldStop()
        oprot.writeStructEnd()

    def validate(self):
        return

    def __repr__(self):
        L = ['%s=%r' % (key, value)
             for key, value in self.__dict__.items()]
        return '%s(%s)' % (self.__class__.__name__, ', '.join(L))

    def __eq__(self, other):
        return isinstance(other, self.__class__) and self.__dict__ == other.__dict__

    def __ne__(self, other):
        return not (self == other)
all_structs.append(sum_result)
sum_result.thrift_spec = (
    (0, TType.I64, 'success', None, None, ),  # 0
)
fix_spec(all_structs)
del all_structs
