__all__ = ['ttypes', 'constants', 'BaseA', 'SvcA', 'BaseB', 'SvcB']
