#
# Hand-written in the style of the Thrift Compiler's `py` generator (no compiler is installed).
# Layout and statements follow the compiler output for the IDL below (cf. ../hello/, real 0.13.0 output);
# `Other` follows the immutable-exception layout the compiler emits since 0.14.
#
#   struct Item  { 1: string name, 2: i32 count, 3: list<i32> nums, 4: bool flag }
#   struct Box   { 1: Item item, 2: list<Item> items, 3: list<list<i32>> grid, 4: string label, 5: i64 big,
#                  6: binary blob, 7: i16 small }
#   exception Ouch  { 1: string why, 2: i32 code }
#   exception Other { 1: string msg, 2: Item item }
#
#  options string: py
#

from thrift.Thrift import TType, TMessageType, TFrozenDict, TException, TApplicationException
from thrift.protocol.TProtocol import TProtocolException
from thrift.TRecursive import fix_spec

import sys

from thrift.transport import TTransport
all_structs = []


class Item(object):
    """
    Attributes:
     - name
     - count
     - nums
     - flag

    """


    def __init__(self, name=None, count=None, nums=None, flag=None,):
        self.name = name
        self.count = count
        self.nums = nums
        self.flag = flag

    def read(self, iprot):
        if iprot._fast_decode is not None and isinstance(iprot.trans, TTransport.CReadableTransport) and self.thrift_spec is not None:
            iprot._fast_decode(self, iprot, [self.__class__, self.thrift_spec])
            return
        iprot.readStructBegin()
        while True:
            (fname, ftype, fid) = iprot.readFieldBegin()
            if ftype == TType.STOP:
                break
            if fid == 1:
                if ftype == TType.STRING:
                    self.name = iprot.readString().decode('utf-8') if sys.version_info[0] == 2 else iprot.readString()
                else:
                    iprot.skip(ftype)
            elif fid == 2:
                if ftype == TType.I32:
                    self.count = iprot.readI32()
                else:
                    iprot.skip(ftype)
            elif fid == 3:
                if ftype == TType.LIST:
                    self.nums = []
                    (_etype3, _size0) = iprot.readListBegin()
                    for _i4 in range(_size0):
                        _elem5 = iprot.readI32()
                        self.nums.append(_elem5)
                    iprot.readListEnd()
                else:
                    iprot.skip(ftype)
            elif fid == 4:
                if ftype == TType.BOOL:
                    self.flag = iprot.readBool()
                else:
                    iprot.skip(ftype)
            else:
                iprot.skip(ftype)
            iprot.readFieldEnd()
        iprot.readStructEnd()

    def write(self, oprot):
        if oprot._fast_encode is not None and self.thrift_spec is not None:
            oprot.trans.write(oprot._fast_encode(self, [self.__class__, self.thrift_spec]))
            return
        oprot.writeStructBegin('Item')
        if self.name is not None:
            oprot.writeFieldBegin('name', TType.STRING, 1)
            oprot.writeString(self.name.encode('utf-8') if sys.version_info[0] == 2 else self.name)
            oprot.writeFieldEnd()
        if self.count is not None:
            oprot.writeFieldBegin('count', TType.I32, 2)
            oprot.writeI32(self.count)
            oprot.writeFieldEnd()
        if self.nums is not None:
            oprot.writeFieldBegin('nums', TType.LIST, 3)
            oprot.writeListBegin(TType.I32, len(self.nums))
            for iter6 in self.nums:
                oprot.writeI32(iter6)
            oprot.writeListEnd()
            oprot.writeFieldEnd()
        if self.flag is not None:
            oprot.writeFieldBegin('flag', TType.BOOL, 4)
            oprot.writeBool(self.flag)
            oprot.writeFieldEnd()
        oprot.writeFieldStop()
        oprot.writeStructEnd()

    def validate(self):
        return

    def __repr__(self):
        L = ['%s=%r' % (key, value)
             for key, value in self.__dict__.items()]
        return '%s(%s)' % (self.__class__.__name__, ', '.join(L))

    def __eq__(self, other):
        return isinstance(other, self.__class__) and self.__dict__ == other.__dict__

    def __ne__(self, other):
        return not (self == other)


class Box(object):
    """
    Attributes:
     - item
     - items
     - grid
     - label
     - big
     - blob
     - small

    """


    def __init__(self, item=None, items=None, grid=None, label=None, big=None, blob=None, small=None,):
        self.item = item
        self.items = items
        self.grid = grid
        self.label = label
        self.big = big
        self.blob = blob
        self.small = small

    def read(self, iprot):
        if iprot._fast_decode is not None and isinstance(iprot.trans, TTransport.CReadableTransport) and self.thrift_spec is not None:
            iprot._fast_decode(self, iprot, [self.__class__, self.thrift_spec])
            return
        iprot.readStructBegin()
        while True:
            (fname, ftype, fid) = iprot.readFieldBegin()
            if ftype == TType.STOP:
                break
            if fid == 1:
                if ftype == TType.STRUCT:
                    self.item = Item()
                    self.item.read(iprot)
                else:
                    iprot.skip(ftype)
            elif fid == 2:
                if ftype == TType.LIST:
                    self.items = []
                    (_etype10, _size7) = iprot.readListBegin()
                    for _i11 in range(_size7):
                        _elem12 = Item()
                        _elem12.read(iprot)
                        self.items.append(_elem12)
                    iprot.readListEnd()
                else:
                    iprot.skip(ftype)
            elif fid == 3:
                if ftype == TType.LIST:
                    self.grid = []
                    (_etype16, _size13) = iprot.readListBegin()
                    for _i17 in range(_size13):
                        _elem18 = []
                        (_etype22, _size19) = iprot.readListBegin()
                        for _i23 in range(_size19):
                            _elem24 = iprot.readI32()
                            _elem18.append(_elem24)
                        iprot.readListEnd()
                        self.grid.append(_elem18)
                    iprot.readListEnd()
                else:
                    iprot.skip(ftype)
            elif fid == 4:
                if ftype == TType.STRING:
                    self.label = iprot.readString().decode('utf-8') if sys.version_info[0] == 2 else iprot.readString()
                else:
                    iprot.skip(ftype)
            elif fid == 5:
                if ftype == TType.I64:
                    self.big = iprot.readI64()
                else:
                    iprot.skip(ftype)
            elif fid == 6:
                if ftype == TType.STRING:
                    self.blob = iprot.readBinary()
                else:
                    iprot.skip(ftype)
            elif fid == 7:
                if ftype == TType.I16:
                    self.small = iprot.readI16()
                else:
                    iprot.skip(ftype)
            else:
                iprot.skip(ftype)
            iprot.readFieldEnd()
        iprot.readStructEnd()

    def write(self, oprot):
        if oprot._fast_encode is not None and self.thrift_spec is not None:
            oprot.trans.write(oprot._fast_encode(self, [self.__class__, self.thrift_spec]))
            return
        oprot.writeStructBegin('Box')
        if self.item is not None:
            oprot.writeFieldBegin('item', TType.STRUCT, 1)
            self.item.write(oprot)
            oprot.writeFieldEnd()
        if self.items is not None:
            oprot.writeFieldBegin('items', TType.LIST, 2)
            oprot.writeListBegin(TType.STRUCT, len(self.items))
            for iter25 in self.items:
                iter25.write(oprot)
            oprot.writeListEnd()
            oprot.writeFieldEnd()
        if self.grid is not None:
            oprot.writeFieldBegin('grid', TType.LIST, 3)
            oprot.writeListBegin(TType.LIST, len(self.grid))
            for iter26 in self.grid:
                oprot.writeListBegin(TType.I32, len(iter26))
                for iter27 in iter26:
                    oprot.writeI32(iter27)
                oprot.writeListEnd()
            oprot.writeListEnd()
            oprot.writeFieldEnd()
        if self.label is not None:
            oprot.writeFieldBegin('label', TType.STRING, 4)
            oprot.writeString(self.label.encode('utf-8') if sys.version_info[0] == 2 else self.label)
            oprot.writeFieldEnd()
        if self.big is not None:
            oprot.writeFieldBegin('big', TType.I64, 5)
            oprot.writeI64(self.big)
            oprot.writeFieldEnd()
        if self.blob is not None:
            oprot.writeFieldBegin('blob', TType.STRING, 6)
            oprot.writeBinary(self.blob)
            oprot.writeFieldEnd()
        if self.small is not None:
            oprot.writeFieldBegin('small', TType.I16, 7)
            oprot.writeI16(self.small)
            oprot.writeFieldEnd()
        oprot.writeFieldStop()
        oprot.writeStructEnd()

    def validate(self):
        return

    def __repr__(self):
        L = ['%s=%r' % (key, value)
             for key, value in self.__dict__.items()]
        return '%s(%s)' % (self.__class__.__name__, ', '.join(L))

    def __eq__(self, other):
        return isinstance(other, self.__class__) and self.__dict__ == other.__dict__

    def __ne__(self, other):
        return not (self == other)


class Ouch(TException):
    """
    Attributes:
     - why
     - code

    """


    def __init__(self, why=None, code=None,):
        self.why = why
        self.code = code

    def read(self, iprot):
        if iprot._fast_decode is not None and isinstance(iprot.trans, TTransport.CReadableTransport) and self.thrift_spec is not None:
            iprot._fast_decode(self, iprot, [self.__class__, self.thrift_spec])
            return
        iprot.readStructBegin()
        while True:
            (fname, ftype, fid) = iprot.readFieldBegin()
            if ftype == TType.STOP:
                break
            if fid == 1:
                if ftype == TType.STRING:
                    self.why = iprot.readString().decode('utf-8') if sys.version_info[0] == 2 else iprot.readString()
                else:
                    iprot.skip(ftype)
            elif fid == 2:
                if ftype == TType.I32:
                    self.code = iprot.readI32()
                else:
                    iprot.skip(ftype)
            else:
                iprot.skip(ftype)
            iprot.readFieldEnd()
        iprot.readStructEnd()

    def write(self, oprot):
        if oprot._fast_encode is not None and self.thrift_spec is not None:
            oprot.trans.write(oprot._fast_encode(self, [self.__class__, self.thrift_spec]))
            return
        oprot.writeStructBegin('Ouch')
        if self.why is not None:
            oprot.writeFieldBegin('why', TType.STRING, 1)
            oprot.writeString(self.why.encode('utf-8') if sys.version_info[0] == 2 else self.why)
            oprot.writeFieldEnd()
        if self.code is not None:
            oprot.writeFieldBegin('code', TType.I32, 2)
            oprot.writeI32(self.code)
            oprot.writeFieldEnd()
        oprot.writeFieldStop()
        oprot.writeStructEnd()

    def validate(self):
        return

    def __str__(self):
        return repr(self)

    def __repr__(self):
        L = ['%s=%r' % (key, value)
             for key, value in self.__dict__.items()]
        return '%s(%s)' % (self.__class__.__name__, ', '.join(L))

    def __eq__(self, other):
        return isinstance(other, self.__class__) and self.__dict__ == other.__dict__

    def __ne__(self, other):
        return not (self == other)


class Other(TException):
    """
    Attributes:
     - msg
     - item

    """


    def __init__(self, msg=None, item=None,):
        super(Other, self).__setattr__('msg', msg)
        super(Other, self).__setattr__('item', item)

    def __setattr__(self, *args):
        raise TypeError("can't modify immutable instance")

    def __delattr__(self, *args):
        raise TypeError("can't modify immutable instance")

    def __hash__(self):
        return hash(self.__class__) ^ hash((self.msg, self.item, ))

    @classmethod
    def read(cls, iprot):
        if iprot._fast_decode is not None and isinstance(iprot.trans, TTransport.CReadableTransport) and cls.thrift_spec is not None:
            return iprot._fast_decode(None, iprot, [cls, cls.thrift_spec])
        iprot.readStructBegin()
        msg = None
        item = None
        while True:
            (fname, ftype, fid) = iprot.readFieldBegin()
            if ftype == TType.STOP:
                break
            if fid == 1:
                if ftype == TType.STRING:
                    msg = iprot.readString().decode('utf-8') if sys.version_info[0] == 2 else iprot.readString()
                else:
                    iprot.skip(ftype)
            elif fid == 2:
                if ftype == TType.STRUCT:
                    item = Item()
                    item.read(iprot)
                else:
                    iprot.skip(ftype)
            else:
                iprot.skip(ftype)
            iprot.readFieldEnd()
        iprot.readStructEnd()
        return cls(
            msg=msg,
            item=item,
        )

    def write(self, oprot):
        if oprot._fast_encode is not None and self.thrift_spec is not None:
            oprot.trans.write(oprot._fast_encode(self, [self.__class__, self.thrift_spec]))
            return
        oprot.writeStructBegin('Other')
        if self.msg is not None:
            oprot.writeFieldBegin('msg', TType.STRING, 1)
            oprot.writeString(self.msg.encode('utf-8') if sys.version_info[0] == 2 else self.msg)
            oprot.writeFieldEnd()
        if self.item is not None:
            oprot.writeFieldBegin('item', TType.STRUCT, 2)
            self.item.write(oprot)
            oprot.writeFieldEnd()
        oprot.writeFieldStop()
        oprot.writeStructEnd()

    def validate(self):
        return

    def __str__(self):
        return repr(self)

    def __repr__(self):
        L = ['%s=%r' % (key, value)
             for key, value in self.__dict__.items()]
        return '%s(%s)' % (self.__class__.__name__, ', '.join(L))

    def __eq__(self, other):
        return isinstance(other, self.__class__) and self.__dict__ == other.__dict__

    def __ne__(self, other):
        return not (self == other)
all_structs.append(Item)
Item.thrift_spec = (
    None,  # 0
    (1, TType.STRING, 'name', 'UTF8', None, ),  # 1
    (2, TType.I32, 'count', None, None, ),  # 2
    (3, TType.LIST, 'nums', (TType.I32, None, False), None, ),  # 3
    (4, TType.BOOL, 'flag', None, None, ),  # 4
)
all_structs.append(Box)
Box.thrift_spec = (
    None,  # 0
    (1, TType.STRUCT, 'item', [Item, None], None, ),  # 1
    (2, TType.LIST, 'items', (TType.STRUCT, [Item, None], False), None, ),  # 2
    (3, TType.LIST, 'grid', (TType.LIST, (TType.I32, None, False), False), None, ),  # 3
    (4, TType.STRING, 'label', 'UTF8', None, ),  # 4
    (5, TType.I64, 'big', None, None, ),  # 5
    (6, TType.STRING, 'blob', 'BINARY', None, ),  # 6
    (7, TType.I16, 'small', None, None, ),  # 7
)
all_structs.append(Ouch)
Ouch.thrift_spec = (
    None,  # 0
    (1, TType.STRING, 'why', 'UTF8', None, ),  # 1
    (2, TType.I32, 'code', None, None, ),  # 2
)
all_structs.append(Other)
Other.thrift_spec = (
    None,  # 0
    (1, TType.STRING, 'msg', 'UTF8', None, ),  # 1
    (2, TType.STRUCT, 'item', [Item, None], None, ),  # 2
)
fix_spec(all_structs)
del all_structs
