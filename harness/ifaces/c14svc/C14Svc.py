#
# Hand-written in the style of the Thrift Compiler's `py` generator (no compiler is installed);
# layout and statements follow the compiler output for the IDL below (cf. ../hello/Hello.py, real 0.13.0 output).
#
#   service C14Svc {
#     string echo(1: string s),
#     Item   xform(1: Item item, 2: i32 times) throws (1: Ouch ouch),
#     Box    wrap(1: Box box),
#     void   ping(1: i32 n),
#     void   pingx(1: string s) throws (1: Ouch ouch),
#     i64    mix(1: bool b, 2: i16 h, 3: i32 i, 4: i64 l, 5: list<i32> xs, 6: binary blob),
#     bool   gap(1: string s) throws (1: Ouch a, 3: Other c),
#     void   skipv(1: string s) throws (2: Ouch e),
#     oneway void fire(1: string s),
#   }
#
#  options string: py
#

from thrift.Thrift import TType, TMessageType, TFrozenDict, TException, TApplicationException
from thrift.protocol.TProtocol import TProtocolException
from thrift.TRecursive import fix_spec

import sys
import logging
from .ttypes import *
from thrift.Thrift import TProcessor
from thrift.transport import TTransport
all_structs = []


class Iface(object):
    def echo(self, s):
        """
        Parameters:
         - s

        """
        pass

    def xform(self, item, times):
        """
        Parameters:
         - item
         - times

        """
        pass

    def wrap(self, box):
        """
        Parameters:
         - box

        """
        pass

    def ping(self, n):
        """
        Parameters:
         - n

        """
        pass

    def pingx(self, s):
        """
        Parameters:
         - s

        """
        pass

    def mix(self, b, h, i, l, xs, blob):
        """
        Parameters:
         - b
         - h
         - i
         - l
         - xs
         - blob

        """
        pass

    def gap(self, s):
        """
        Parameters:
         - s

        """
        pass

    def skipv(self, s):
        """
        Parameters:
         - s

        """
        pass

    def fire(self, s):
        """
        Parameters:
         - s

        """
        pass


class Client(Iface):
    def __init__(self, iprot, oprot=None):
        self._iprot = self._oprot = iprot
        if oprot is not None:
            self._oprot = oprot
        self._seqid = 0

    def echo(self, s):
        """
        Parameters:
         - s

        """
        self.send_echo(s)
        return self.recv_echo()

    def send_echo(self, s):
        self._oprot.writeMessageBegin('echo', TMessageType.CALL, self._seqid)
        args = echo_args()
        args.s = s
        args.write(self._oprot)
        self._oprot.writeMessageEnd()
        self._oprot.trans.flush()

    def recv_echo(self):
        iprot = self._iprot
        (fname, mtype, rseqid) = iprot.readMessageBegin()
        if mtype == TMessageType.EXCEPTION:
            x = TApplicationException()
            x.read(iprot)
            iprot.readMessageEnd()
            raise x
        result = echo_result()
        result.read(iprot)
        iprot.readMessageEnd()
        if result.success is not None:
            return result.success
        raise TApplicationException(TApplicationException.MISSING_RESULT, "echo failed: unknown result")

    def xform(self, item, times):
        """
        Parameters:
         - item
         - times

        """
        self.send_xform(item, times)
        return self.recv_xform()

    def send_xform(self, item, times):
        self._oprot.writeMessageBegin('xform', TMessageType.CALL, self._seqid)
        args = xform_args()
        args.item = item
        args.times = times
        args.write(self._oprot)
        self._oprot.writeMessageEnd()
        self._oprot.trans.flush()

    def recv_xform(self):
        iprot = self._iprot
        (fname, mtype, rseqid) = iprot.readMessageBegin()
        if mtype == TMessageType.EXCEPTION:
            x = TApplicationException()
            x.read(iprot)
            iprot.readMessageEnd()
            raise x
        result = xform_result()
        result.read(iprot)
        iprot.readMessageEnd()
        if result.success is not None:
            return result.success
        if result.ouch is not None:
            raise result.ouch
        raise TApplicationException(TApplicationException.MISSING_RESULT, "xform failed: unknown result")

    def wrap(self, box):
        """
        Parameters:
         - box

        """
        self.send_wrap(box)
        return self.recv_wrap()

    def send_wrap(self, box):
        self._oprot.writeMessageBegin('wrap', TMessageType.CALL, self._seqid)
        args = wrap_args()
        args.box = box
        args.write(self._oprot)
        self._oprot.writeMessageEnd()
        self._oprot.trans.flush()

    def recv_wrap(self):
        iprot = self._iprot
        (fname, mtype, rseqid) = iprot.readMessageBegin()
        if mtype == TMessageType.EXCEPTION:
            x = TApplicationException()
            x.read(iprot)
            iprot.readMessageEnd()
            raise x
        result = wrap_result()
        result.read(iprot)
        iprot.readMessageEnd()
        if result.success is not None:
            return result.success
        raise TApplicationException(TApplicationException.MISSING_RESULT, "wrap failed: unknown result")

    def ping(self, n):
        """
        Parameters:
         - n

        """
        self.send_ping(n)
        self.recv_ping()

    def send_ping(self, n):
        self._oprot.writeMessageBegin('ping', TMessageType.CALL, self._seqid)
        args = ping_args()
        args.n = n
        args.write(self._oprot)
        self._oprot.writeMessageEnd()
        self._oprot.trans.flush()

    def recv_ping(self):
        iprot = self._iprot
        (fname, mtype, rseqid) = iprot.readMessageBegin()
        if mtype == TMessageType.EXCEPTION:
            x = TApplicationException()
            x.read(iprot)
            iprot.readMessageEnd()
            raise x
        result = ping_result()
        result.read(iprot)
        iprot.readMessageEnd()
        return

    def pingx(self, s):
        """
        Parameters:
         - s

        """
        self.send_pingx(s)
        self.recv_pingx()

    def send_pingx(self, s):
        self._oprot.writeMessageBegin('pingx', TMessageType.CALL, self._seqid)
        args = pingx_args()
        args.s = s
        args.write(self._oprot)
        self._oprot.writeMessageEnd()
        self._oprot.trans.flush()

    def recv_pingx(self):
        iprot = self._iprot
        (fname, mtype, rseqid) = iprot.readMessageBegin()
        if mtype == TMessageType.EXCEPTION:
            x = TApplicationException()
            x.read(iprot)
            iprot.readMessageEnd()
            raise x
        result = pingx_result()
        result.read(iprot)
        iprot.readMessageEnd()
        if result.ouch is not None:
            raise result.ouch
        return

    def mix(self, b, h, i, l, xs, blob):
        """
        Parameters:
         - b
         - h
         - i
         - l
         - xs
         - blob

        """
        self.send_mix(b, h, i, l, xs, blob)
        return self.recv_mix()

    def send_mix(self, b, h, i, l, xs, blob):
        self._oprot.writeMessageBegin('mix', TMessageType.CALL, self._seqid)
        args = mix_args()
        args.b = b
        args.h = h
        args.i = i
        args.l = l
        args.xs = xs
        args.blob = blob
        args.write(self._oprot)
        self._oprot.writeMessageEnd()
        self._oprot.trans.flush()

    def recv_mix(self):
        iprot = self._iprot
        (fname, mtype, rseqid) = iprot.readMessageBegin()
        if mtype == TMessageType.EXCEPTION:
            x = TApplicationException()
            x.read(iprot)
            iprot.readMessageEnd()
            raise x
        result = mix_result()
        result.read(iprot)
        iprot.readMessageEnd()
        if result.success is not None:
            return result.success
        raise TApplicationException(TApplicationException.MISSING_RESULT, "mix failed: unknown result")

    def gap(self, s):
        """
        Parameters:
         - s

        """
        self.send_gap(s)
        return self.recv_gap()

    def send_gap(self, s):
        self._oprot.writeMessageBegin('gap', TMessageType.CALL, self._seqid)
        args = gap_args()
        args.s = s
        args.write(self._oprot)
        self._oprot.writeMessageEnd()
        self._oprot.trans.flush()

    def recv_gap(self):
        iprot = self._iprot
        (fname, mtype, rseqid) = iprot.readMessageBegin()
        if mtype == TMessageType.EXCEPTION:
            x = TApplicationException()
            x.read(iprot)
            iprot.readMessageEnd()
            raise x
        result = gap_result()
        result.read(iprot)
        iprot.readMessageEnd()
        if result.success is not None:
            return result.success
        if result.a is not None:
            raise result.a
        if result.c is not None:
            raise result.c
        raise TApplicationException(TApplicationException.MISSING_RESULT, "gap failed: unknown result")

    def skipv(self, s):
        """
        Parameters:
         - s

        """
        self.send_skipv(s)
        self.recv_skipv()

    def send_skipv(self, s):
        self._oprot.writeMessageBegin('skipv', TMessageType.CALL, self._seqid)
        args = skipv_args()
        args.s = s
        args.write(self._oprot)
        self._oprot.writeMessageEnd()
        self._oprot.trans.flush()

    def recv_skipv(self):
        iprot = self._iprot
        (fname, mtype, rseqid) = iprot.readMessageBegin()
        if mtype == TMessageType.EXCEPTION:
            x = TApplicationException()
            x.read(iprot)
            iprot.readMessageEnd()
            raise x
        result = skipv_result()
        result.read(iprot)
        iprot.readMessageEnd()
        if result.e is not None:
            raise result.e
        return

    def fire(self, s):
        """
        Parameters:
         - s

        """
        self.send_fire(s)

    def send_fire(self, s):
        self._oprot.writeMessageBegin('fire', TMessageType.ONEWAY, self._seqid)
        args = fire_args()
        args.s = s
        args.write(self._oprot)
        self._oprot.writeMessageEnd()
        self._oprot.trans.flush()


class Processor(Iface, TProcessor):
    def __init__(self, handler):
        self._handler = handler
        self._processMap = {}
        self._processMap["echo"] = Processor.process_echo
        self._processMap["xform"] = Processor.process_xform
        self._processMap["wrap"] = Processor.process_wrap
        self._processMap["ping"] = Processor.process_ping
        self._processMap["pingx"] = Processor.process_pingx
        self._processMap["mix"] = Processor.process_mix
        self._processMap["gap"] = Processor.process_gap
        self._processMap["skipv"] = Processor.process_skipv
        self._processMap["fire"] = Processor.process_fire
        self._on_message_begin = None

    def on_message_begin(self, func):
        self._on_message_begin = func

    def process(self, iprot, oprot):
        (name, type, seqid) = iprot.readMessageBegin()
        if self._on_message_begin:
            self._on_message_begin(name, type, seqid)
        if name not in self._processMap:
            iprot.skip(TType.STRUCT)
            iprot.readMessageEnd()
            x = TApplicationException(TApplicationException.UNKNOWN_METHOD, 'Unknown function %s' % (name))
            oprot.writeMessageBegin(name, TMessageType.EXCEPTION, seqid)
            x.write(oprot)
            oprot.writeMessageEnd()
            oprot.trans.flush()
            return
        else:
            self._processMap[name](self, seqid, iprot, oprot)
        return True

    def process_echo(self, seqid, iprot, oprot):
        args = echo_args()
        args.read(iprot)
        iprot.readMessageEnd()
        result = echo_result()
        try:
            result.success = self._handler.echo(args.s)
            msg_type = TMessageType.REPLY
        except TTransport.TTransportException:
            raise
        except TApplicationException as ex:
            logging.exception('TApplication exception in handler')
            msg_type = TMessageType.EXCEPTION
            result = ex
        except Exception:
            logging.exception('Unexpected exception in handler')
            msg_type = TMessageType.EXCEPTION
            result = TApplicationException(TApplicationException.INTERNAL_ERROR, 'Internal error')
        oprot.writeMessageBegin("echo", msg_type, seqid)
        result.write(oprot)
        oprot.writeMessageEnd()
        oprot.trans.flush()

    def process_xform(self, seqid, iprot, oprot):
        args = xform_args()
        args.read(iprot)
        iprot.readMessageEnd()
        result = xform_result()
        try:
            result.success = self._handler.xform(args.item, args.times)
            msg_type = TMessageType.REPLY
        except TTransport.TTransportException:
            raise
        except Ouch as ouch:
            msg_type = TMessageType.REPLY
            result.ouch = ouch
        except TApplicationException as ex:
            logging.exception('TApplication exception in handler')
            msg_type = TMessageType.EXCEPTION
            result = ex
        except Exception:
            logging.exception('Unexpected exception in handler')
            msg_type = TMessageType.EXCEPTION
            result = TApplicationException(TApplicationException.INTERNAL_ERROR, 'Internal error')
        oprot.writeMessageBegin("xform", msg_type, seqid)
        result.write(oprot)
        oprot.writeMessageEnd()
        oprot.trans.flush()

    def process_wrap(self, seqid, iprot, oprot):
        args = wrap_args()
        args.read(iprot)
        iprot.readMessageEnd()
        result = wrap_result()
        try:
            result.success = self._handler.wrap(args.box)
            msg_type = TMessageType.REPLY
        except TTransport.TTransportException:
            raise
        except TApplicationException as ex:
            logging.exception('TApplication exception in handler')
            msg_type = TMessageType.EXCEPTION
            result = ex
        except Exception:
            logging.exception('Unexpected exception in handler')
            msg_type = TMessageType.EXCEPTION
            result = TApplicationException(TApplicationException.INTERNAL_ERROR, 'Internal error')
        oprot.writeMessageBegin("wrap", msg_type, seqid)
        result.write(oprot)
        oprot.writeMessageEnd()
        oprot.trans.flush()

    def process_ping(self, seqid, iprot, oprot):
        args = ping_args()
        args.read(iprot)
        iprot.readMessageEnd()
        result = ping_result()
        try:
            self._handler.ping(args.n)
            msg_type = TMessageType.REPLY
        except TTransport.TTransportException:
            raise
        except TApplicationException as ex:
            logging.exception('TApplication exception in handler')
            msg_type = TMessageType.EXCEPTION
            result = ex
        except Exception:
            logging.exception('Unexpected exception in handler')
            msg_type = TMessageType.EXCEPTION
            result = TApplicationException(TApplicationException.INTERNAL_ERROR, 'Internal error')
        oprot.writeMessageBegin("ping", msg_type, seqid)
        result.write(oprot)
        oprot.writeMessageEnd()
        oprot.trans.flush()

    def process_pingx(self, seqid, iprot, oprot):
        args = pingx_args()
        args.read(iprot)
        iprot.readMessageEnd()
        result = pingx_result()
        try:
            self._handler.pingx(args.s)
            msg_type = TMessageType.REPLY
        except TTransport.TTransportException:
            raise
        except Ouch as ouch:
            msg_type = TMessageType.REPLY
            result.ouch = ouch
        except TApplicationException as ex:
            logging.exception('TApplication exception in handler')
            msg_type = TMessageType.EXCEPTION
            result = ex
        except Exception:
            logging.exception('Unexpected exception in handler')
            msg_type = TMessageType.EXCEPTION
            result = TApplicationException(TApplicationException.INTERNAL_ERROR, 'Internal error')
        oprot.writeMessageBegin("pingx", msg_type, seqid)
        result.write(oprot)
        oprot.writeMessageEnd()
        oprot.trans.flush()

    def process_mix(self, seqid, iprot, oprot):
        args = mix_args()
        args.read(iprot)
        iprot.readMessageEnd()
        result = mix_result()
        try:
            result.success = self._handler.mix(args.b, args.h, args.i, args.l, args.xs, args.blob)
            msg_type = TMessageType.REPLY
        except TTransport.TTransportException:
            raise
        except TApplicationException as ex:
            logging.exception('TApplication exception in handler')
            msg_type = TMessageType.EXCEPTION
            result = ex
        except Exception:
            logging.exception('Unexpected exception in handler')
            msg_type = TMessageType.EXCEPTION
            result = TApplicationException(TApplicationException.INTERNAL_ERROR, 'Internal error')
        oprot.writeMessageBegin("mix", msg_type, seqid)
        result.write(oprot)
        oprot.writeMessageEnd()
        oprot.trans.flush()

    def process_gap(self, seqid, iprot, oprot):
        args = gap_args()
        args.read(iprot)
        iprot.readMessageEnd()
        result = gap_result()
        try:
            result.success = self._handler.gap(args.s)
            msg_type = TMessageType.REPLY
        except TTransport.TTransportException:
            raise
        except Ouch as a:
            msg_type = TMessageType.REPLY
            result.a = a
        except Other as c:
            msg_type = TMessageType.REPLY
            result.c = c
        except TApplicationException as ex:
            logging.exception('TApplication exception in handler')
            msg_type = TMessageType.EXCEPTION
            result = ex
        except Exception:
            logging.exception('Unexpected exception in handler')
            msg_type = TMessageType.EXCEPTION
            result = TApplicationException(TApplicationException.INTERNAL_ERROR, 'Internal error')
        oprot.writeMessageBegin("gap", msg_type, seqid)
        result.write(oprot)
        oprot.writeMessageEnd()
        oprot.trans.flush()

    def process_skipv(self, seqid, iprot, oprot):
        args = skipv_args()
        args.read(iprot)
        iprot.readMessageEnd()
        result = skipv_result()
        try:
            self._handler.skipv(args.s)
            msg_type = TMessageType.REPLY
        except TTransport.TTransportException:
            raise
        except Ouch as e:
            msg_type = TMessageType.REPLY
            result.e = e
        except TApplicationException as ex:
            logging.exception('TApplication exception in handler')
            msg_type = TMessageType.EXCEPTION
            result = ex
        except Exception:
            logging.exception('Unexpected exception in handler')
            msg_type = TMessageType.EXCEPTION
            result = TApplicationException(TApplicationException.INTERNAL_ERROR, 'Internal error')
        oprot.writeMessageBegin("skipv", msg_type, seqid)
        result.write(oprot)
        oprot.writeMessageEnd()
        oprot.trans.flush()

    def process_fire(self, seqid, iprot, oprot):
        args = fire_args()
        args.read(iprot)
        iprot.readMessageEnd()
        try:
            self._handler.fire(args.s)
        except TTransport.TTransportException:
            raise
        except Exception:
            logging.exception('Exception in oneway handler')

# HELPER FUNCTIONS AND STRUCTURES


class echo_args(object):
    """
    Attributes:
     - s

    """


    def __init__(self, s=None,):
        self.s = s

    def read(self, iprot):
        if iprot._fast_decode is not None and isinstance(iprot.trans, TTransport.CReadableTransport) and self.thrift_spec is not None:
            iprot._fast_decode(self, iprot, [self.__class__, self.thrift_spec])
            return
        iprot.readStructBegin()
        while True:
            (fname, ftype, fid) = iprot.readFieldBegin()
            if ftype == TType.STOP:
                break
            if fid == 1:
                if ftype == TType.STRING:
                    self.s = iprot.readString().decode('utf-8') if sys.version_info[0] == 2 else iprot.readString()
                else:
                    iprot.skip(ftype)
            else:
                iprot.skip(ftype)
            iprot.readFieldEnd()
        iprot.readStructEnd()

    def write(self, oprot):
        if oprot._fast_encode is not None and self.thrift_spec is not None:
            oprot.trans.write(oprot._fast_encode(self, [self.__class__, self.thrift_spec]))
            return
        oprot.writeStructBegin('echo_args')
        if self.s is not None:
            oprot.writeFieldBegin('s', TType.STRING, 1)
            oprot.writeString(self.s.encode('utf-8') if sys.version_info[0] == 2 else self.s)
            oprot.writeFieldEnd()
        oprot.writeFieldStop()
        oprot.writeStructEnd()

    def validate(self):
        return

    def __repr__(self):
        L = ['%s=%r' % (key, value)
             for key, value in self.__dict__.items()]
        return '%s(%s)' % (self.__class__.__name__, ', '.join(L))

    def __eq__(self, other):
        return isinstance(other, self.__class__) and self.__dict__ == other.__dict__

    def __ne__(self, other):
        return not (self == other)
all_structs.append(echo_args)
echo_args.thrift_spec = (
    None,  # 0
    (1, TType.STRING, 's', 'UTF8', None, ),  # 1
)


class echo_result(object):
    """
    Attributes:
     - success

    """


    def __init__(self, success=None,):
        self.success = success

    def read(self, iprot):
        if iprot._fast_decode is not None and isinstance(iprot.trans, TTransport.CReadableTransport) and self.thrift_spec is not None:
            iprot._fast_decode(self, iprot, [self.__class__, self.thrift_spec])
            return
        iprot.readStructBegin()
        while True:
            (fname, ftype, fid) = iprot.readFieldBegin()
            if ftype == TType.STOP:
                break
            if fid == 0:
                if ftype == TType.STRING:
                    self.success = iprot.readString().decode('utf-8') if sys.version_info[0] == 2 else iprot.readString()
                else:
                    iprot.skip(ftype)
            else:
                iprot.skip(ftype)
            iprot.readFieldEnd()
        iprot.readStructEnd()

    def write(self, oprot):
        if oprot._fast_encode is not None and self.thrift_spec is not None:
            oprot.trans.write(oprot._fast_encode(self, [self.__class__, self.thrift_spec]))
            return
        oprot.writeStructBegin('echo_result')
        if self.success is not None:
            oprot.writeFieldBegin('success', TType.STRING, 0)
            oprot.writeString(self.success.encode('utf-8') if sys.version_info[0] == 2 else self.success)
            oprot.writeFieldEnd()
        oprot.writeFieldStop()
        oprot.writeStructEnd()

    def validate(self):
        return

    def __repr__(self):
        L = ['%s=%r' % (key, value)
             for key, value in self.__dict__.items()]
        return '%s(%s)' % (self.__class__.__name__, ', '.join(L))

    def __eq__(self, other):
        return isinstance(other, self.__class__) and self.__dict__ == other.__dict__

    def __ne__(self, other):
        return not (self == other)
all_structs.append(echo_result)
echo_result.thrift_spec = (
    (0, TType.STRING, 'success', 'UTF8', None, ),  # 0
)


class xform_args(object):
    """
    Attributes:
     - item
     - times

    """


    def __init__(self, item=None, times=None,):
        self.item = item
        self.times = times

    def read(self, iprot):
        if iprot._fast_decode is not None and isinstance(iprot.trans, TTransport.CReadableTransport) and self.thrift_spec is not None:
            iprot._fast_decode(self, iprot, [self.__class__, self.thrift_spec])
            return
        iprot.readStructBegin()
        while True:
            (fname, ftype, fid) = iprot.readFieldBegin()
            if ftype == TType.STOP:
                break
            if fid == 1:
                if ftype == TType.STRUCT:
                    self.item = Item()
                    self.item.read(iprot)
                else:
                    iprot.skip(ftype)
            elif fid == 2:
                if ftype == TType.I32:
                    self.times = iprot.readI32()
                else:
                    iprot.skip(ftype)
            else:
                iprot.skip(ftype)
            iprot.readFieldEnd()
        iprot.readStructEnd()

    def write(self, oprot):
        if oprot._fast_encode is not None and self.thrift_spec is not None:
            oprot.trans.write(oprot._fast_encode(self, [self.__class__, self.thrift_spec]))
            return
        oprot.writeStructBegin('xform_args')
        if self.item is not None:
            oprot.writeFieldBegin('item', TType.STRUCT, 1)
            self.item.write(oprot)
            oprot.writeFieldEnd()
        if self.times is not None:
            oprot.writeFieldBegin('times', TType.I32, 2)
            oprot.writeI32(self.times)
            oprot.writeFieldEnd()
        oprot.writeFieldStop()
        oprot.writeStructEnd()

    def validate(self):
        return

    def __repr__(self):
        L = ['%s=%r' % (key, value)
             for key, value in self.__dict__.items()]
        return '%s(%s)' % (self.__class__.__name__, ', '.join(L))

    def __eq__(self, other):
        return isinstance(other, self.__class__) and self.__dict__ == other.__dict__

    def __ne__(self, other):
        return not (self == other)
all_structs.append(xform_args)
xform_args.thrift_spec = (
    None,  # 0
    (1, TType.STRUCT, 'item', [Item, None], None, ),  # 1
    (2, TType.I32, 'times', None, None, ),  # 2
)


class xform_result(object):
    """
    Attributes:
     - success
     - ouch

    """


    def __init__(self, success=None, ouch=None,):
        self.success = success
        self.ouch = ouch

    def read(self, iprot):
        if iprot._fast_decode is not None and isinstance(iprot.trans, TTransport.CReadableTransport) and self.thrift_spec is not None:
            iprot._fast_decode(self, iprot, [self.__class__, self.thrift_spec])
            return
        iprot.readStructBegin()
        while True:
            (fname, ftype, fid) = iprot.readFieldBegin()
            if ftype == TType.STOP:
                break
            if fid == 0:
                if ftype == TType.STRUCT:
                    self.success = Item()
                    self.success.read(iprot)
                else:
                    iprot.skip(ftype)
            elif fid == 1:
                if ftype == TType.STRUCT:
                    self.ouch = Ouch()
                    self.ouch.read(iprot)
                else:
                    iprot.skip(ftype)
            else:
                iprot.skip(ftype)
            iprot.readFieldEnd()
        iprot.readStructEnd()

    def write(self, oprot):
        if oprot._fast_encode is not None and self.thrift_spec is not None:
            oprot.trans.write(oprot._fast_encode(self, [self.__class__, self.thrift_spec]))
            return
        oprot.writeStructBegin('xform_result')
        if self.success is not None:
            oprot.writeFieldBegin('success', TType.STRUCT, 0)
            self.success.write(oprot)
            oprot.writeFieldEnd()
        if self.ouch is not None:
            oprot.writeFieldBegin('ouch', TType.STRUCT, 1)
            self.ouch.write(oprot)
            oprot.writeFieldEnd()
        oprot.writeFieldStop()
        oprot.writeStructEnd()

    def validate(self):
        return

    def __repr__(self):
        L = ['%s=%r' % (key, value)
             for key, value in self.__dict__.items()]
        return '%s(%s)' % (self.__class__.__name__, ', '.join(L))

    def __eq__(self, other):
        return isinstance(other, self.__class__) and self.__dict__ == other.__dict__

    def __ne__(self, other):
        return not (self == other)
all_structs.append(xform_result)
xform_result.thrift_spec = (
    (0, TType.STRUCT, 'success', [Item, None], None, ),  # 0
    (1, TType.STRUCT, 'ouch', [Ouch, None], None, ),  # 1
)


class wrap_args(object):
    """
    Attributes:
     - box

    """


    def __init__(self, box=None,):
        self.box = box

    def read(self, iprot):
        if iprot._fast_decode is not None and isinstance(iprot.trans, TTransport.CReadableTransport) and self.thrift_spec is not None:
            iprot._fast_decode(self, iprot, [self.__class__, self.thrift_spec])
            return
        iprot.readStructBegin()
        while True:
            (fname, ftype, fid) = iprot.readFieldBegin()
            if ftype == TType.STOP:
                break
            if fid == 1:
                if ftype == TType.STRUCT:
                    self.box = Box()
                    self.box.read(iprot)
                else:
                    iprot.skip(ftype)
            else:
                iprot.skip(ftype)
            iprot.readFieldEnd()
        iprot.readStructEnd()

    def write(self, oprot):
        if oprot._fast_encode is not None and self.thrift_spec is not None:
            oprot.trans.write(oprot._fast_encode(self, [self.__class__, self.thrift_spec]))
            return
        oprot.writeStructBegin('wrap_args')
        if self.box is not None:
            oprot.writeFieldBegin('box', TType.STRUCT, 1)
            self.box.write(oprot)
            oprot.writeFieldEnd()
        oprot.writeFieldStop()
        oprot.writeStructEnd()

    def validate(self):
        return

    def __repr__(self):
        L = ['%s=%r' % (key, value)
             for key, value in self.__dict__.items()]
        return '%s(%s)' % (self.__class__.__name__, ', '.join(L))

    def __eq__(self, other):
        return isinstance(other, self.__class__) and self.__dict__ == other.__dict__

    def __ne__(self, other):
        return not (self == other)
all_structs.append(wrap_args)
wrap_args.thrift_spec = (
    None,  # 0
    (1, TType.STRUCT, 'box', [Box, None], None, ),  # 1
)


class wrap_result(object):
    """
    Attributes:
     - success

    """


    def __init__(self, success=None,):
        self.success = success

    def read(self, iprot):
        if iprot._fast_decode is not None and isinstance(iprot.trans, TTransport.CReadableTransport) and self.thrift_spec is not None:
            iprot._fast_decode(self, iprot, [self.__class__, self.thrift_spec])
            return
        iprot.readStructBegin()
        while True:
            (fname, ftype, fid) = iprot.readFieldBegin()
            if ftype == TType.STOP:
                break
            if fid == 0:
                if ftype == TType.STRUCT:
                    self.success = Box()
                    self.success.read(iprot)
                else:
                    iprot.skip(ftype)
            else:
                iprot.skip(ftype)
            iprot.readFieldEnd()
        iprot.readStructEnd()

    def write(self, oprot):
        if oprot._fast_encode is not None and self.thrift_spec is not None:
            oprot.trans.write(oprot._fast_encode(self, [self.__class__, self.thrift_spec]))
            return
        oprot.writeStructBegin('wrap_result')
        if self.success is not None:
            oprot.writeFieldBegin('success', TType.STRUCT, 0)
            self.success.write(oprot)
            oprot.writeFieldEnd()
        oprot.writeFieldStop()
        oprot.writeStructEnd()

    def validate(self):
        return

    def __repr__(self):
        L = ['%s=%r' % (key, value)
             for key, value in self.__dict__.items()]
        return '%s(%s)' % (self.__class__.__name__, ', '.join(L))

    def __eq__(self, other):
        return isinstance(other, self.__class__) and self.__dict__ == other.__dict__

    def __ne__(self, other):
        return not (self == other)
all_structs.append(wrap_result)
wrap_result.thrift_spec = (
    (0, TType.STRUCT, 'success', [Box, None], None, ),  # 0
)


class ping_args(object):
    """
    Attributes:
     - n

    """


    def __init__(self, n=None,):
        self.n = n

    def read(self, iprot):
        if iprot._fast_decode is not None and isinstance(iprot.trans, TTransport.CReadableTransport) and self.thrift_spec is not None:
            iprot._fast_decode(self, iprot, [self.__class__, self.thrift_spec])
            return
        iprot.readStructBegin()
        while True:
            (fname, ftype, fid) = iprot.readFieldBegin()
            if ftype == TType.STOP:
                break
            if fid == 1:
                if ftype == TType.I32:
                    self.n = iprot.readI32()
                else:
                    iprot.skip(ftype)
            else:
                iprot.skip(ftype)
            iprot.readFieldEnd()
        iprot.readStructEnd()

    def write(self, oprot):
        if oprot._fast_encode is not None and self.thrift_spec is not None:
            oprot.trans.write(oprot._fast_encode(self, [self.__class__, self.thrift_spec]))
            return
        oprot.writeStructBegin('ping_args')
        if self.n is not None:
            oprot.writeFieldBegin('n', TType.I32, 1)
            oprot.writeI32(self.n)
            oprot.writeFieldEnd()
        oprot.writeFieldStop()
        oprot.writeStructEnd()

    def validate(self):
        return

    def __repr__(self):
        L = ['%s=%r' % (key, value)
             for key, value in self.__dict__.items()]
        return '%s(%s)' % (self.__class__.__name__, ', '.join(L))

    def __eq__(self, other):
        return isinstance(other, self.__class__) and self.__dict__ == other.__dict__

    def __ne__(self, other):
        return not (self == other)
all_structs.append(ping_args)
ping_args.thrift_spec = (
    None,  # 0
    (1, TType.I32, 'n', None, None, ),  # 1
)


class ping_result(object):


    def read(self, iprot):
        if iprot._fast_decode is not None and isinstance(iprot.trans, TTransport.CReadableTransport) and self.thrift_spec is not None:
            iprot._fast_decode(self, iprot, [self.__class__, self.thrift_spec])
            return
        iprot.readStructBegin()
        while True:
            (fname, ftype, fid) = iprot.readFieldBegin()
            if ftype == TType.STOP:
                break
            else:
                iprot.skip(ftype)
            iprot.readFieldEnd()
        iprot.readStructEnd()

    def write(self, oprot):
        if oprot._fast_encode is not None and self.thrift_spec is not None:
            oprot.trans.write(oprot._fast_encode(self, [self.__class__, self.thrift_spec]))
            return
        oprot.writeStructBegin('ping_result')
        oprot.writeFieldStop()
        oprot.writeStructEnd()

    def validate(self):
        return

    def __repr__(self):
        L = ['%s=%r' % (key, value)
             for key, value in self.__dict__.items()]
        return '%s(%s)' % (self.__class__.__name__, ', '.join(L))

    def __eq__(self, other):
        return isinstance(other, self.__class__) and self.__dict__ == other.__dict__

    def __ne__(self, other):
        return not (self == other)
all_structs.append(ping_result)
ping_result.thrift_spec = (
)


class pingx_args(object):
    """
    Attributes:
     - s

    """


    def __init__(self, s=None,):
        self.s = s

    def read(self, iprot):
        if iprot._fast_decode is not None and isinstance(iprot.trans, TTransport.CReadableTransport) and self.thrift_spec is not None:
            iprot._fast_decode(self, iprot, [self.__class__, self.thrift_spec])
            return
        iprot.readStructBegin()
        while True:
            (fname, ftype, fid) = iprot.readFieldBegin()
            if ftype == TType.STOP:
                break
            if fid == 1:
                if ftype == TType.STRING:
                    self.s = iprot.readString().decode('utf-8') if sys.version_info[0] == 2 else iprot.readString()
                else:
                    iprot.skip(ftype)
            else:
                iprot.skip(ftype)
            iprot.readFieldEnd()
        iprot.readStructEnd()

    def write(self, oprot):
        if oprot._fast_encode is not None and self.thrift_spec is not None:
            oprot.trans.write(oprot._fast_encode(self, [self.__class__, self.thrift_spec]))
            return
        oprot.writeStructBegin('pingx_args')
        if self.s is not None:
            oprot.writeFieldBegin('s', TType.STRING, 1)
            oprot.writeString(self.s.encode('utf-8') if sys.version_info[0] == 2 else self.s)
            oprot.writeFieldEnd()
        oprot.writeFieldStop()
        oprot.writeStructEnd()

    def validate(self):
        return

    def __repr__(self):
        L = ['%s=%r' % (key, value)
             for key, value in self.__dict__.items()]
        return '%s(%s)' % (self.__class__.__name__, ', '.join(L))

    def __eq__(self, other):
        return isinstance(other, self.__class__) and self.__dict__ == other.__dict__

    def __ne__(self, other):
        return not (self == other)
all_structs.append(pingx_args)
pingx_args.thrift_spec = (
    None,  # 0
    (1, TType.STRING, 's', 'UTF8', None, ),  # 1
)


class pingx_result(object):
    """
    Attributes:
     - ouch

    """


    def __init__(self, ouch=None,):
        self.ouch = ouch

    def read(self, iprot):
        if iprot._fast_decode is not None and isinstance(iprot.trans, TTransport.CReadableTransport) and self.thrift_spec is not None:
            iprot._fast_decode(self, iprot, [self.__class__, self.thrift_spec])
            return
        iprot.readStructBegin()
        while True:
            (fname, ftype, fid) = iprot.readFieldBegin()
            if ftype == TType.STOP:
                break
            if fid == 1:
                if ftype == TType.STRUCT:
                    self.ouch = Ouch()
                    self.ouch.read(iprot)
                else:
                    iprot.skip(ftype)
            else:
                iprot.skip(ftype)
            iprot.readFieldEnd()
        iprot.readStructEnd()

    def write(self, oprot):
        if oprot._fast_encode is not None and self.thrift_spec is not None:
            oprot.trans.write(oprot._fast_encode(self, [self.__class__, self.thrift_spec]))
            return
        oprot.writeStructBegin('pingx_result')
        if self.ouch is not None:
            oprot.writeFieldBegin('ouch', TType.STRUCT, 1)
            self.ouch.write(oprot)
            oprot.writeFieldEnd()
        oprot.writeFieldStop()
        oprot.writeStructEnd()

    def validate(self):
        return

    def __repr__(self):
        L = ['%s=%r' % (key, value)
             for key, value in self.__dict__.items()]
        return '%s(%s)' % (self.__class__.__name__, ', '.join(L))

    def __eq__(self, other):
        return isinstance(other, self.__class__) and self.__dict__ == other.__dict__

    def __ne__(self, other):
        return not (self == other)
all_structs.append(pingx_result)
pingx_result.thrift_spec = (
    None,  # 0
    (1, TType.STRUCT, 'ouch', [Ouch, None], None, ),  # 1
)


class mix_args(object):
    """
    Attributes:
     - b
     - h
     - i
     - l
     - xs
     - blob

    """


    def __init__(self, b=None, h=None, i=None, l=None, xs=None, blob=None,):
        self.b = b
        self.h = h
        self.i = i
        self.l = l
        self.xs = xs
        self.blob = blob

    def read(self, iprot):
        if iprot._fast_decode is not None and isinstance(iprot.trans, TTransport.CReadableTransport) and self.thrift_spec is not None:
            iprot._fast_decode(self, iprot, [self.__class__, self.thrift_spec])
            return
        iprot.readStructBegin()
        while True:
            (fname, ftype, fid) = iprot.readFieldBegin()
            if ftype == TType.STOP:
                break
            if fid == 1:
                if ftype == TType.BOOL:
                    self.b = iprot.readBool()
                else:
                    iprot.skip(ftype)
            elif fid == 2:
                if ftype == TType.I16:
                    self.h = iprot.readI16()
                else:
                    iprot.skip(ftype)
            elif fid == 3:
                if ftype == TType.I32:
                    self.i = iprot.readI32()
                else:
                    iprot.skip(ftype)
            elif fid == 4:
                if ftype == TType.I64:
                    self.l = iprot.readI64()
                else:
                    iprot.skip(ftype)
            elif fid == 5:
                if ftype == TType.LIST:
                    self.xs = []
                    (_etype4, _size1) = iprot.readListBegin()
                    for _i5 in range(_size1):
                        _elem6 = iprot.readI32()
                        self.xs.append(_elem6)
                    iprot.readListEnd()
                else:
                    iprot.skip(ftype)
            elif fid == 6:
                if ftype == TType.STRING:
                    self.blob = iprot.readBinary()
                else:
                    iprot.skip(ftype)
            else:
                iprot.skip(ftype)
            iprot.readFieldEnd()
        iprot.readStructEnd()

    def write(self, oprot):
        if oprot._fast_encode is not None and self.thrift_spec is not None:
            oprot.trans.write(oprot._fast_encode(self, [self.__class__, self.thrift_spec]))
            return
        oprot.writeStructBegin('mix_args')
        if self.b is not None:
            oprot.writeFieldBegin('b', TType.BOOL, 1)
            oprot.writeBool(self.b)
            oprot.writeFieldEnd()
        if self.h is not None:
            oprot.writeFieldBegin('h', TType.I16, 2)
            oprot.writeI16(self.h)
            oprot.writeFieldEnd()
        if self.i is not None:
            oprot.writeFieldBegin('i', TType.I32, 3)
            oprot.writeI32(self.i)
            oprot.writeFieldEnd()
        if self.l is not None:
            oprot.writeFieldBegin('l', TType.I64, 4)
            oprot.writeI64(self.l)
            oprot.writeFieldEnd()
        if self.xs is not None:
            oprot.writeFieldBegin('xs', TType.LIST, 5)
            oprot.writeListBegin(TType.I32, len(self.xs))
            for iter2 in self.xs:
                oprot.writeI32(iter2)
            oprot.writeListEnd()
            oprot.writeFieldEnd()
        if self.blob is not None:
            oprot.writeFieldBegin('blob', TType.STRING, 6)
            oprot.writeBinary(self.blob)
            oprot.writeFieldEnd()
        oprot.writeFieldStop()
        oprot.writeStructEnd()

    def validate(self):
        return

    def __repr__(self):
        L = ['%s=%r' % (key, value)
             for key, value in self.__dict__.items()]
        return '%s(%s)' % (self.__class__.__name__, ', '.join(L))

    def __eq__(self, other):
        return isinstance(other, self.__class__) and self.__dict__ == other.__dict__

    def __ne__(self, other):
        return not (self == other)
all_structs.append(mix_args)
mix_args.thrift_spec = (
    None,  # 0
    (1, TType.BOOL, 'b', None, None, ),  # 1
    (2, TType.I16, 'h', None, None, ),  # 2
    (3, TType.I32, 'i', None, None, ),  # 3
    (4, TType.I64, 'l', None, None, ),  # 4
    (5, TType.LIST, 'xs', (TType.I32, None, False), None, ),  # 5
    (6, TType.STRING, 'blob', 'BINARY', None, ),  # 6
)


class mix_result(object):
    """
    Attributes:
     - success

    """


    def __init__(self, success=None,):
        self.success = success

    def read(self, iprot):
        if iprot._fast_decode is not None and isinstance(iprot.trans, TTransport.CReadableTransport) and self.thrift_spec is not None:
            iprot._fast_decode(self, iprot, [self.__class__, self.thrift_spec])
            return
        iprot.readStructBegin()
        while True:
            (fname, ftype, fid) = iprot.readFieldBegin()
            if ftype == TType.STOP:
                break
            if fid == 0:
                if ftype == TType.I64:
                    self.success = iprot.readI64()
                else:
                    iprot.skip(ftype)
            else:
                iprot.skip(ftype)
            iprot.readFieldEnd()
        iprot.readStructEnd()

    def write(self, oprot):
        if oprot._fast_encode is not None and self.thrift_spec is not None:
            oprot.trans.write(oprot._fast_encode(self, [self.__class__, self.thrift_spec]))
            return
        oprot.writeStructBegin('mix_result')
        if self.success is not None:
            oprot.writeFieldBegin('success', TType.I64, 0)
            oprot.writeI64(self.success)
            oprot.writeFieldEnd()
        oprot.writeFieldStop()
        oprot.writeStructEnd()

    def validate(self):
        return

    def __repr__(self):
        L = ['%s=%r' % (key, value)
             for key, value in self.__dict__.items()]
        return '%s(%s)' % (self.__class__.__name__, ', '.join(L))

    def __eq__(self, other):
        return isinstance(other, self.__class__) and self.__dict__ == other.__dict__

    def __ne__(self, other):
        return not (self == other)
all_structs.append(mix_result)
mix_result.thrift_spec = (
    (0, TType.I64, 'success', None, None, ),  # 0
)


class gap_args(object):
    """
    Attributes:
     - s

    """


    def __init__(self, s=None,):
        self.s = s

    def read(self, iprot):
        if iprot._fast_decode is not None and isinstance(iprot.trans, TTransport.CReadableTransport) and self.thrift_spec is not None:
            iprot._fast_decode(self, iprot, [self.__class__, self.thrift_spec])
            return
        iprot.readStructBegin()
        while True:
            (fname, ftype, fid) = iprot.readFieldBegin()
            if ftype == TType.STOP:
                break
            if fid == 1:
                if ftype == TType.STRING:
                    self.s = iprot.readString().decode('utf-8') if sys.version_info[0] == 2 else iprot.readString()
                else:
                    iprot.skip(ftype)
            else:
                iprot.skip(ftype)
            iprot.readFieldEnd()
        iprot.readStructEnd()

    def write(self, oprot):
        if oprot._fast_encode is not None and self.thrift_spec is not None:
            oprot.trans.write(oprot._fast_encode(self, [self.__class__, self.thrift_spec]))
            return
        oprot.writeStructBegin('gap_args')
        if self.s is not None:
            oprot.writeFieldBegin('s', TType.STRING, 1)
            oprot.writeString(self.s.encode('utf-8') if sys.version_info[0] == 2 else self.s)
            oprot.writeFieldEnd()
        oprot.writeFieldStop()
        oprot.writeStructEnd()

    def validate(self):
        return

    def __repr__(self):
        L = ['%s=%r' % (key, value)
             for key, value in self.__dict__.items()]
        return '%s(%s)' % (self.__class__.__name__, ', '.join(L))

    def __eq__(self, other):
        return isinstance(other, self.__class__) and self.__dict__ == other.__dict__

    def __ne__(self, other):
        return not (self == other)
all_structs.append(gap_args)
gap_args.thrift_spec = (
    None,  # 0
    (1, TType.STRING, 's', 'UTF8', None, ),  # 1
)


class gap_result(object):
    """
    Attributes:
     - success
     - a
     - c

    """


    def __init__(self, success=None, a=None, c=None,):
        self.success = success
        self.a = a
        self.c = c

    def read(self, iprot):
        if iprot._fast_decode is not None and isinstance(iprot.trans, TTransport.CReadableTransport) and self.thrift_spec is not None:
            iprot._fast_decode(self, iprot, [self.__class__, self.thrift_spec])
            return
        iprot.readStructBegin()
        while True:
            (fname, ftype, fid) = iprot.readFieldBegin()
            if ftype == TType.STOP:
                break
            if fid == 0:
                if ftype == TType.BOOL:
                    self.success = iprot.readBool()
                else:
                    iprot.skip(ftype)
            elif fid == 1:
                if ftype == TType.STRUCT:
                    self.a = Ouch()
                    self.a.read(iprot)
                else:
                    iprot.skip(ftype)
            elif fid == 3:
                if ftype == TType.STRUCT:
                    self.c = Other.read(iprot)
                else:
                    iprot.skip(ftype)
            else:
                iprot.skip(ftype)
            iprot.readFieldEnd()
        iprot.readStructEnd()

    def write(self, oprot):
        if oprot._fast_encode is not None and self.thrift_spec is not None:
            oprot.trans.write(oprot._fast_encode(self, [self.__class__, self.thrift_spec]))
            return
        oprot.writeStructBegin('gap_result')
        if self.success is not None:
            oprot.writeFieldBegin('success', TType.BOOL, 0)
            oprot.writeBool(self.success)
            oprot.writeFieldEnd()
        if self.a is not None:
            oprot.writeFieldBegin('a', TType.STRUCT, 1)
            self.a.write(oprot)
            oprot.writeFieldEnd()
        if self.c is not None:
            oprot.writeFieldBegin('c', TType.STRUCT, 3)
            self.c.write(oprot)
            oprot.writeFieldEnd()
        oprot.writeFieldStop()
        oprot.writeStructEnd()

    def validate(self):
        return

    def __repr__(self):
        L = ['%s=%r' % (key, value)
             for key, value in self.__dict__.items()]
        return '%s(%s)' % (self.__class__.__name__, ', '.join(L))

    def __eq__(self, other):
        return isinstance(other, self.__class__) and self.__dict__ == other.__dict__

    def __ne__(self, other):
        return not (self == other)
all_structs.append(gap_result)
gap_result.thrift_spec = (
    (0, TType.BOOL, 'success', None, None, ),  # 0
    (1, TType.STRUCT, 'a', [Ouch, None], None, ),  # 1
    None,  # 2
    (3, TType.STRUCT, 'c', [Other, None], None, ),  # 3
)


class skipv_args(object):
    """
    Attributes:
     - s

    """


    def __init__(self, s=None,):
        self.s = s

    def read(self, iprot):
        if iprot._fast_decode is not None and isinstance(iprot.trans, TTransport.CReadableTransport) and self.thrift_spec is not None:
            iprot._fast_decode(self, iprot, [self.__class__, self.thrift_spec])
            return
        iprot.readStructBegin()
        while True:
            (fname, ftype, fid) = iprot.readFieldBegin()
            if ftype == TType.STOP:
                break
            if fid == 1:
                if ftype == TType.STRING:
                    self.s = iprot.readString().decode('utf-8') if sys.version_info[0] == 2 else iprot.readString()
                else:
                    iprot.skip(ftype)
            else:
                iprot.skip(ftype)
            iprot.readFieldEnd()
        iprot.readStructEnd()

    def write(self, oprot):
        if oprot._fast_encode is not None and self.thrift_spec is not None:
            oprot.trans.write(oprot._fast_encode(self, [self.__class__, self.thrift_spec]))
            return
        oprot.writeStructBegin('skipv_args')
        if self.s is not None:
            oprot.writeFieldBegin('s', TType.STRING, 1)
            oprot.writeString(self.s.encode('utf-8') if sys.version_info[0] == 2 else self.s)
            oprot.writeFieldEnd()
        oprot.writeFieldStop()
        oprot.writeStructEnd()

    def validate(self):
        return

    def __repr__(self):
        L = ['%s=%r' % (key, value)
             for key, value in self.__dict__.items()]
        return '%s(%s)' % (self.__class__.__name__, ', '.join(L))

    def __eq__(self, other):
        return isinstance(other, self.__class__) and self.__dict__ == other.__dict__

    def __ne__(self, other):
        return not (self == other)
all_structs.append(skipv_args)
skipv_args.thrift_spec = (
    None,  # 0
    (1, TType.STRING, 's', 'UTF8', None, ),  # 1
)


class skipv_result(object):
    """
    Attributes:
     - e

    """


    def __init__(self, e=None,):
        self.e = e

    def read(self, iprot):
        if iprot._fast_decode is not None and isinstance(iprot.trans, TTransport.CReadableTransport) and self.thrift_spec is not None:
            iprot._fast_decode(self, iprot, [self.__class__, self.thrift_spec])
            return
        iprot.readStructBegin()
        while True:
            (fname, ftype, fid) = iprot.readFieldBegin()
            if ftype == TType.STOP:
                break
            if fid == 2:
                if ftype == TType.STRUCT:
                    self.e = Ouch()
                    self.e.read(iprot)
                else:
                    iprot.skip(ftype)
            else:
                iprot.skip(ftype)
            iprot.readFieldEnd()
        iprot.readStructEnd()

    def write(self, oprot):
        if oprot._fast_encode is not None and self.thrift_spec is not None:
            oprot.trans.write(oprot._fast_encode(self, [self.__class__, self.thrift_spec]))
            return
        oprot.writeStructBegin('skipv_result')
        if self.e is not None:
            oprot.writeFieldBegin('e', TType.STRUCT, 2)
            self.e.write(oprot)
            oprot.writeFieldEnd()
        oprot.writeFieldStop()
        oprot.writeStructEnd()

    def validate(self):
        return

    def __repr__(self):
        L = ['%s=%r' % (key, value)
             for key, value in self.__dict__.items()]
        return '%s(%s)' % (self.__class__.__name__, ', '.join(L))

    def __eq__(self, other):
        return isinstance(other, self.__class__) and self.__dict__ == other.__dict__

    def __ne__(self, other):
        return not (self == other)
all_structs.append(skipv_result)
skipv_result.thrift_spec = (
    None,  # 0
    None,  # 1
    (2, TType.STRUCT, 'e', [Ouch, None], None, ),  # 2
)


class fire_args(object):
    """
    Attributes:
     - s

    """


    def __init__(self, s=None,):
        self.s = s

    def read(self, iprot):
        if iprot._fast_decode is not None and isinstance(iprot.trans, TTransport.CReadableTransport) and self.thrift_spec is not None:
            iprot._fast_decode(self, iprot, [self.__class__, self.thrift_spec])
            return
        iprot.readStructBegin()
        while True:
            (fname, ftype, fid) = iprot.readFieldBegin()
            if ftype == TType.STOP:
                break
            if fid == 1:
                if ftype == TType.STRING:
                    self.s = iprot.readString().decode('utf-8') if sys.version_info[0] == 2 else iprot.readString()
                else:
                    iprot.skip(ftype)
            else:
                iprot.skip(ftype)
            iprot.readFieldEnd()
        iprot.readStructEnd()

    def write(self, oprot):
        if oprot._fast_encode is not None and self.thrift_spec is not None:
            oprot.trans.write(oprot._fast_encode(self, [self.__class__, self.thrift_spec]))
            return
        oprot.writeStructBegin('fire_args')
        if self.s is not None:
            oprot.writeFieldBegin('s', TType.STRING, 1)
            oprot.writeString(self.s.encode('utf-8') if sys.version_info[0] == 2 else self.s)
            oprot.writeFieldEnd()
        oprot.writeFieldStop()
        oprot.writeStructEnd()

    def validate(self):
        return

    def __repr__(self):
        L = ['%s=%r' % (key, value)
             for key, value in self.__dict__.items()]
        return '%s(%s)' % (self.__class__.__name__, ', '.join(L))

    def __eq__(self, other):
        return isinstance(other, self.__class__) and self.__dict__ == other.__dict__

    def __ne__(self, other):
        return not (self == other)
all_structs.append(fire_args)
fire_args.thrift_spec = (
    None,  # 0
    (1, TType.STRING, 's', 'UTF8', None, ),  # 1
)
fix_spec(all_structs)
del all_structs
