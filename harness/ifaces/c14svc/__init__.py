__all__ = ['ttypes', 'constants', 'C14Svc']
