#
# Hand-written in the style of the Thrift Compiler's `py` generator (see OrdSvc.py).
#
#  options string: py
#

from thrift.Thrift import TType, TMessageType, TFrozenDict, TException, TApplicationException
from thrift.protocol.TProtocol import TProtocolException
from thrift.TRecursive import fix_spec

import sys
from .ttypes import *
