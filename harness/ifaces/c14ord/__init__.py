__all__ = ['ttypes', 'constants', 'OrdSvc']
