#
# Hand-written in the style of the Thrift Compiler's `py` generator (see OrdSvc.py).
# A service whose parameter field ids are not in declaration order (descending, shuffled, with gaps); the structs are
# those of the c14svc test interface (`include "c14svc.thrift"`).
#
#  options string: py
#

from thrift.Thrift import TType, TMessageType, TFrozenDict, TException, TApplicationException
from thrift.protocol.TProtocol import TProtocolException
from thrift.TRecursive import fix_spec

import sys
import harness.ifaces.c14svc.ttypes
from harness.ifaces.c14svc.ttypes import Item, Ouch

from thrift.transport import TTransport
all_structs = []
fix_spec(all_structs)
del all_structs
