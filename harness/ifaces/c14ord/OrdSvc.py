#
# Hand-written in the style of the Thrift Compiler's `py` generator (no compiler is installed);
# layout and statements follow the compiler output for the IDL below (cf. ../hello/Hello.py, real 0.13.0 output):
# constructor, Iface/Client/handler call in DECLARATION order; write() and thrift_spec in FIELD-ID order.
#
#   service OrdSvc {
#     string transfer(2: string to_acct, 1: string from_acct),
#     i32    shuffle(3: i32 c, 1: string a, 7: bool g, 2: list<i32> b),
#     void   note(5: string text, 2: i64 when),
#     Item   pick(4: Item item, 1: i16 idx, 3: string tag) throws (1: Ouch ouch),
#     i64    span(2: i32 hi, 1: i32 lo),
#   }
#
#  options string: py
#

from thrift.Thrift import TType, TMessageType, TFrozenDict, TException, TApplicationException
from thrift.protocol.TProtocol import TProtocolException
from thrift.TRecursive import fix_spec

import sys
import logging
from .ttypes import *
from thrift.Thrift import TProcessor
from thrift.transport import TTransport
all_structs = []


class Iface(object):
    def transfer(self, to_acct, from_acct):
        """
        Parameters:
         - to_acct
         - from_acct

        """
        pass

    def shuffle(self, c, a, g, b):
        """
        Parameters:
         - c
         - a
         - g
         - b

        """
        pass

    def note(self, text, when):
        """
        Parameters:
         - text
         - when

        """
        pass

    def pick(self, item, idx, tag):
        """
        Parameters:
         - item
         - idx
         - tag

        """
        pass

    def span(self, hi, lo):
        """
        Parameters:
         - hi
         - lo

        """
        pass


class Client(Iface):
    def __init__(self, iprot, oprot=None):
        self._iprot = self._oprot = iprot
        if oprot is not None:
            self._oprot = oprot
        self._seqid = 0

    def transfer(self, to_acct, from_acct):
        """
        Parameters:
         - to_acct
         - from_acct

        """
        self.send_transfer(to_acct, from_acct)
        return self.recv_transfer()

    def send_transfer(self, to_acct, from_acct):
        self._oprot.writeMessageBegin('transfer', TMessageType.CALL, self._seqid)
        args = transfer_args()
        args.to_acct = to_acct
        args.from_acct = from_acct
        args.write(self._oprot)
        self._oprot.writeMessageEnd()
        self._oprot.trans.flush()

    def recv_transfer(self):
        iprot = self._iprot
        (fname, mtype, rseqid) = iprot.readMessageBegin()
        if mtype == TMessageType.EXCEPTION:
            x = TApplicationException()
            x.read(iprot)
            iprot.readMessageEnd()
            raise x
        result = transfer_result()
        result.read(iprot)
        iprot.readMessageEnd()
        if result.success is not None:
            return result.success
        raise TApplicationException(TApplicationException.MISSING_RESULT, "transfer failed: unknown result")

    def shuffle(self, c, a, g, b):
        """
        Parameters:
         - c
         - a
         - g
         - b

        """
        self.send_shuffle(c, a, g, b)
        return self.recv_shuffle()

    def send_shuffle(self, c, a, g, b):
        self._oprot.writeMessageBegin('shuffle', TMessageType.CALL, self._seqid)
        args = shuffle_args()
        args.c = c
        args.a = a
        args.g = g
        args.b = b
        args.write(self._oprot)
        self._oprot.writeMessageEnd()
        self._oprot.trans.flush()

    def recv_shuffle(self):
        iprot = self._iprot
        (fname, mtype, rseqid) = iprot.readMessageBegin()
        if mtype == TMessageType.EXCEPTION:
            x = TApplicationException()
            x.read(iprot)
            iprot.readMessageEnd()
            raise x
        result = shuffle_result()
        result.read(iprot)
        iprot.readMessageEnd()
        if result.success is not None:
            return result.success
        raise TApplicationException(TApplicationException.MISSING_RESULT, "shuffle failed: unknown result")

    def note(self, text, when):
        """
        Parameters:
         - text
         - when

        """
        self.send_note(text, when)
        self.recv_note()

    def send_note(self, text, when):
        self._oprot.writeMessageBegin('note', TMessageType.CALL, self._seqid)
        args = note_args()
        args.text = text
        args.when = when
        args.write(self._oprot)
        self._oprot.writeMessageEnd()
        self._oprot.trans.flush()

    def recv_note(self):
        iprot = self._iprot
        (fname, mtype, rseqid) = iprot.readMessageBegin()
        if mtype == TMessageType.EXCEPTION:
            x = TApplicationException()
            x.read(iprot)
            iprot.readMessageEnd()
            raise x
        result = note_result()
        result.read(iprot)
        iprot.readMessageEnd()
        return

    def pick(self, item, idx, tag):
        """
        Parameters:
         - item
         - idx
         - tag

        """
        self.send_pick(item, idx, tag)
        return self.recv_pick()

    def send_pick(self, item, idx, tag):
        self._oprot.writeMessageBegin('pick', TMessageType.CALL, self._seqid)
        args = pick_args()
        args.item = item
        args.idx = idx
        args.tag = tag
        args.write(self._oprot)
        self._oprot.writeMessageEnd()
        self._oprot.trans.flush()

    def recv_pick(self):
        iprot = self._iprot
        (fname, mtype, rseqid) = iprot.readMessageBegin()
        if mtype == TMessageType.EXCEPTION:
            x = TApplicationException()
            x.read(iprot)
            iprot.readMessageEnd()
            raise x
        result = pick_result()
        result.read(iprot)
        iprot.readMessageEnd()
        if result.success is not None:
            return result.success
        if result.ouch is not None:
            raise result.ouch
        raise TApplicationException(TApplicationException.MISSING_RESULT, "pick failed: unknown result")

    def span(self, hi, lo):
        """
        Parameters:
         - hi
         - lo

        """
        self.send_span(hi, lo)
        return self.recv_span()

    def send_span(self, hi, lo):
        self._oprot.writeMessageBegin('span', TMessageType.CALL, self._seqid)
        args = span_args()
        args.hi = hi
        args.lo = lo
        args.write(self._oprot)
        self._oprot.writeMessageEnd()
        self._oprot.trans.flush()

    def recv_span(self):
        iprot = self._iprot
        (fname, mtype, rseqid) = iprot.readMessageBegin()
        if mtype == TMessageType.EXCEPTION:
            x = TApplicationException()
            x.read(iprot)
            iprot.readMessageEnd()
            raise x
        result = span_result()
        result.read(iprot)
        iprot.readMessageEnd()
        if result.success is not None:
            return result.success
        raise TApplicationException(TApplicationException.MISSING_RESULT, "span failed: unknown result")


class Processor(Iface, TProcessor):
    def __init__(self, handler):
        self._handler = handler
        self._processMap = {}
        self._processMap["transfer"] = Processor.process_transfer
        self._processMap["shuffle"] = Processor.process_shuffle
        self._processMap["note"] = Processor.process_note
        self._processMap["pick"] = Processor.process_pick
        self._processMap["span"] = Processor.process_span
        self._on_message_begin = None

    def on_message_begin(self, func):
        self._on_message_begin = func

    def process(self, iprot, oprot):
        (name, type, seqid) = iprot.readMessageBegin()
        if self._on_message_begin:
            self._on_message_begin(name, type, seqid)
        if name not in self._processMap:
            iprot.skip(TType.STRUCT)
            iprot.readMessageEnd()
            x = TApplicationException(TApplicationException.UNKNOWN_METHOD, 'Unknown function %s' % (name))
            oprot.writeMessageBegin(name, TMessageType.EXCEPTION, seqid)
            x.write(oprot)
            oprot.writeMessageEnd()
            oprot.trans.flush()
            return
        else:
            self._processMap[name](self, seqid, iprot, oprot)
        return True

    def process_transfer(self, seqid, iprot, oprot):
        args = transfer_args()
        args.read(iprot)
        iprot.readMessageEnd()
        result = transfer_result()
        try:
            result.success = self._handler.transfer(args.to_acct, args.from_acct)
            msg_type = TMessageType.REPLY
        except TTransport.TTransportException:
            raise
        except TApplicationException as ex:
            logging.exception('TApplication exception in handler')
            msg_type = TMessageType.EXCEPTION
            result = ex
        except Exception:
            logging.exception('Unexpected exception in handler')
            msg_type = TMessageType.EXCEPTION
            result = TApplicationException(TApplicationException.INTERNAL_ERROR, 'Internal error')
        oprot.writeMessageBegin("transfer", msg_type, seqid)
        result.write(oprot)
        oprot.writeMessageEnd()
        oprot.trans.flush()

    def process_shuffle(self, seqid, iprot, oprot):
        args = shuffle_args()
        args.read(iprot)
        iprot.readMessageEnd()
        result = shuffle_result()
        try:
            result.success = self._handler.shuffle(args.c, args.a, args.g, args.b)
            msg_type = TMessageType.REPLY
        except TTransport.TTransportException:
            raise
        except TApplicationException as ex:
            logging.exception('TApplication exception in handler')
            msg_type = TMessageType.EXCEPTION
            result = ex
        except Exception:
            logging.exception('Unexpected exception in handler')
            msg_type = TMessageType.EXCEPTION
            result = TApplicationException(TApplicationException.INTERNAL_ERROR, 'Internal error')
        oprot.writeMessageBegin("shuffle", msg_type, seqid)
        result.write(oprot)
        oprot.writeMessageEnd()
        oprot.trans.flush()

    def process_note(self, seqid, iprot, oprot):
        args = note_args()
        args.read(iprot)
        iprot.readMessageEnd()
        result = note_result()
        try:
            self._handler.note(args.text, args.when)
            msg_type = TMessageType.REPLY
        except TTransport.TTransportException:
            raise
        except TApplicationException as ex:
            logging.exception('TApplication exception in handler')
            msg_type = TMessageType.EXCEPTION
            result = ex
        except Exception:
            logging.exception('Unexpected exception in handler')
            msg_type = TMessageType.EXCEPTION
            result = TApplicationException(TApplicationException.INTERNAL_ERROR, 'Internal error')
        oprot.writeMessageBegin("note", msg_type, seqid)
        result.write(oprot)
        oprot.writeMessageEnd()
        oprot.trans.flush()

    def process_pick(self, seqid, iprot, oprot):
        args = pick_args()
        args.read(iprot)
        iprot.readMessageEnd()
        result = pick_result()
        try:
            result.success = self._handler.pick(args.item, args.idx, args.tag)
            msg_type = TMessageType.REPLY
        except TTransport.TTransportException:
            raise
        except Ouch as ouch:
            msg_type = TMessageType.REPLY
            result.ouch = ouch
        except TApplicationException as ex:
            logging.exception('TApplication exception in handler')
            msg_type = TMessageType.EXCEPTION
            result = ex
        except Exception:
            logging.exception('Unexpected exception in handler')
            msg_type = TMessageType.EXCEPTION
            result = TApplicationException(TApplicationException.INTERNAL_ERROR, 'Internal error')
        oprot.writeMessageBegin("pick", msg_type, seqid)
        result.write(oprot)
        oprot.writeMessageEnd()
        oprot.trans.flush()

    def process_span(self, seqid, iprot, oprot):
        args = span_args()
        args.read(iprot)
        iprot.readMessageEnd()
        result = span_result()
        try:
            result.success = self._handler.span(args.hi, args.lo)
            msg_type = TMessageType.REPLY
        except TTransport.TTransportException:
            raise
        except TApplicationException as ex:
            logging.exception('TApplication exception in handler')
            msg_type = TMessageType.EXCEPTION
            result = ex
        except Exception:
            logging.exception('Unexpected exception in handler')
            msg_type = TMessageType.EXCEPTION
            result = TApplicationException(TApplicationException.INTERNAL_ERROR, 'Internal error')
        oprot.writeMessageBegin("span", msg_type, seqid)
        result.write(oprot)
        oprot.writeMessageEnd()
        oprot.trans.flush()

# HELPER FUNCTIONS AND STRUCTURES


class transfer_args(object):
    """
    Attributes:
     - to_acct
     - from_acct

    """


    def __init__(self, to_acct=None, from_acct=None,):
        self.to_acct = to_acct
        self.from_acct = from_acct

    def read(self, iprot):
        if iprot._fast_decode is not None and isinstance(iprot.trans, TTransport.CReadableTransport) and self.thrift_spec is not None:
            iprot._fast_decode(self, iprot, [self.__class__, self.thrift_spec])
            return
        iprot.readStructBegin()
        while True:
            (fname, ftype, fid) = iprot.readFieldBegin()
            if ftype == TType.STOP:
                break
            if fid == 2:
                if ftype == TType.STRING:
                    self.to_acct = iprot.readString().decode('utf-8') if sys.version_info[0] == 2 else iprot.readString()
                else:
                    iprot.skip(ftype)
            elif fid == 1:
                if ftype == TType.STRING:
                    self.from_acct = iprot.readString().decode('utf-8') if sys.version_info[0] == 2 else iprot.readString()
                else:
                    iprot.skip(ftype)
            else:
                iprot.skip(ftype)
            iprot.readFieldEnd()
        iprot.readStructEnd()

    def write(self, oprot):
        if oprot._fast_encode is not None and self.thrift_spec is not None:
            oprot.trans.write(oprot._fast_encode(self, [self.__class__, self.thrift_spec]))
            return
        oprot.writeStructBegin('transfer_args')
        if self.from_acct is not None:
            oprot.writeFieldBegin('from_acct', TType.STRING, 1)
            oprot.writeString(self.from_acct.encode('utf-8') if sys.version_info[0] == 2 else self.from_acct)
            oprot.writeFieldEnd()
        if self.to_acct is not None:
            oprot.writeFieldBegin('to_acct', TType.STRING, 2)
            oprot.writeString(self.to_acct.encode('utf-8') if sys.version_info[0] == 2 else self.to_acct)
            oprot.writeFieldEnd()
        oprot.writeFieldStop()
        oprot.writeStructEnd()

    def validate(self):
        return

    def __repr__(self):
        L = ['%s=%r' % (key, value)
             for key, value in self.__dict__.items()]
        return '%s(%s)' % (self.__class__.__name__, ', '.join(L))

    def __eq__(self, other):
        return isinstance(other, self.__class__) and self.__dict__ == other.__dict__

    def __ne__(self, other):
        return not (self == other)
all_structs.append(transfer_args)
transfer_args.thrift_spec = (
    None,  # 0
    (1, TType.STRING, 'from_acct', 'UTF8', None, ),  # 1
    (2, TType.STRING, 'to_acct', 'UTF8', None, ),  # 2
)


class transfer_result(object):
    """
    Attributes:
     - success

    """


    def __init__(self, success=None,):
        self.success = success

    def read(self, iprot):
        if iprot._fast_decode is not None and isinstance(iprot.trans, TTransport.CReadableTransport) and self.thrift_spec is not None:
            iprot._fast_decode(self, iprot, [self.__class__, self.thrift_spec])
            return
        iprot.readStructBegin()
        while True:
            (fname, ftype, fid) = iprot.readFieldBegin()
            if ftype == TType.STOP:
                break
            if fid == 0:
                if ftype == TType.STRING:
                    self.success = iprot.readString().decode('utf-8') if sys.version_info[0] == 2 else iprot.readString()
                else:
                    iprot.skip(ftype)
            else:
                iprot.skip(ftype)
            iprot.readFieldEnd()
        iprot.readStructEnd()

    def write(self, oprot):
        if oprot._fast_encode is not None and self.thrift_spec is not None:
            oprot.trans.write(oprot._fast_encode(self, [self.__class__, self.thrift_spec]))
            return
        oprot.writeStructBegin('transfer_result')
        if self.success is not None:
            oprot.writeFieldBegin('success', TType.STRING, 0)
            oprot.writeString(self.success.encode('utf-8') if sys.version_info[0] == 2 else self.success)
            oprot.writeFieldEnd()
        oprot.writeFieldStop()
        oprot.writeStructEnd()

    def validate(self):
        return

    def __repr__(self):
        L = ['%s=%r' % (key, value)
             for key, value in self.__dict__.items()]
        return '%s(%s)' % (self.__class__.__name__, ', '.join(L))

    def __eq__(self, other):
        return isinstance(other, self.__class__) and self.__dict__ == other.__dict__

    def __ne__(self, other):
        return not (self == other)
all_structs.append(transfer_result)
transfer_result.thrift_spec = (
    (0, TType.STRING, 'success', 'UTF8', None, ),  # 0
)


class shuffle_args(object):
    """
    Attributes:
     - c
     - a
     - g
     - b

    """


    def __init__(self, c=None, a=None, g=None, b=None,):
        self.c = c
        self.a = a
        self.g = g
        self.b = b

    def read(self, iprot):
        if iprot._fast_decode is not None and isinstance(iprot.trans, TTransport.CReadableTransport) and self.thrift_spec is not None:
            iprot._fast_decode(self, iprot, [self.__class__, self.thrift_spec])
            return
        iprot.readStructBegin()
        while True:
            (fname, ftype, fid) = iprot.readFieldBegin()
            if ftype == TType.STOP:
                break
            if fid == 3:
                if ftype == TType.I32:
                    self.c = iprot.readI32()
                else:
                    iprot.skip(ftype)
            elif fid == 1:
                if ftype == TType.STRING:
                    self.a = iprot.readString().decode('utf-8') if sys.version_info[0] == 2 else iprot.readString()
                else:
                    iprot.skip(ftype)
            elif fid == 7:
                if ftype == TType.BOOL:
                    self.g = iprot.readBool()
                else:
                    iprot.skip(ftype)
            elif fid == 2:
                if ftype == TType.LIST:
                    self.b = []
                    (_etype4, _size1) = iprot.readListBegin()
                    for _i5 in range(_size1):
                        _elem6 = iprot.readI32()
                        self.b.append(_elem6)
                    iprot.readListEnd()
                else:
                    iprot.skip(ftype)
            else:
                iprot.skip(ftype)
            iprot.readFieldEnd()
        iprot.readStructEnd()

    def write(self, oprot):
        if oprot._fast_encode is not None and self.thrift_spec is not None:
            oprot.trans.write(oprot._fast_encode(self, [self.__class__, self.thrift_spec]))
            return
        oprot.writeStructBegin('shuffle_args')
        if self.a is not None:
            oprot.writeFieldBegin('a', TType.STRING, 1)
            oprot.writeString(self.a.encode('utf-8') if sys.version_info[0] == 2 else self.a)
            oprot.writeFieldEnd()
        if self.b is not None:
            oprot.writeFieldBegin('b', TType.LIST, 2)
            oprot.writeListBegin(TType.I32, len(self.b))
            for iter2 in self.b:
                oprot.writeI32(iter2)
            oprot.writeListEnd()
            oprot.writeFieldEnd()
        if self.c is not None:
            oprot.writeFieldBegin('c', TType.I32, 3)
            oprot.writeI32(self.c)
            oprot.writeFieldEnd()
        if self.g is not None:
            oprot.writeFieldBegin('g', TType.BOOL, 7)
            oprot.writeBool(self.g)
            oprot.writeFieldEnd()
        oprot.writeFieldStop()
        oprot.writeStructEnd()

    def validate(self):
        return

    def __repr__(self):
        L = ['%s=%r' % (key, value)
             for key, value in self.__dict__.items()]
        return '%s(%s)' % (self.__class__.__name__, ', '.join(L))

    def __eq__(self, other):
        return isinstance(other, self.__class__) and self.__dict__ == other.__dict__

    def __ne__(self, other):
        return not (self == other)
all_structs.append(shuffle_args)
shuffle_args.thrift_spec = (
    None,  # 0
    (1, TType.STRING, 'a', 'UTF8', None, ),  # 1
    (2, TType.LIST, 'b', (TType.I32, None, False), None, ),  # 2
    (3, TType.I32, 'c', None, None, ),  # 3
    None,  # 4
    None,  # 5
    None,  # 6
    (7, TType.BOOL, 'g', None, None, ),  # 7
)


class shuffle_result(object):
    """
    Attributes:
     - success

    """


    def __init__(self, success=None,):
        self.success = success

    def read(self, iprot):
        if iprot._fast_decode is not None and isinstance(iprot.trans, TTransport.CReadableTransport) and self.thrift_spec is not None:
            iprot._fast_decode(self, iprot, [self.__class__, self.thrift_spec])
            return
        iprot.readStructBegin()
        while True:
            (fname, ftype, fid) = iprot.readFieldBegin()
            if ftype == TType.STOP:
                break
            if fid == 0:
                if ftype == TType.I32:
                    self.success = iprot.readI32()
                else:
                    iprot.skip(ftype)
            else:
                iprot.skip(ftype)
            iprot.readFieldEnd()
        iprot.readStructEnd()

    def write(self, oprot):
        if oprot._fast_encode is not None and self.thrift_spec is not None:
            oprot.trans.write(oprot._fast_encode(self, [self.__class__, self.thrift_spec]))
            return
        oprot.writeStructBegin('shuffle_result')
        if self.success is not None:
            oprot.writeFieldBegin('success', TType.I32, 0)
            oprot.writeI32(self.success)
            oprot.writeFieldEnd()
        oprot.writeFieldStop()
        oprot.writeStructEnd()

    def validate(self):
        return

    def __repr__(self):
        L = ['%s=%r' % (key, value)
             for key, value in self.__dict__.items()]
        return '%s(%s)' % (self.__class__.__name__, ', '.join(L))

    def __eq__(self, other):
        return isinstance(other, self.__class__) and self.__dict__ == other.__dict__

    def __ne__(self, other):
        return not (self == other)
all_structs.append(shuffle_result)
shuffle_result.thrift_spec = (
    (0, TType.I32, 'success', None, None, ),  # 0
)


class note_args(object):
    """
    Attributes:
     - text
     - when

    """


    def __init__(self, text=None, when=None,):
        self.text = text
        self.when = when

    def read(self, iprot):
        if iprot._fast_decode is not None and isinstance(iprot.trans, TTransport.CReadableTransport) and self.thrift_spec is not None:
            iprot._fast_decode(self, iprot, [self.__class__, self.thrift_spec])
            return
        iprot.readStructBegin()
        while True:
            (fname, ftype, fid) = iprot.readFieldBegin()
            if ftype == TType.STOP:
                break
            if fid == 5:
                if ftype == TType.STRING:
                    self.text = iprot.readString().decode('utf-8') if sys.version_info[0] == 2 else iprot.readString()
                else:
                    iprot.skip(ftype)
            elif fid == 2:
                if ftype == TType.I64:
                    self.when = iprot.readI64()
                else:
                    iprot.skip(ftype)
            else:
                iprot.skip(ftype)
            iprot.readFieldEnd()
        iprot.readStructEnd()

    def write(self, oprot):
        if oprot._fast_encode is not None and self.thrift_spec is not None:
            oprot.trans.write(oprot._fast_encode(self, [self.__class__, self.thrift_spec]))
            return
        oprot.writeStructBegin('note_args')
        if self.when is not None:
            oprot.writeFieldBegin('when', TType.I64, 2)
            oprot.writeI64(self.when)
            oprot.writeFieldEnd()
        if self.text is not None:
            oprot.writeFieldBegin('text', TType.STRING, 5)
            oprot.writeString(self.text.encode('utf-8') if sys.version_info[0] == 2 else self.text)
            oprot.writeFieldEnd()
        oprot.writeFieldStop()
        oprot.writeStructEnd()

    def validate(self):
        return

    def __repr__(self):
        L = ['%s=%r' % (key, value)
             for key, value in self.__dict__.items()]
        return '%s(%s)' % (self.__class__.__name__, ', '.join(L))

    def __eq__(self, other):
        return isinstance(other, self.__class__) and self.__dict__ == other.__dict__

    def __ne__(self, other):
        return not (self == other)
all_structs.append(note_args)
note_args.thrift_spec = (
    None,  # 0
    None,  # 1
    (2, TType.I64, 'when', None, None, ),  # 2
    None,  # 3
    None,  # 4
    (5, TType.STRING, 'text', 'UTF8', None, ),  # 5
)


class note_result(object):


    def read(self, iprot):
        if iprot._fast_decode is not None and isinstance(iprot.trans, TTransport.CReadableTransport) and self.thrift_spec is not None:
            iprot._fast_decode(self, iprot, [self.__class__, self.thrift_spec])
            return
        iprot.readStructBegin()
        while True:
            (fname, ftype, fid) = iprot.readFieldBegin()
            if ftype == TType.STOP:
                break
            else:
                iprot.skip(ftype)
            iprot.readFieldEnd()
        iprot.readStructEnd()

    def write(self, oprot):
        if oprot._fast_encode is not None and self.thrift_spec is not None:
            oprot.trans.write(oprot._fast_encode(self, [self.__class__, self.thrift_spec]))
            return
        oprot.writeStructBegin('note_result')
        oprot.writeFieldStop()
        oprot.writeStructEnd()

    def validate(self):
        return

    def __repr__(self):
        L = ['%s=%r' % (key, value)
             for key, value in self.__dict__.items()]
        return '%s(%s)' % (self.__class__.__name__, ', '.join(L))

    def __eq__(self, other):
        return isinstance(other, self.__class__) and self.__dict__ == other.__dict__

    def __ne__(self, other):
        return not (self == other)
all_structs.append(note_result)
note_result.thrift_spec = (
)


class pick_args(object):
    """
    Attributes:
     - item
     - idx
     - tag

    """


    def __init__(self, item=None, idx=None, tag=None,):
        self.item = item
        self.idx = idx
        self.tag = tag

    def read(self, iprot):
        if iprot._fast_decode is not None and isinstance(iprot.trans, TTransport.CReadableTransport) and self.thrift_spec is not None:
            iprot._fast_decode(self, iprot, [self.__class__, self.thrift_spec])
            return
        iprot.readStructBegin()
        while True:
            (fname, ftype, fid) = iprot.readFieldBegin()
            if ftype == TType.STOP:
                break
            if fid == 4:
                if ftype == TType.STRUCT:
                    self.item = Item()
                    self.item.read(iprot)
                else:
                    iprot.skip(ftype)
            elif fid == 1:
                if ftype == TType.I16:
                    self.idx = iprot.readI16()
                else:
                    iprot.skip(ftype)
            elif fid == 3:
                if ftype == TType.STRING:
                    self.tag = iprot.readString().decode('utf-8') if sys.version_info[0] == 2 else iprot.readString()
                else:
                    iprot.skip(ftype)
            else:
                iprot.skip(ftype)
            iprot.readFieldEnd()
        iprot.readStructEnd()

    def write(self, oprot):
        if oprot._fast_encode is not None and self.thrift_spec is not None:
            oprot.trans.write(oprot._fast_encode(self, [self.__class__, self.thrift_spec]))
            return
        oprot.writeStructBegin('pick_args')
        if self.idx is not None:
            oprot.writeFieldBegin('idx', TType.I16, 1)
            oprot.writeI16(self.idx)
            oprot.writeFieldEnd()
        if self.tag is not None:
            oprot.writeFieldBegin('tag', TType.STRING, 3)
            oprot.writeString(self.tag.encode('utf-8') if sys.version_info[0] == 2 else self.tag)
            oprot.writeFieldEnd()
        if self.item is not None:
            oprot.writeFieldBegin('item', TType.STRUCT, 4)
            self.item.write(oprot)
            oprot.writeFieldEnd()
        oprot.writeFieldStop()
        oprot.writeStructEnd()

    def validate(self):
        return

    def __repr__(self):
        L = ['%s=%r' % (key, value)
             for key, value in self.__dict__.items()]
        return '%s(%s)' % (self.__class__.__name__, ', '.join(L))

    def __eq__(self, other):
        return isinstance(other, self.__class__) and self.__dict__ == other.__dict__

    def __ne__(self, other):
        return not (self == other)
all_structs.append(pick_args)
pick_args.thrift_spec = (
    None,  # 0
    (1, TType.I16, 'idx', None, None, ),  # 1
    None,  # 2
    (3, TType.STRING, 'tag', 'UTF8', None, ),  # 3
    (4, TType.STRUCT, 'item', [Item, None], None, ),  # 4
)


class pick_result(object):
    """
    Attributes:
     - success
     - ouch

    """


    def __init__(self, success=None, ouch=None,):
        self.success = success
        self.ouch = ouch

    def read(self, iprot):
        if iprot._fast_decode is not None and isinstance(iprot.trans, TTransport.CReadableTransport) and self.thrift_spec is not None:
            iprot._fast_decode(self, iprot, [self.__class__, self.thrift_spec])
            return
        iprot.readStructBegin()
        while True:
            (fname, ftype, fid) = iprot.readFieldBegin()
            if ftype == TType.STOP:
                break
            if fid == 0:
                if ftype == TType.STRUCT:
                    self.success = Item()
                    self.success.read(iprot)
                else:
                    iprot.skip(ftype)
            elif fid == 1:
                if ftype == TType.STRUCT:
                    self.ouch = Ouch()
                    self.ouch.read(iprot)
                else:
                    iprot.skip(ftype)
            else:
                iprot.skip(ftype)
            iprot.readFieldEnd()
        iprot.readStructEnd()

    def write(self, oprot):
        if oprot._fast_encode is not None and self.thrift_spec is not None:
            oprot.trans.write(oprot._fast_encode(self, [self.__class__, self.thrift_spec]))
            return
        oprot.writeStructBegin('pick_result')
        if self.success is not None:
            oprot.writeFieldBegin('success', TType.STRUCT, 0)
            self.success.write(oprot)
            oprot.writeFieldEnd()
        if self.ouch is not None:
            oprot.writeFieldBegin('ouch', TType.STRUCT, 1)
            self.ouch.write(oprot)
            oprot.writeFieldEnd()
        oprot.writeFieldStop()
        oprot.writeStructEnd()

    def validate(self):
        return

    def __repr__(self):
        L = ['%s=%r' % (key, value)
             for key, value in self.__dict__.items()]
        return '%s(%s)' % (self.__class__.__name__, ', '.join(L))

    def __eq__(self, other):
        return isinstance(other, self.__class__) and self.__dict__ == other.__dict__

    def __ne__(self, other):
        return not (self == other)
all_structs.append(pick_result)
pick_result.thrift_spec = (
    (0, TType.STRUCT, 'success', [Item, None], None, ),  # 0
    (1, TType.STRUCT, 'ouch', [Ouch, None], None, ),  # 1
)


class span_args(object):
    """
    Attributes:
     - hi
     - lo

    """


    def __init__(self, hi=None, lo=None,):
        self.hi = hi
        self.lo = lo

    def read(self, iprot):
        if iprot._fast_decode is not None and isinstance(iprot.trans, TTransport.CReadableTransport) and self.thrift_spec is not None:
            iprot._fast_decode(self, iprot, [self.__class__, self.thrift_spec])
            return
        iprot.readStructBegin()
        while True:
            (fname, ftype, fid) = iprot.readFieldBegin()
            if ftype == TType.STOP:
                break
            if fid == 2:
                if ftype == TType.I32:
                    self.hi = iprot.readI32()
                else:
                    iprot.skip(ftype)
            elif fid == 1:
                if ftype == TType.I32:
                    self.lo = iprot.readI32()
                else:
                    iprot.skip(ftype)
            else:
                iprot.skip(ftype)
            iprot.readFieldEnd()
        iprot.readStructEnd()

    def write(self, oprot):
        if oprot._fast_encode is not None and self.thrift_spec is not None:
            oprot.trans.write(oprot._fast_encode(self, [self.__class__, self.thrift_spec]))
            return
        oprot.writeStructBegin('span_args')
        if self.lo is not None:
            oprot.writeFieldBegin('lo', TType.I32, 1)
            oprot.writeI32(self.lo)
            oprot.writeFieldEnd()
        if self.hi is not None:
            oprot.writeFieldBegin('hi', TType.I32, 2)
            oprot.writeI32(self.hi)
            oprot.writeFieldEnd()
        oprot.writeFieldStop()
        oprot.writeStructEnd()

    def validate(self):
        return

    def __repr__(self):
        L = ['%s=%r' % (key, value)
             for key, value in self.__dict__.items()]
        return '%s(%s)' % (self.__class__.__name__, ', '.join(L))

    def __eq__(self, other):
        return isinstance(other, self.__class__) and self.__dict__ == other.__dict__

    def __ne__(self, other):
        return not (self == other)
all_structs.append(span_args)
span_args.thrift_spec = (
    None,  # 0
    (1, TType.I32, 'lo', None, None, ),  # 1
    (2, TType.I32, 'hi', None, None, ),  # 2
)


class span_result(object):
    """
    Attributes:
     - success

    """


    def __init__(self, success=None,):
        self.success = success

    def read(self, iprot):
        if iprot._fast_decode is not None and isinstance(iprot.trans, TTransport.CReadableTransport) and self.thrift_spec is not None:
            iprot._fast_decode(self, iprot, [self.__class__, self.thrift_spec])
            return
        iprot.readStructBegin()
        while True:
            (fname, ftype, fid) = iprot.readFieldBegin()
            if ftype == TType.STOP:
                break
            if fid == 0:
                if ftype == TType.I64:
                    self.success = iprot.readI64()
                else:
                    iprot.skip(ftype)
            else:
                iprot.skip(ftype)
            iprot.readFieldEnd()
        iprot.readStructEnd()

    def write(self, oprot):
        if oprot._fast_encode is not None and self.thrift_spec is not None:
            oprot.trans.write(oprot._fast_encode(self, [self.__class__, self.thrift_spec]))
            return
        oprot.writeStructBegin('span_result')
        if self.success is not None:
            oprot.writeFieldBegin('success', TType.I64, 0)
            oprot.writeI64(self.success)
            oprot.writeFieldEnd()
        oprot.writeFieldStop()
        oprot.writeStructEnd()

    def validate(self):
        return

    def __repr__(self):
        L = ['%s=%r' % (key, value)
             for key, value in self.__dict__.items()]
        return '%s(%s)' % (self.__class__.__name__, ', '.join(L))

    def __eq__(self, other):
        return isinstance(other, self.__class__) and self.__dict__ == other.__dict__

    def __ne__(self, other):
        return not (self == other)
all_structs.append(span_result)
span_result.thrift_spec = (
    (0, TType.I64, 'success', None, None, ),  # 0
)
fix_spec(all_structs)
del all_structs
