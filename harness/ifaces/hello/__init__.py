__all__ = ['ttypes', 'constants', 'Hello']
