"""python -m harness.streamrun : read a JSON list of scenario specs on stdin, run each through the real client stack in the
simulated world (harness/scenario.py) and print, per spec, the per-connection socket writes and delivered byte streams.
Run as a separate process so that the world's monkey-patching of the scales modules does not leak into the caller
(harness/props/c13.py also drives un-patched sinks directly)."""
import json
import sys


def main():
  from . import scenario
  from . import vworld as V
  import scales.message as M
  # Deadline.__init__ does a function-local `import time`, which the world cannot redirect: pin the wall-clock second it
  # stamps into the deadline context to the virtual clock so that a case's byte stream is a function of the case alone
  # (the timestamp itself is checked by C13's 'pipeline' cases, which patch time.time)
  orig_init = M.Deadline.__init__

  def init(self, timeout):
    orig_init(self, timeout)
    try:
      self._ts = int(V.W().clock.now) * 1000000000
    except Exception:
      pass
  M.Deadline.__init__ = init
  specs = json.load(sys.stdin)
  out = []
  for spec in specs:
    spec = dict(spec)
    spec['want_streams'] = True
    try:
      tr = scenario.run(spec)
      out.append({'conns': tr.get('conns', []), 'crashes': len(tr.get('crashes', [])),
                  'ncalls': len(tr.get('calls', {})), 'open_failed': bool(tr.get('open_failed'))})
    except Exception as e:   # harness failure: reported, never silently dropped
      out.append({'harness_error': '%s: %s' % (type(e).__name__, e)})
  json.dump(out, sys.stdout)


if __name__ == '__main__':
  main()
