"""Seeded generator of full-stack scenarios (see harness/scenario.py for the spec format)."""
from . import common as C

ACTS_COMMON = [{'act': 'drop'}, {'act': 'close'}, {'act': 'reset'}, {'act': 'garbage'}, {'act': 'exc'}, {'act': 'null'}]
ACTS_MUX = [{'act': 'dup'}, {'act': 'bogus', 'bogus_tag': 1}, {'act': 'bogus', 'bogus_tag': 7}, {'act': 'rerr'}]


def gen(r, stack=None, profile='mixed', idx=0):
  """profile: 'mixed' | 'timeouts' (many deadline races) | 'faults' | 'outage' (long reachability schedules)."""
  stack = stack or r.choice(['thrift', 'mux'])
  n_ep = r.choice([1, 1, 2, 3])
  timeout = r.choice([8, 16, 32, 64, 100, 128])
  n_calls = r.choice([1, 2, 3, 5, 8, 12])
  span = r.choice([4, 40, 200])
  spec = {'stack': stack, 'tie': r.choice(['fifo', 'lifo']), 'timeout': timeout, 'seed': r.randrange(1 << 30),
          'resolution': r.choice([1, 1, 4]), 'open_timeout0': r.random() < 0.3, 'endpoints': [], 'events': [], 'faults': []}
  if stack == 'thrift' and r.random() < 0.5:
    spec['pool'] = {'min': r.choice([0, 1, 2]), 'max': r.choice([1, 1, 2, 3]), 'maxq': r.choice([0, 1, 2, 5, 2 ** 31])}
  if r.random() < 0.5 or profile == 'outage':
    spec['resurrector'] = {'initial': r.choice([1, 2, 5]), 'max': r.choice([4, 8, 60])}
  call_ids = ['c%d' % i for i in range(n_calls)]
  for k in range(n_ep):
    ep = {'port': 9001 + k}
    default_delay = r.choice([0, 0, 1, 3, 10, 40])
    ep['default'] = {'act': 'reply', 'delay': default_delay}
    plan = {}
    for cid in call_ids:
      x = r.random()
      lim = {'mixed': 0.35, 'timeouts': 0.6, 'faults': 0.5, 'outage': 0.2}[profile]
      if x < lim:
        y = r.random()
        if profile == 'timeouts' or y < 0.45:
          # replies racing the deadline: just before / exactly at / just after
          d = timeout + r.choice([-3, -2, -1, 0, 0, 1, 2, 5]) - r.choice([0, 0, 1, 2])
          plan[cid] = r.choice([{'act': 'reply', 'delay': max(0, d)}, {'act': 'drop'}])
        elif y < 0.8:
          a = dict(r.choice(ACTS_COMMON + (ACTS_MUX if stack == 'mux' else [])))
          a['delay'] = r.choice([0, 0, 2, 9, timeout - 1, timeout, timeout + 1])
          plan[cid] = a
        else:
          plan[cid] = {'act': 'reply', 'delay': r.choice([0, 1, 5, 20]),
                       'chunks': [r.choice([1, 2, 3, 4, 7]) for _ in range(r.choice([1, 3, 8]))]}
    ep['plan'] = plan
    if stack == 'mux' and r.random() < 0.15:
      ep['ping'] = r.choice([False, 1, 2])
    reach = []
    y = r.random()
    if profile == 'outage' or y < 0.25:
      t = 0
      st = r.choice(['down', 'up', 'up', 'hang' if r.random() < 0.15 else 'down'])
      reach.append([0, st])
      for _ in range(r.choice([1, 2, 3])):
        t += r.choice([1, 10, 70, 200, 700])
        st = 'up' if st != 'up' else r.choice(['down', 'down', 'hang'])
        reach.append([t, st])
    ep['reach'] = reach
    if r.random() < 0.3:
      ep['connect_delay'] = r.choice([1, 2, 5, 12, 40])
    if r.random() < 0.15:
      ep['send_delay'] = r.choice([1, 2, 4, 9])
    if r.random() < 0.15 and n_ep > 1:
      ep['member'] = False
    spec['endpoints'].append(ep)
  if not any(ep.get('member', True) for ep in spec['endpoints']):
    spec['endpoints'][0]['member'] = True
  t = 0
  evs = []
  for cid in call_ids:
    t += r.choice([0, 0, 0, 1, 2, span // 2, span])
    e = {'at': t, 'op': 'call', 'id': cid}
    if r.random() < 0.25:
      e['timeout'] = r.choice([1, 2, 5, 8, 20, 64])
    if spec['open_timeout0'] and r.random() < 0.4:
      e['direct'] = True
    elif r.random() < 0.04:
      e['direct'] = True
      e['past'] = r.choice([1, 1, 3])
    evs.append(e)
  for _ in range(r.choice([0, 0, 0, 1, 2])):
    ep = r.choice(spec['endpoints'])
    evs.append({'at': r.randrange(0, t + 2), 'op': r.choice(['join', 'leave']), 'port': ep['port']})
  if r.random() < 0.08:
    evs.append({'at': r.randrange(0, t + 20), 'op': 'close'})
  if r.random() < 0.25:
    # a second, identically configured client in the same process; calls alternate between the two
    spec['twin'] = True
    for k, e in enumerate(evs):
      if e['op'] == 'call' and k % 2 == 1 and not e.get('direct'):
        e['client'] = 1
  if r.random() < 0.25 and n_calls >= 2:
    # sequential callers: a follow-up call issued the instant an earlier one completes
    calls_ = [e for e in evs if e['op'] == 'call' and not e.get('direct')]
    for k in range(r.choice([1, 2])):
      if len(calls_) >= 2:
        nxt = calls_.pop()
        evs.remove(nxt)
        head = r.choice(calls_)
        while head.get('then'):
          head = head['then']
        head['then'] = nxt
  spec['events'] = sorted(evs, key=lambda e: e['at'])
  nf = {'mixed': r.choice([0, 0, 0, 1]), 'timeouts': 0, 'faults': r.choice([1, 1, 2, 3]), 'outage': r.choice([0, 1])}[profile]
  for _ in range(nf):
    spec['faults'].append({'op': r.choice(['send', 'recv', 'recv', 'connect']), 'nth': r.choice([1, 2, 3, 4, 6, 9]),
                           'what': r.choice(['exc', 'eof', 'refuse']), 'port': None})
  def _end(e):
    t_end = e['at'] + (e.get('timeout') or timeout)
    n = e.get('then')
    while n is not None:
      t_end += (n.get('timeout') or timeout)
      n = n.get('then')
    return t_end
  last = max([_end(e) for e in evs if e['op'] == 'call'] + [0])
  spec['horizon'] = last + r.choice([12, 40, 200])
  spec['open_limit'] = r.choice([64, 640])
  if profile == 'outage':
    spec['horizon'] += 64 * r.choice([10, 70, 200])
  return spec
