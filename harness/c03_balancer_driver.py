"""Shared driver for C03 / C04 / C05: drives the REAL HeapBalancerSink (or ApertureBalancerSink with every
member active) over mock channel sinks, a mock server-set provider and scripted `random`, and provides
 * run_impl(case)      -> observation (resolved label sequence + what the implementation did after each label)
 * analyse(case, obs)  -> [(property-id, signature, message)]  reference oracles, independent of the Coq model
 * to_coq(case, obs)   -> Coq term of type Balancer.case
 * generators.

A case is {'kind': 'heap'|'aperture', 'st0': <initial channel state>, 'ops': [...]}.  Ops are *relative*
(so that shrinking keeps them meaningful) and are resolved at run time into the labels of Model/Balancer.v:

  ['join', ep] ['leave', ep]           server-set notifications (blocked behind __init_done before 'init')
  ['init', [ep...], seed]              GetServers() returns these members; seed scripts random.shuffle
  ['dispatch']
  ['complete', sel, k, jseed, kind]    complete an outstanding request: sel in any|min|max|ep, kind in
                                       reply|error|timeout|ctx (ctx: the pushed context is invoked directly)
  ['recomplete', k, via]               second completion of an already completed request (via stack|ctx)
  ['setchan', sel, k, st]              sel in member|any ; channel state st (1 Idle, 2 Open, 3 Busy, 4 Closed)
  ['fault', k]                         member channel k goes Closed and all its requests fail
  ['burst']                            membership probe: all member channels Open, dispatch until every member
                                       of the reference server set was hit (bounded by the least-loaded policy)
"""
import logging
import re
import sys

from . import common as C

_S = {}
IDLE = -2147483647
PENALTY = 2147483647


class Ep(object):
  """An endpoint object compared by value.  A fresh, equal object is built for every notification (as the
  ZooKeeper ServerSet does: each notification is parsed separately), so identity is never meaningful."""
  __slots__ = ('v',)

  def __init__(self, v):
    self.v = v

  def __eq__(self, o):
    return isinstance(o, Ep) and o.v == self.v

  def __ne__(self, o):
    return not self.__eq__(o)

  def __hash__(self):
    return hash(('Ep', self.v))

  def __str__(self):
    return str(self.v)
  __repr__ = __str__


def epval(e):
  return e.v if isinstance(e, Ep) else e


class _Rand(object):
  """Scripted stand-in for the `random` module inside scales.loadbalancer.heap / base."""

  def __init__(self):
    self.jseed = 0
    self.calls = []
    self.shuffle_seed = 0

  def randint(self, a, b):
    v = a + (self.jseed % (b - a + 1)) if b >= a else a
    self.calls.append(v)
    return v

  def shuffle(self, lst):
    import random as _r
    _r.Random(self.shuffle_seed).shuffle(lst)

  def choice(self, seq):
    return seq[self.jseed % len(seq)]

  def __getattr__(self, name):      # anything else: the real module
    import random as _r
    return getattr(_r, name)


class _LogTap(logging.Handler):
  def __init__(self):
    logging.Handler.__init__(self, logging.DEBUG)
    self.world = None

  def emit(self, record):
    w = self.world
    if w is None or '[c03]' not in record.name:
      return
    try:
      msg = record.getMessage()
    except Exception:
      return
    m = re.match(r'Marking node (-?\d+) (up|down)$', msg)
    if m:
      w.events.append([m.group(2), int(m.group(1))])
    elif msg.startswith('Decrementing load below Zero'):
      w.events.append(['warn'])


def setup():
  if _S:
    return
  if C.REPO not in sys.path:
    sys.path.insert(0, C.REPO)
  import scales
  assert scales.__file__.startswith(C.REPO), scales.__file__
  import gevent
  from gevent.event import Event
  from gevent.queue import Queue
  from scales.constants import SinkProperties, MessageProperties
  from scales.loadbalancer import heap as heapmod, base as basemod
  from scales.loadbalancer.heap import HeapBalancerSink
  from scales.loadbalancer.aperture import ApertureBalancerSink
  from scales.loadbalancer.serverset import ServerSetProvider
  from scales.asynchronous import AsyncResult
  from scales.message import Message, MethodReturnMessage, TimeoutError
  from scales.sink import (ClientMessageSink, ClientMessageSinkStack, SinkProviderBase, ClientTimeoutSink,
                           SharedSinkProvider)
  from scales.loadbalancer import aperture as apmod
  from scales import sink as sinkmod
  from scales.message import Deadline
  rnd = _Rand()
  heapmod.random = rnd
  basemod.random = rnd
  apmod.random = rnd

  class StubTimerQueue(object):
    """Stands in for scales.sink.GLOBAL_TIMER_QUEUE: the harness decides when a deadline fires."""

    def __init__(self):
      self.actions = []

    def Schedule(self, deadline, action):
      ent = {'action': action, 'cancelled': False}
      self.actions.append(ent)

      def cancel():
        ent['cancelled'] = True
      return cancel
  stubq = StubTimerQueue()
  sinkmod.GLOBAL_TIMER_QUEUE = stubq

  class BalProv(object):
    def __init__(self, bal):
      self.bal = bal

    def CreateSink(self, properties):
      return self.bal

  class FakeClock(object):
    def __init__(self):
      self.t = 0.0

    def Sample(self):
      self.t += 1.0
      return self.t
  tap = _LogTap()
  lg = logging.getLogger('scales.loadbalancer')
  lg.setLevel(logging.DEBUG)
  lg.propagate = False
  lg.addHandler(tap)

  class Chan(ClientMessageSink):
    def __init__(self, world, nid, ep):
      ClientMessageSink.__init__(self)
      self.world, self.nid, self.ep = world, nid, ep
      self._st = world.st0
      self.endpoint = ep

    @property
    def state(self):
      return self._st

    def Open(self):
      w = self.world
      w.opens.append(self.nid)
      if w.raise_on_open:
        w.raise_on_open = False
        raise ChanOpenError('opening channel %d failed synchronously' % self.nid)
      if w.open_fail_every and (self.nid + 1) % w.open_fail_every == 0:
        ar = AsyncResult()          # the open fails (asynchronously reported): _OnOpenNodeComplete's error path
        ar.set_exception(ChanOpenError('opening channel %d failed' % self.nid))
        return ar
      if self.world.shared:          # shared connections are re-opened after the last holder closed them
        self.world.events.append(['open', self.nid])
        if self._st == 4:
          self._st = self.world.st0
      return AsyncResult.Complete()

    def Close(self):
      w = self.world
      w.events.append(['close', self.nid])
      self._st = 4
      if w.raise_on_close:
        # closing the member's sink fails (the removal hook of the balancer raises)
        w.raise_on_close = False
        raise ChanCloseError('closing channel %d failed' % self.nid)
      if w.close_fails and w.on_close is not None:
        # like the real transports: Close() fails the requests still in flight, synchronously
        w.on_close(self)

    def AsyncProcessRequest(self, sink_stack, msg, stream, headers):
      sink_stack.Push(self, None)
      w = self.world
      w.received.append(self.nid)
      if w.failfast and self._st == 4 and w.on_failfast is not None:
        # a closed transport fails the request at once, inside the call
        w.on_failfast(self)

    def AsyncProcessResponse(self, sink_stack, context, stream, msg):
      sink_stack.AsyncProcessResponse(stream, msg)

  class CallerError(Exception):
    pass

  class ChanCloseError(Exception):
    pass

  class ChanOpenError(Exception):
    pass

  class CallerBase(BaseException):     # like gevent.Timeout: not an Exception
    pass

  class Caller(ClientMessageSink):
    """Bottom of every sink stack: records what the caller of the balancer sees."""

    def __init__(self):
      ClientMessageSink.__init__(self)
      self.got = []
      self.hook = None          # run from inside the handler (a caller that issues a follow-up request re-entrantly)
      self.raises = False       # the handler raises (a sink above the balancer fails while handling the reply)

    def AsyncProcessRequest(self, sink_stack, msg, stream, headers):
      raise NotImplementedError()

    def AsyncProcessResponse(self, sink_stack, context, stream, msg):
      self.got.append(msg)
      if self.hook is not None:
        h, self.hook = self.hook, None
        h()
      if self.raises:
        kind_, self.raises = self.raises, False
        if kind_ == 'base':
          raise CallerBase('the caller was interrupted while handling the reply')
        raise CallerError('the caller failed while handling the reply')

  class RecStack(ClientMessageSinkStack):
    """The real sink stack; additionally remembers what was pushed (to invoke a context twice)."""

    def __init__(self):
      ClientMessageSinkStack.__init__(self)
      self.pushed = []

    def Push(self, sink, context=None):
      self.pushed.append((sink, context))
      ClientMessageSinkStack.Push(self, sink, context)

  class Provider(SinkProviderBase):
    def __init__(self, world):
      SinkProviderBase.__init__(self)
      self.world = world

    def CreateSink(self, properties):
      w = self.world
      ep = epval(properties[SinkProperties.Endpoint])
      ch = Chan(w, len(w.chans), ep)
      w.chans.append(ch)
      w.events.append(['create', ch.nid, ep])
      return ch

    @property
    def sink_class(self):
      return Chan

  class Member(object):
    """A server-set member.  With epname the balancer is configured to use the named additional endpoint
    'aux' (= the endpoint the labels talk about); service_endpoint is then something else."""

    def __init__(self, ep, epname=False, noaux=False, epobj=False):
      self.label_ep = ep
      mk = Ep if epobj else (lambda v: v)      # epobj: a fresh, equal endpoint object per notification
      if epname:
        self.service_endpoint = mk(ep + 5000)
        self.additional_endpoints = {} if noaux else {'aux': mk(ep)}
      else:
        self.service_endpoint = mk(ep)
        self.additional_endpoints = {}

  class ServerSet(ServerSetProvider):
    def __init__(self, world):
      self.world = world
      self.on_join = self.on_leave = None
      self.release = Event()
      self.snapshot = []
      self.served = None

    def Initialize(self, on_join, on_leave):
      self.on_join, self.on_leave = on_join, on_leave

    def Close(self):
      pass

    def GetServers(self):
      self.release.wait()
      lst = [Member(e, self.world.epname, False, self.world.epobj) for e in self.snapshot]
      self.served = lst
      return lst

    @property
    def endpoint_name(self):
      return 'aux' if self.world.epname else None

  _S.update(gevent=gevent, Event=Event, Queue=Queue, SinkProperties=SinkProperties,
            MessageProperties=MessageProperties, HeapBalancerSink=HeapBalancerSink,
            ApertureBalancerSink=ApertureBalancerSink, Message=Message, MethodReturnMessage=MethodReturnMessage,
            TimeoutError=TimeoutError, Chan=Chan, Caller=Caller, RecStack=RecStack, Provider=Provider,
            CallerError=CallerError, CallerBase=CallerBase, ChanOpenError=ChanOpenError, ChanCloseError=ChanCloseError, Member=Member, ServerSet=ServerSet, rnd=rnd, tap=tap, heapmod=heapmod, stubq=stubq, BalProv=BalProv,
            FakeClock=FakeClock, ClientTimeoutSink=ClientTimeoutSink, Deadline=Deadline,
            SharedSinkProvider=SharedSinkProvider)


class World(object):
  def __init__(self, case):
    self.st0 = case.get('st0', 2)
    self.epname = bool(case.get('epname'))
    self.epobj = bool(case.get('epobj'))
    self.shared = bool(case.get('shared'))
    self.close_fails = bool(case.get('close_fails')) and case.get('kind', 'heap') != 'aperture_real'
    self.raise_on_close = False
    self.on_close = None
    self.raise_on_open = False
    self.open_fail_every = int(case.get('open_fail_every') or 0)
    self.failfast = bool(case.get('failfast')) and case.get('kind', 'heap') != 'aperture_real'
    self.on_failfast = None
    self.dctx = None
    self.events = []
    self.opens = []
    self.received = []
    self.chans = []


def _make_balancer(world, case):
  kind = case.get('kind', 'heap')
  ss = _S['ServerSet'](world)
  prov = _S['Provider'](world)
  cls = _S['HeapBalancerSink'] if kind == 'heap' else _S['ApertureBalancerSink']
  props = cls.Builder._defaults.copy()
  props['server_set_provider'] = ss
  if kind == 'aperture':          # every member active: same code paths as the heap balancer
    props.update(min_size=100000, jitter_min_sec=0, jitter_max_sec=0)
  elif kind == 'aperture_real':   # a real aperture with idle servers outside it; no jitter
    props.update(min_size=case.get('min_size', 2), max_size=2 ** 31, jitter_min_sec=0, jitter_max_sec=0)
    if not case.get('adapt'):     # expansion only by node-down / leave, never by the load average
      props.update(min_load=-1.0, max_load=1e18)
  sp = cls.Builder.PARAMS_CLASS(**props)
  if case.get('shared'):
    # member channels come through the real SharedSinkProvider / RefCountedSink (one connection per endpoint,
    # shared by all incarnations of the member), as in the Kafka stack
    shared = _S['SharedSinkProvider'](lambda props_: ('ep', epval(props_[_S['SinkProperties'].Endpoint])))
    shared.next_provider = prov
    prov = shared
  bal = cls(prov, sp, {_S['SinkProperties'].Label: 'c03'})
  if kind != 'heap':
    bal._time = _S['FakeClock']()   # deterministic load average
  head = bal
  if case.get('tsink'):           # the real ClientTimeoutSink in front of the balancer, as scales.core builds it
    head = _S['ClientTimeoutSink'](_S['BalProv'](bal), None, {_S['SinkProperties'].Label: 'c03'})
  return bal, ss, head


def _chan_nid(ch):
  return ch.nid if hasattr(ch, 'nid') else ch.next_sink.nid


def _diag(bal):
  """Internal state, for diagnosis and the optional heap comparison only."""
  d = {}
  try:
    hp = bal._heap
    d['heap'] = [[_chan_nid(n.channel), n.load] for n in hp[1:]]
    d['index'] = [n.index for n in hp[1:]]
    d['size'] = bal._size
    d['servers'] = sorted(epval(k) for k in bal._servers.keys())
    d['eps'] = [epval(n.endpoint) for n in hp[1:]]
    if hasattr(bal, '_idle_endpoints'):
      d['idle'] = sorted(epval(k) for k in bal._idle_endpoints)
    dq = []
    n = bal._downq
    k = 0
    while n is not None and k < 10000:
      dq.append(_chan_nid(n.channel))
      n = n.downq
      k += 1
    d['downq'] = dq
  except Exception as e:        # renamed internals etc.: diagnostics unavailable, not an error
    d = {'unavailable': type(e).__name__}
  return d


class ImplHang(BaseException):
  pass


_HANGS = [0]


def run_impl(case):
  """Watchdog around the driver: a balancer that loops forever (e.g. a cyclic _downq list) becomes an
  observation {'hang': True} instead of a hung check.  The loops under test do not yield, so SIGALRM is used;
  the timer repeats, and when it fires inside another greenlet (the notification deliverer, a hub callback)
  the exception is thrown into the greenlet that runs the case - raised elsewhere it would be swallowed and
  the case would go on (and could spin again with the one-shot timer spent)."""
  import signal
  import greenlet as _greenlet
  setup()
  main_g = _greenlet.getcurrent()

  def on_alarm(_sig, _frm):
    exc = ImplHang()
    if _greenlet.getcurrent() is not main_g and not main_g.dead:
      main_g.throw(exc)
      return
    raise exc
  try:
    old = signal.signal(signal.SIGALRM, on_alarm)
  except ValueError:          # not in the main thread: no watchdog
    return _run_impl(case)
  signal.setitimer(signal.ITIMER_REAL, 5.0 if _HANGS[0] < 2 else 1.0, 1.0)
  try:
    try:
      return _run_impl(case)
    finally:
      signal.setitimer(signal.ITIMER_REAL, 0)
  except ImplHang:
    _HANGS[0] += 1
    _S['tap'].world = None
    return {'labels': [], 'steps': [], 'skipped': 0, 'opens': [], 'hang': True}
  finally:
    signal.setitimer(signal.ITIMER_REAL, 0)
    signal.signal(signal.SIGALRM, old)


def _run_impl(case):
  gevent = _S['gevent']
  w = World(case)
  rnd = _S['rnd']
  _S['tap'].world = w
  bal, ss, head = _make_balancer(w, case)
  epname = w.epname
  mapep = (lambda e: e + 100) if epname else (lambda e: e)
  stubq = _S['stubq']
  del stubq.actions[:]
  # a case is a pure function of its JSON: nothing of the scripted `random` survives from the previous case
  # (aperture expansion draws random.choice with the current jseed)
  rnd.jseed = 0
  rnd.shuffle_seed = 0
  del rnd.calls[:]
  q = _S['Queue']()
  prog = {'enq': 0, 'done': 0, 'exc': None}

  def deliverer():
    while True:
      kind, ep, noaux = q.get()
      try:
        (ss.on_join if kind == 'join' else ss.on_leave)(_S['Member'](ep, epname, noaux, w.epobj))
      except Exception as e:   # noqa
        prog['exc'] = type(e).__name__
      prog['done'] += 1

  labels = []
  steps = []
  out_reqs = []      # outstanding: dict(rid, nid, stack, caller)
  done_reqs = []
  state = {'init': False, 'nrid': 0, 'skipped': 0}
  ref_members = {}   # harness-side bookkeeping used only to RESOLVE relative ops (ep -> True)
  pending_notifs = []

  def settle():
    for _ in range(3):
      gevent.idle()

  def record(label, res, opi, extra=None):
    ev = w.events[:]
    del w.events[:]
    st = {'op': opi, 'res': res, 'events': ev, 'diag': _diag(bal)}
    if extra:
      st.update(extra)
    labels.append(label)
    steps.append(st)

  def live_chan(ep):
    for ch in reversed(w.chans):
      if ch.ep == ep:
        return ch
    return None

  def counts():
    c = {}
    for r in out_reqs:
      c[r['nid']] = c.get(r['nid'], 0) + 1
    return c

  def finish_dispatch(d):
    """Registers the request of dispatch context d and records the Dispatch step (once)."""
    d['recorded'] = True
    nid = d['rec'][0]
    rid = state['nrid']
    state['nrid'] += 1
    req = {'rid': rid, 'nid': nid, 'stack': d['stack'], 'caller': d['caller'],
           'timer': stubq.actions[d['n0']] if len(stubq.actions) > d['n0'] else None}
    out_reqs.append(req)
    d['nid'], d['req'] = nid, req
    record(['dispatch'], {'t': 'sent', 'nid': nid, 'ep': epval(d['msg'].properties.get(_S['MessageProperties'].Endpoint)),
                          'rid': rid, 'nrecv': len(d['rec'])}, d['opi'], d['extra'])

  def on_failfast(ch):
    """The chosen channel is closed and fails the request inline (inside AsyncProcessRequest): the dispatch is
    recorded at that instant (load counted, release pushed), then the completion."""
    d = w.dctx
    if d is None or d['recorded']:
      return
    ex = dict(d['extra'] or {})
    ex['failed_fast_inline'] = True
    d['extra'] = ex
    finish_dispatch(d)
    req = d['req']
    out_reqs.remove(req)
    done_reqs.append(req)
    d['caller'].hook = None
    # with retry: the caller dispatches again from inside its failure handler (Complete, then Dispatch)
    do_complete(req, 7, 'error+reenter' if d.get('retry') else 'error', d['opi'])
  w.on_failfast = on_failfast

  def do_dispatch(opi, extra=None, retry_on_inline_failure=False):
    stack = _S['RecStack']()
    caller = _S['Caller']()
    stack.Push(caller, None)
    msg = _S['Message']()
    rec = []
    outer_rec, outer_ctx = w.received, w.dctx
    w.received = rec
    d = {'stack': stack, 'caller': caller, 'msg': msg, 'n0': len(stubq.actions), 'opi': opi, 'extra': extra,
         'recorded': False, 'rec': rec, 'nid': None, 'retry': retry_on_inline_failure}
    w.dctx = d
    if head is not bal:
      import time as _time
      msg.properties[_S['Deadline'].KEY] = _time.time() + 1e6
    if retry_on_inline_failure:
      # a caller that retries at once, from inside its failure handler, when the request fails inside the call
      caller.hook = lambda: do_dispatch(opi, {'reentrant': True, 'retry_after_inline_failure': True})
    try:
      head.AsyncProcessRequest(stack, msg, None, {})
    except Exception as e:
      caller.hook = None
      w.received, w.dctx = outer_rec, outer_ctx
      if not d['recorded']:
        record(['dispatch'], {'t': 'exc', 'exc': type(e).__name__}, opi, extra)
      return None
    caller.hook = None
    w.received, w.dctx = outer_rec, outer_ctx
    if d['recorded']:
      return d['nid']
    if rec:
      finish_dispatch(d)
      return d['nid']
    err = None
    if caller.got:
      m = caller.got[0]
      err = type(m.error).__name__ if getattr(m, 'error', None) is not None else 'value'
    record(['dispatch'], {'t': 'failed', 'err': err}, opi, extra)
    return None

  def do_complete(req, jseed, kind, opi, again=False):
    """kind = reply|error|timeout|ctx, optionally '+raise' (the caller's handler raises after the reply reached it;
    the harness catches it where the transport/pool greenlet would) or '+reenter' (the caller issues a follow-up
    request from inside its handler: the completion is recorded at that instant, then the dispatch)."""
    base, _sep, mode = kind.partition('+')
    rnd.jseed = jseed
    del rnd.calls[:]
    stack = req['stack']
    caller = req['caller']
    before = len(caller.got)
    done = {'rec': False}

    def rec_complete(res_extra=None):
      j = rnd.calls[0] if rnd.calls else 0
      res = {'t': 'put', 'rand': len(rnd.calls), 'j': j}
      res.update(res_extra or {})
      record(['complete', req['rid'], j], res, opi,
             {'rid': req['rid'], 'nid': req['nid'], 'again': again, 'kind': kind,
              'real_timeout_sink': bool(base == 'timeout' and req.get('timer') is not None),
              'delivered': len(caller.got) - before})
      done['rec'] = True

    if mode in ('raise', 'raiseb') and base != 'ctx':
      caller.raises = 'base' if mode == 'raiseb' else True
    elif mode == 'reenter' and base != 'ctx':
      def hook():
        rec_complete({'reentrant_followup': True})
        do_dispatch(opi, {'reentrant': True})
      caller.hook = hook
    raised = False
    try:
      if base == 'ctx':
        ctxs = [c for (s, c) in stack.pushed if s is bal and c is not None]
        if ctxs:
          ctxs[0]()
      elif base == 'reply':
        stack.AsyncProcessResponseMessage(_S['MethodReturnMessage']('v'))
      elif base == 'error':
        stack.AsyncProcessResponseMessage(_S['MethodReturnMessage'](error=Exception('server error')))
      elif req.get('timer') is not None:
        # the deadline fires: the real ClientTimeoutSink._TimeoutHelper completes the call
        if not req['timer']['cancelled']:
          req['timer']['action']()
      else:
        stack.AsyncProcessResponseMessage(_S['MethodReturnMessage'](error=_S['TimeoutError']()))
    except (_S['CallerError'], _S['CallerBase']):
      raised = True
    except Exception as e:
      caller.hook, caller.raises = None, False
      if not done['rec']:
        record(['complete', req['rid'], 0], {'t': 'exc', 'exc': type(e).__name__}, opi,
               {'rid': req['rid'], 'nid': req['nid'], 'again': again, 'kind': kind})
      return
    caller.hook, caller.raises = None, False
    if not done['rec']:
      rec_complete({'caller_raised': True} if raised else None)

  def do_setchan(ch, st, opi, extra=None):
    ch._st = st
    record(['setchan', ch.nid, st], {'t': 'set'}, opi, extra)

  cur = {'label': None, 'opi': None, 'recorded': False}

  def on_close(ch):
    """Close() of a channel with requests in flight (close_fails mode): they fail now, re-entrantly.  A Leave
    notification in progress is recorded first (in the code as it is the node is unlinked before it is closed),
    then one Complete per failed request."""
    mine = [r for r in out_reqs if r['nid'] == ch.nid]
    if not mine:
      return
    if cur['label'] is not None and not cur['recorded']:
      cur['recorded'] = True
      record(cur['label'], {'t': 'applied', 'exc': None}, cur['opi'], {'closed_with_requests_in_flight': len(mine)})
    first_ = True
    for req in mine:
      if req in out_reqs:
        out_reqs.remove(req)
        done_reqs.append(req)
        # close_retry: the caller of the first failed request retries at once, from inside Close()
        do_complete(req, 1, 'error+reenter' if (first_ and case.get('close_retry')) else 'error',
                    cur['opi'] if cur['opi'] is not None else -1)
        first_ = False
  w.on_close = on_close

  def flush_hub(opi):
    """Real aperture only: continuations of earlier Open()s (pending endpoints cleared, expansion after a failed
    open) run now, as a step of their own, so that what they do is not attributed to the next notification."""
    gevent.sleep(0)
    gevent.sleep(0)
    if w.events:
      record(['hub'], {'t': 'hub'}, opi)

  def notify(kind, ep, opi, noaux=False, close_raises=False, open_raises=False):
    if case.get('kind') == 'aperture_real':
      flush_hub(opi)
    if not noaux and state['init']:
      cur.update(label=[kind, ep], opi=opi, recorded=False)
    w.raise_on_close = bool(close_raises)
    w.raise_on_open = bool(open_raises)
    q.put((kind, ep, noaux))
    prog['enq'] += 1
    settle()
    w.raise_on_close = False
    w.raise_on_open = False
    applied = prog['done'] == prog['enq']
    pre_recorded = cur['recorded']
    cur.update(label=None, opi=None, recorded=False)
    if pre_recorded:
      ref_members.pop(ep, None)
      prog['exc'] = None
      return
    if close_raises and prog['exc'] == 'ChanCloseError':
      # the scripted failure of Close(): the callback raised to the provider, as it must
      ref_members.pop(ep, None)
      record([kind, ep], {'t': 'applied' if applied else 'blocked', 'exc': None, 'close_raised': True}, opi)
      prog['exc'] = None
      return
    if noaux:
      # a member without the configured named endpoint: base.py raises ValueError to the provider
      record(['noaux', kind, ep], {'t': 'applied' if applied else 'blocked', 'noaux_exc': prog['exc']}, opi)
      prog['exc'] = None
      return
    if kind == 'join':
      ref_members[ep] = True
    else:
      ref_members.pop(ep, None)
    if open_raises and prog['exc'] == 'ChanOpenError':
      # the scripted synchronous failure of Open(): raised to the provider; the member has joined all the same
      record([kind, ep], {'t': 'applied' if applied else 'blocked', 'exc': None, 'open_raised': True}, opi)
      prog['exc'] = None
      return
    record([kind, ep], {'t': 'applied' if applied else 'blocked', 'exc': prog['exc']}, opi)
    prog['exc'] = None

  twin = {'bal': None, 'ss': None, 'n': 0}

  def twin_step(kind, ep):
    """A second, independent balancer instance in the same process (own provider, own channels) gets traffic and
    membership changes of its own: nothing of it may show in the instance under test."""
    b2 = twin['bal']
    if b2 is None:
      return
    try:
      if kind == 'dispatch':
        st2 = _S['RecStack']()
        st2.Push(_S['Caller'](), None)
        b2.AsyncProcessRequest(st2, _S['Message'](), None, {})
      elif kind == 'join':
        twin['ss'].on_join(_S['Member'](ep + 50, False, False, True))
      elif kind == 'leave':
        twin['ss'].on_leave(_S['Member'](ep + 50, False, False, True))
    except Exception:
      pass
    twin['n'] += 1

  dl = None
  try:
    if case.get('twin'):
      w2 = World({'st0': 2, 'epobj': True})
      ss2 = _S['ServerSet'](w2)
      ss2.snapshot = [50, 51, 52]
      ss2.release.set()
      cls2 = _S['HeapBalancerSink']
      props2 = cls2.Builder._defaults.copy()
      props2['server_set_provider'] = ss2
      b2 = cls2(_S['Provider'](w2), cls2.Builder.PARAMS_CLASS(**props2), {_S['SinkProperties'].Label: 'decoy'})
      b2.Open()
      settle()
      twin['bal'], twin['ss'] = b2, ss2
    bal.Open()
    dl = gevent.spawn(deliverer)
    settle()
    ap_real = case.get('kind') == 'aperture_real'
    for opi, op in enumerate(case['ops']):
      k = op[0]
      if ap_real and not case.get('slow_open'):
        # let completed Open()s of expanded nodes be noticed (pending endpoints cleared); with slow_open the
        # continuations of Open() only run at the next notification: several expansions fall into one open
        flush_hub(opi)
      if k in ('join', 'leave'):
        if not state['init']:
          pending_notifs.append((k, mapep(op[1])))
        notify(k, mapep(op[1]), opi)
        twin_step(k, op[1])
      elif k == 'join_openraise':
        # a join whose channel raises from Open() (synchronously, inside _AddSink)
        if not state['init']:
          pending_notifs.append(('join', mapep(op[1])))
        notify('join', mapep(op[1]), opi, open_raises=(state['init'] and not ap_real))
      elif k == 'dispatch_retry':
        # the caller retries once from inside its failure handler if the request fails inside the call
        if not state['init']:
          state['skipped'] += 1
          continue
        do_dispatch(opi, None, retry_on_inline_failure=True)
        twin_step('dispatch', None)
      elif k == 'leave_closefail':
        # a leave during which closing the member's channel raises
        if not state['init']:
          pending_notifs.append(('leave', mapep(op[1])))
        notify('leave', mapep(op[1]), opi, close_raises=(state['init'] and not ap_real))
      elif k in ('join_noaux', 'leave_noaux'):
        if not (epname and state['init']):
          state['skipped'] += 1
          continue
        notify(k[:-6], mapep(op[1]), opi, noaux=True)
      elif k == 'init':
        if state['init']:
          state['skipped'] += 1
          continue
        rnd.shuffle_seed = op[2] if len(op) > 2 else 0
        ss.snapshot = [mapep(e) for e in op[1]]
        ss.release.set()
        settle()
        try:
          bal.WaitForOpenComplete(0.5)
        except Exception:
          pass
        settle()
        state['init'] = True
        order = [m.label_ep for m in (ss.served or [])]
        ref_members.clear()
        for e in order:
          ref_members[e] = True
        for (kk, e) in pending_notifs:
          if kk == 'join':
            ref_members[e] = True
          else:
            ref_members.pop(e, None)
        record(['init', order], {'t': 'applied' if prog['done'] == prog['enq'] else 'blocked', 'exc': prog['exc']}, opi)
        prog['exc'] = None
      elif not state['init'] and k in ('dispatch', 'dispatch_retry', 'complete', 'recomplete', 'fault', 'burst', 'isolate'):
        state['skipped'] += 1
      elif k == 'dispatch':
        do_dispatch(opi)
        twin_step('dispatch', None)
      elif k == 'complete':
        _k, sel, kk, jseed, kind = op
        if not out_reqs:
          state['skipped'] += 1
          continue
        c = counts()
        if sel == 'min':
          m = min(c.values())
          nids = sorted(n for n in c if c[n] == m)
          nid = nids[kk % len(nids)]
          req = next(r for r in out_reqs if r['nid'] == nid)
        elif sel == 'max':
          m = max(c.values())
          nids = sorted(n for n in c if c[n] == m)
          nid = nids[kk % len(nids)]
          req = next(r for r in out_reqs if r['nid'] == nid)
        elif sel == 'ep':
          cands = [r for r in out_reqs if w.chans[r['nid']].ep == mapep(kk)]
          req = cands[0] if cands else out_reqs[kk % len(out_reqs)]
        else:
          req = out_reqs[kk % len(out_reqs)]
        out_reqs.remove(req)
        done_reqs.append(req)
        do_complete(req, jseed, kind, opi)
      elif k == 'recomplete':
        if not done_reqs:
          state['skipped'] += 1
          continue
        req = done_reqs[op[1] % len(done_reqs)]
        do_complete(req, 0, 'ctx' if op[2] == 'ctx' else 'reply', opi, again=True)
      elif k == 'setchan':
        _k, sel, kk, st = op
        if sel == 'member':
          eps = sorted(ref_members)
          ch = live_chan(eps[kk % len(eps)]) if eps else None
        elif sel == 'min':       # the least-loaded channel still in use (the heap root, in all likelihood)
          c = counts()
          cands = [x for x in w.chans if x._st != 4]
          if cands:
            m = min(c.get(x.nid, 0) for x in cands)
            cands = [x for x in cands if c.get(x.nid, 0) == m]
            ch = cands[kk % len(cands)]
          else:
            ch = None
        else:
          ch = w.chans[kk % len(w.chans)] if w.chans else None
        if ch is None:
          state['skipped'] += 1
          continue
        do_setchan(ch, st, opi)
      elif k == 'fault':
        eps = sorted(ref_members)
        ch = live_chan(eps[op[1] % len(eps)]) if eps else None
        if ch is None:
          state['skipped'] += 1
          continue
        do_setchan(ch, 4, opi)
        for req in [r for r in out_reqs if r['nid'] == ch.nid]:
          out_reqs.remove(req)
          done_reqs.append(req)
          do_complete(req, 1, 'error', opi)
      elif k == 'isolate':
        # every other member leaves; the remaining one must then be dispatchable (active, or pulled in from idle)
        eps = sorted(ref_members)
        if not eps:
          state['skipped'] += 1
          continue
        target = eps[op[1] % len(eps)]
        for e in eps:
          if e != target:
            notify('leave', e, opi)
        do_dispatch(opi, {'isolated': target})
      elif k == 'burst':
        eps = sorted(ref_members)
        chs = [live_chan(e) for e in eps]
        chs = [c_ for c_ in chs if c_ is not None]
        bid = len(steps)
        for ch in chs:
          if ch._st != 2:
            do_setchan(ch, 2, opi, {'burst': bid})
        c = counts()
        outs = [c.get(ch.nid, 0) for ch in chs]
        bound = (sum(max(outs) - o for o in outs) + len(chs)) if chs else 1
        hit = set()
        n = 0
        while n < bound and (not chs or len(hit) < len(chs)):
          nid = do_dispatch(opi, {'burst': bid, 'burst_bound': bound})
          n += 1
          if nid is None:
            break
          hit.add(nid)
        if steps:
          steps[-1]['burst_end'] = bid
      else:
        raise ValueError('unknown op %r' % (op,))
  finally:
    _S['tap'].world = None
    w.on_close = None
    w.on_failfast = None
    w.raise_on_close = False
    w.raise_on_open = False
    if twin['bal'] is not None:
      try:
        twin['bal'].Close()
      except Exception:
        pass
    try:
      if dl is not None:
        dl.kill(block=False)
      bal.Close()
      ss.release.set()
      settle()
    except Exception:
      pass
  return {'labels': labels, 'steps': steps, 'skipped': state['skipped'], 'opens': w.opens, 'twin_ops': twin['n']}


# -------------------------------------------------------------------------------------------------
# reference oracles (the property statements, on the implementation's observable behaviour)
# -------------------------------------------------------------------------------------------------
def analyse(case, obs):
  """Returns [(pids, signature, message)]; pids = set of property ids the violation belongs to."""
  V = []

  def flag(pids, sig, msg, i):
    V.append((set(pids), sig, 'step %d (op %d, label %s): %s' % (i, obs['steps'][i]['op'], obs['labels'][i], msg)))

  st0 = case.get('st0', 2)
  init = False
  blocked = []
  sset = set()            # the reference server set
  live = {}               # ep -> nid of the member's node
  nodes = {}              # nid -> dict(ep, member, out, st, marked, closed, close_due)
  reqs = {}               # rid -> dict(nid, done)
  burst_hit = {}
  labels, steps = obs['labels'], obs['steps']
  if obs.get('hang'):
    return [({'C03', 'C04', 'C05'}, 'impl-hang', 'the balancer did not return within the watchdog time (endless loop)')]
  if case.get('kind') == 'aperture_real':
    return analyse_aperture(case, obs)
  if case.get('shared'):
    return analyse_shared(case, obs)

  def new_node(nid, ep, member):
    nodes[nid] = dict(nid=nid, ep=ep, member=member, out=0, st=st0, marked=False, closed=0, close_due=False)

  def apply_notif(kind, ep, cr, expected_close):
    """One notification on the reference server set; consumes the matching create event, if any."""
    if kind == 'join':
      if ep not in sset:
        sset.add(ep)
        if cr and cr[0][2] == ep and ep not in live:
          c_ = cr.pop(0)
          new_node(c_[1], ep, True)
          live[ep] = c_[1]
    else:
      sset.discard(ep)
      if ep in live:
        x = nodes[live.pop(ep)]
        x['member'] = False
        if x['out'] == 0 or x['marked']:
          expected_close.append(x['nid'])
          x['close_due'] = True

  for i, (lb, st) in enumerate(zip(labels, steps)):
    res = st['res']
    ev = st['events']
    if res.get('t') == 'exc' or res.get('exc'):
      flag({'C03', 'C04', 'C05'}, 'impl-exception', 'the balancer raised %s' % (res.get('exc'),), i)
    expected_close = []
    creates = [e for e in ev if e[0] == 'create']
    closes = [e[1] for e in ev if e[0] == 'close']
    kind = lb[0]
    if kind == 'noaux' and res.get('noaux_exc') != 'ValueError':
      flag({'C05'}, 'member-without-named-endpoint-accepted',
           'a %s notification for a member lacking the configured endpoint name did not raise ValueError (%s)'
           % (lb[1], res.get('noaux_exc')), i)
    # ---- membership bookkeeping -----------------------------------------------------------------
    cr = list(creates)
    if kind in ('join', 'leave'):
      if not init:
        blocked.append((kind, lb[1]))
        if creates or closes or res.get('t') != 'blocked':
          flag({'C05'}, 'notification-applied-before-init',
               'a %s notification took effect while the initial member list was still loading' % kind, i)
      else:
        if res.get('t') != 'applied':
          flag({'C05'}, 'notification-not-applied', 'notification still pending after the initial list was installed', i)
        apply_notif(kind, lb[1], cr, expected_close)
    elif kind == 'init':
      init = True
      if res.get('t') != 'applied':
        flag({'C05'}, 'notification-not-applied', 'deferred notifications still pending after Init', i)
      # the initial list, then the deferred notifications in arrival order
      for (k2, e2) in [('join', e) for e in lb[1]] + blocked:
        apply_notif(k2, e2, cr, expected_close)
      blocked = []
    for c_ in cr:     # creations no notification accounts for
      flag({'C05'}, 'duplicate-member-node' if c_[2] in live else 'node-for-nonmember',
           'channel %d created for endpoint %s (server set %s)' % (c_[1], c_[2], sorted(sset)), i)
      new_node(c_[1], c_[2], False)
    # ---- environment ------------------------------------------------------------------------------
    if kind == 'setchan':
      if lb[1] in nodes:
        nodes[lb[1]]['st'] = lb[2]
    # ---- dispatch ---------------------------------------------------------------------------------
    if kind == 'dispatch':
      members = [nodes[n] for n in live.values()]
      for e in ev:
        if e[0] in ('up', 'down') and e[1] in live:
          nodes[live[e[1]]]['marked'] = (e[0] == 'down')
      if res.get('t') == 'failed':
        if members:
          flag({'C03', 'C05'}, 'failed-with-members', 'request failed (%s) although the server set has members %s'
               % (res.get('err'), sorted(live)), i)
        elif res.get('err') != 'NoMembersError':
          flag({'C03'}, 'no-members-wrong-error', 'empty balancer answered %s, not NoMembersError' % res.get('err'), i)
      elif res.get('t') == 'sent':
        nid = res['nid']
        x = nodes.get(nid)
        if res.get('nrecv', 1) != 1:
          flag({'C03'}, 'request-sent-twice', 'request handed to %d channels' % res['nrecv'], i)
        if x is None or not x['member']:
          flag({'C03', 'C04', 'C05'}, 'dispatch-to-nonmember',
               'request went to channel %s (endpoint %s) which is not a current member (server set %s)'
               % (nid, x and x['ep'], sorted(sset)), i)
        else:
          if res.get('ep') != x['ep']:
            flag({'C03'}, 'endpoint-stamp-mismatch', 'message stamped %r but sent to the channel of %r' % (res.get('ep'), x['ep']), i)
          opens = [m for m in members if m['st'] == 2]
          if opens:
            if x['st'] != 2:
              flag({'C03'}, 'down-member-chosen-while-open-exists',
                   'chosen member %s (channel state %d) is not open while %s are' % (x['ep'], x['st'], [m['ep'] for m in opens]), i)
            else:
              mn = min(m['out'] for m in opens)
              if x['out'] != mn:
                flag({'C03'}, 'not-least-loaded',
                     'chosen member %s has %d outstanding requests, open member %s has %d'
                     % (x['ep'], x['out'], [m['ep'] for m in opens if m['out'] == mn][0], mn), i)
        if x is not None:
          x['out'] += 1
        reqs[res['rid']] = dict(nid=nid, done=False)
        if 'burst' in st:
          burst_hit.setdefault(st['burst'], set()).add(nid)
      if 'burst_end' in st:
        b = st['burst_end']
        hit = burst_hit.get(b, set())
        want = set(live.values())
        # every endpoint of the server set must own a live node at all
        for ep in sorted(sset):
          if ep not in live:
            flag({'C05'}, 'membership-missing-member', 'server-set member %s has no node in the balancer' % ep, i)
        missing = sorted(nodes[n]['ep'] for n in want - hit)
        if missing and res.get('t') == 'sent':
          flag({'C05'}, 'membership-missing-member',
               'members %s received no request in a saturating burst of %s dispatches' % (missing, st.get('burst_bound')), i)
    # ---- completion -------------------------------------------------------------------------------
    if kind == 'complete':
      r = reqs.get(lb[1])
      if r is not None and not r['done']:
        r['done'] = True
        x = nodes.get(r['nid'])
        if x is not None:
          x['out'] -= 1
          if not x['member'] and x['out'] == 0 and not x['close_due']:
            expected_close.append(x['nid'])
            x['close_due'] = True
      if any(e[0] == 'warn' for e in ev):
        flag({'C04'}, 'load-below-zero-warning', "'Decrementing load below Zero' was logged", i)
    elif any(e[0] == 'warn' for e in ev):
      flag({'C04'}, 'load-below-zero-warning', "'Decrementing load below Zero' was logged", i)
    # ---- close timing -----------------------------------------------------------------------------
    for nid in closes:
      x = nodes.get(nid)
      if nid in expected_close:
        expected_close.remove(nid)
        x['closed'] += 1
        continue
      if x is None:
        continue
      if x['member']:
        flag({'C04'}, 'close-of-member', 'channel %d of current member %s was closed' % (nid, x['ep']), i)
      elif x['closed'] or x['close_due']:
        flag({'C04'}, 'close-twice', 'channel %d of departed member %s closed again' % (nid, x['ep']), i)
      else:
        flag({'C04'}, 'close-early', 'channel %d of departed member %s closed with %d requests outstanding'
             % (nid, x['ep'], x['out']), i)
      x['closed'] += 1
    for nid in expected_close:
      flag({'C04'}, 'close-missing', 'channel %d of departed member %s should have been closed now (outstanding %d, marked down %s)'
           % (nid, nodes[nid]['ep'], nodes[nid]['out'], nodes[nid]['marked']), i)
    # ---- internal diagnostics (only when readable) --------------------------------------------------
    d = st.get('diag') or {}
    if 'heap' in d and init:
      hp = d['heap']
      for p in range(2, len(hp) + 1):
        if hp[p // 2 - 1][1] > hp[p - 1][1]:
          flag({'C03'}, 'diag-heap-order', 'heap order broken: load at position %d is %d > %d at position %d'
               % (p // 2, hp[p // 2 - 1][1], hp[p - 1][1], p), i)
          break
      if d.get('index') != list(range(1, len(hp) + 1)) or d.get('size') != len(hp):
        flag({'C03'}, 'diag-index-mismatch', 'node.index %s / _size %s do not match the array positions' % (d.get('index'), d.get('size')), i)
      for nid, ld in hp:
        x = nodes.get(nid)
        if x is None:
          continue
        o = ld - IDLE - (PENALTY if ld >= 0 else 0)
        if o != x['out']:
          flag({'C04'}, 'load-not-conserved', 'node of %s has load field %d (= %d outstanding) but %d requests are outstanding'
               % (x['ep'], ld, o, x['out']), i)
          break
      if sorted(d.get('servers', [])) != sorted(sset) or sorted(d.get('eps', [])) != sorted(sset):
        flag({'C05'}, 'membership-internal-mismatch', '_servers %s / heap endpoints %s differ from the server set %s'
             % (d.get('servers'), sorted(d.get('eps', [])), sorted(sset)), i)
  # end of history: nothing further is required (a departed member still loaded is closed when it drains)
  return V


def analyse_aperture(case, obs):
  """C03 and C05 on a REAL aperture (idle servers outside it).
  C03: the members the balancer is using are the nodes of its heap; which those are is not visible from outside
  (a contraction of a loaded member is silent), so the candidate set is read from the balancer (heap array after
  the previous label).  Candidates for 'a better member existed' are only nodes that were in the aperture BEFORE
  the dispatch; the chosen node may also be one that the dispatch itself added (expansion on node-down).
  C05: the reference server set is folded over the notifications; a request never goes to the channel of a
  departed member, never fails while the set is non-empty (also after every other member left: 'isolate'), and -
  internal - active and idle endpoints partition the server set after every label."""
  V = []
  labels, steps = obs['labels'], obs['steps']

  def flag(sig, msg, i, pids=('C03',)):
    V.append((set(pids), sig, 'step %d (op %d, label %s): %s' % (i, steps[i]['op'], labels[i], msg)))

  st0 = case.get('st0', 2)
  nodes = {}
  reqs = {}
  prev_heap = None
  init = False
  blocked = []
  sset = set()
  departed = set()      # channels of members that left: never used again (a re-join gets a fresh channel)
  latest = {}           # ep -> most recently created channel (the one in the heap, if any)

  def apply_notif(kind, ep, expected_close):
    if kind == 'join':
      sset.add(ep)
    else:
      sset.discard(ep)
      for n_ in nodes.values():
        if n_['ep'] == ep:
          departed.add(n_['nid'])
          # C04: every channel of the departing member that is still open is closed now if it is idle or marked
          # down, otherwise by its last completion (channels the aperture had contracted out while loaded included)
          if not n_['closed'] and not n_['close_due'] and (n_['out'] == 0 or n_['marked']):
            expected_close.append(n_['nid'])
            n_['close_due'] = True

  for i, (lb, st) in enumerate(zip(labels, steps)):
    res, ev = st['res'], st['events']
    if res.get('t') == 'exc' or res.get('exc'):
      flag('impl-exception', 'the balancer raised %s' % (res.get('exc'),), i, ('C03', 'C05'))
    k = lb[0]
    expected_close = []
    # the notification is applied before the creations of this step are registered: a channel created while
    # the same endpoint leaves and re-joins belongs to the new membership
    if k in ('join', 'leave'):
      if not init:
        blocked.append((k, lb[1]))
        if ev or res.get('t') != 'blocked':
          flag('notification-applied-before-init', 'a %s notification took effect while the initial list was loading' % k, i, ('C05',))
      else:
        if res.get('t') != 'applied':
          flag('notification-not-applied', 'notification still pending after the initial list was installed', i, ('C05',))
        apply_notif(k, lb[1], expected_close)
    elif k == 'init':
      init = True
      for (k2, e2) in [('join', e) for e in lb[1]] + blocked:
        apply_notif(k2, e2, expected_close)
      blocked = []
    created = set()
    for e in ev:
      if e[0] == 'create':
        nodes[e[1]] = dict(nid=e[1], ep=e[2], out=0, st=st0, closed=0, close_due=False, marked=False)
        latest[e[2]] = e[1]
        created.add(e[1])
        if init and e[2] not in sset:
          flag('node-for-nonmember', 'channel %d created for %s which is not in the server set %s' % (e[1], e[2], sorted(sset)), i, ('C05',))
      elif e[0] == 'close' and e[1] in nodes:
        nodes[e[1]]['st'] = 4
      elif e[0] in ('up', 'down') and e[1] in latest:
        nodes[latest[e[1]]]['marked'] = (e[0] == 'down')
    if k == 'setchan' and lb[1] in nodes:
      nodes[lb[1]]['st'] = lb[2]
    elif k == 'dispatch':
      if res.get('t') == 'sent':
        nid = res['nid']
        x = nodes.get(nid)
        if x is not None and (nid in departed or x['ep'] not in sset):
          flag('dispatch-to-nonmember', 'request went to channel %d of %s, a departed member (server set %s)'
               % (nid, x['ep'], sorted(sset)), i, ('C03', 'C04', 'C05'))
        if 'isolated' in st and x is not None and x['ep'] != st['isolated']:
          flag('dispatch-to-nonmember', 'only %s is left in the server set but the request went to %s' % (st['isolated'], x['ep']), i, ('C05',))
        if prev_heap is not None and x is not None:
          pre_ids = [n for n, _l in prev_heap]
          if nid not in pre_ids and nid not in created:
            flag('dispatch-outside-aperture', 'request went to channel %d (%s) which is not in the aperture %s'
                 % (nid, x['ep'], pre_ids), i)
          if res.get('ep') != x['ep']:
            flag('endpoint-stamp-mismatch', 'message stamped %r but sent to the channel of %r' % (res.get('ep'), x['ep']), i)
          opens = [nodes[n] for n in pre_ids if n in nodes and nodes[n]['st'] == 2]
          if opens:
            if x['st'] != 2:
              flag('down-member-chosen-while-open-exists',
                   'chosen aperture member %s (channel state %d) is not open while %s are'
                   % (x['ep'], x['st'], [m['ep'] for m in opens]), i)
            else:
              mn = min(m['out'] for m in opens)
              if x['out'] > mn:
                flag('not-least-loaded', 'chosen aperture member %s has %d outstanding requests, open aperture member %s has %d'
                     % (x['ep'], x['out'], [m['ep'] for m in opens if m['out'] == mn][0], mn), i)
        if x is not None:
          x['out'] += 1
        reqs[res['rid']] = dict(nid=nid, done=False)
      elif res.get('t') == 'failed':
        if sset:
          flag('failed-with-members', 'request failed (%s) although the server set has members %s (active %s, idle %s)'
               % (res.get('err'), sorted(sset), (st.get('diag') or {}).get('eps'), (st.get('diag') or {}).get('idle')), i, ('C03', 'C05'))
        elif res.get('err') != 'NoMembersError':
          flag('no-members-wrong-error', 'empty balancer answered %s' % res.get('err'), i)
    elif k == 'complete':
      r = reqs.get(lb[1])
      if r is not None and not r['done']:
        r['done'] = True
        if r['nid'] in nodes:
          x = nodes[r['nid']]
          x['out'] -= 1
          if x['nid'] in departed and x['out'] == 0 and not x['close_due'] and not x['closed']:
            expected_close.append(x['nid'])
            x['close_due'] = True
    d = st.get('diag') or {}
    # ---- C04: Close() calls on the member channels -----------------------------------------------------
    post_ids = set(n for n, _l in d['heap']) if 'heap' in d else None
    for e in ev:
      if e[0] != 'close' or e[1] not in nodes:
        continue
      x = nodes[e[1]]
      if x['nid'] in expected_close:
        expected_close.remove(x['nid'])
      elif x['closed']:
        flag('close-twice', 'channel %d of %s closed again' % (x['nid'], x['ep']), i, ('C04',))
      elif x['nid'] in departed:
        if x['out'] > 0 and not x['marked']:
          flag('close-early', 'channel %d of departed member %s closed with %d requests outstanding' % (x['nid'], x['ep'], x['out']), i, ('C04',))
      else:
        # a current member's channel may be closed only by a contraction: it left the aperture idle or marked down
        if post_ids is not None and x['nid'] in post_ids:
          flag('close-of-member', 'channel %d of %s was closed while it is in the aperture' % (x['nid'], x['ep']), i, ('C04',))
        elif x['out'] > 0 and not x['marked']:
          flag('close-early', 'channel %d of %s closed with %d requests outstanding' % (x['nid'], x['ep'], x['out']), i, ('C04',))
        x['close_due'] = True
      x['closed'] += 1
    for nid in expected_close:
      flag('close-missing', 'channel %d of departed member %s should have been closed now (outstanding %d, marked down %s)'
           % (nid, nodes[nid]['ep'], nodes[nid]['out'], nodes[nid]['marked']), i, ('C04',))
    prev_heap = d.get('heap') if 'heap' in d else None
    if prev_heap is not None:
      for p_ in range(2, len(prev_heap) + 1):
        if prev_heap[p_ // 2 - 1][1] > prev_heap[p_ - 1][1]:
          flag('diag-heap-order', 'heap order broken: load at position %d is %d > %d at position %d'
               % (p_ // 2, prev_heap[p_ // 2 - 1][1], prev_heap[p_ - 1][1], p_), i)
          break
    if init and 'idle' in d and 'eps' in d:
      act, idle = d['eps'], d['idle']
      if sorted(act + idle) != sorted(sset):
        flag('aperture-partition-mismatch', 'active %s + idle %s is not the server set %s (a member that is neither active nor '
             'idle can never be dispatched to; one that is both or departed gets traffic it must not)' % (sorted(act), idle, sorted(sset)), i, ('C05',))
  return V


def analyse_shared(case, obs):
  """C04 when the member channels are RefCountedSinks handed out by the real SharedSinkProvider: one underlying
  connection (mock channel) per endpoint, shared by all incarnations of that member (a member that left with
  requests in flight and the node created when the endpoint re-joined).  Oracle on the underlying channel:
  it is never closed while a request dispatched to it is outstanding (requests of an incarnation that was marked
  down when it left do not count: that incarnation's channel is to be closed at once), it is closed once the
  endpoint is out of the server set and nothing is outstanding, and no request goes to a departed endpoint."""
  V = []
  labels, steps = obs['labels'], obs['steps']

  def flag(sig, msg, i, pids=('C04',)):
    V.append((set(pids), sig, 'step %d (op %d, label %s): %s' % (i, steps[i]['op'], labels[i], msg)))

  init = False
  blocked = []
  sset = set()
  inc = {}            # ep -> incarnation number of the current member
  marked = {}         # ep -> current incarnation is marked down
  chans = {}          # nid -> dict(ep, out, forgiven, is_open)
  reqs = {}

  def apply_notif(kind, ep):
    if kind == 'join':
      if ep not in sset:
        sset.add(ep)
        inc[ep] = inc.get(ep, 0) + 1
        marked[ep] = False
    elif ep in sset:
      sset.discard(ep)
      if marked.get(ep):
        for r in reqs.values():
          if r['ep'] == ep and r['inc'] == inc[ep] and not r['done'] and not r['forgiven']:
            r['forgiven'] = True
            if r['nid'] in chans:
              chans[r['nid']]['forgiven'] += 1

  for i, (lb, st) in enumerate(zip(labels, steps)):
    res, ev = st['res'], st['events']
    if res.get('t') == 'exc' or res.get('exc'):
      flag('impl-exception', 'the balancer raised %s' % (res.get('exc'),), i)
    k = lb[0]
    if k in ('join', 'leave'):
      if not init:
        blocked.append((k, lb[1]))
      else:
        apply_notif(k, lb[1])
    elif k == 'init':
      init = True
      for (k2, e2) in [('join', e) for e in lb[1]] + blocked:
        apply_notif(k2, e2)
      blocked = []
    elif k == 'complete':
      r = reqs.get(lb[1])
      if r is not None and not r['done']:
        r['done'] = True
        x = chans.get(r['nid'])
        if x is not None:
          x['out'] -= 1
          if r['forgiven']:
            x['forgiven'] -= 1
    for e in ev:
      if e[0] == 'create':
        chans[e[1]] = dict(nid=e[1], ep=e[2], out=0, forgiven=0, is_open=False)
      elif e[0] == 'open' and e[1] in chans:
        chans[e[1]]['is_open'] = True
      elif e[0] in ('up', 'down'):
        marked[e[1]] = (e[0] == 'down')
      elif e[0] == 'close' and e[1] in chans:
        x = chans[e[1]]
        if not x['is_open']:
          flag('close-twice', 'connection %d of %s closed again' % (x['nid'], x['ep']), i)
        elif x['out'] - x['forgiven'] > 0:
          flag('close-early', 'the shared connection %d of %s was closed while %d requests dispatched to it are outstanding'
               % (x['nid'], x['ep'], x['out'] - x['forgiven']), i)
        x['is_open'] = False
    if k == 'dispatch' and res.get('t') == 'sent':
      x = chans.get(res['nid'])
      if x is not None:
        if x['ep'] not in sset:
          flag('dispatch-to-nonmember', 'request went to %s which is not in the server set %s' % (x['ep'], sorted(sset)), i, ('C04', 'C05'))
        x['out'] += 1
        reqs[res['rid']] = dict(nid=res['nid'], ep=x['ep'], inc=inc.get(x['ep'], 0), done=False, forgiven=False)
    if init:
      for x in chans.values():
        if x['ep'] not in sset and x['out'] - x['forgiven'] == 0 and x['is_open']:
          flag('close-missing', 'connection %d of departed member %s is still open although nothing is outstanding' % (x['nid'], x['ep']), i)
          x['is_open'] = False      # report once
  return V


def monitor_for(pid):
  def monitor(case, obs):
    seen = set()
    out = []
    for pids, sig, msg in analyse(case, obs):
      if pid in pids and sig not in seen:
        seen.add(sig)
        out.append((sig, msg))
    return out
  return monitor


# -------------------------------------------------------------------------------------------------
# translation to Coq
# -------------------------------------------------------------------------------------------------
def _label(lb):
  k = lb[0]
  if k == 'init':
    return '(Init %s)' % C.zlist(lb[1])
  if k == 'join':
    return '(Join %s)' % C.zlit(lb[1])
  if k == 'leave':
    return '(Leave %s)' % C.zlit(lb[1])
  if k == 'dispatch':
    return 'Dispatch'
  if k == 'complete':
    return '(Complete %s %s)' % (C.zlit(lb[1]), C.zlit(lb[2]))
  if k == 'setchan':
    return '(SetChan %s %s)' % (C.zlit(lb[1]), C.zlit(lb[2]))
  raise ValueError(k)


def _event(e):
  k = e[0]
  if k == 'up':
    return 'EUp %s' % C.zlit(e[1])
  if k == 'down':
    return 'EDown %s' % C.zlit(e[1])
  if k == 'close':
    return 'EClose %s' % C.zlit(e[1])
  if k == 'warn':
    return 'EWarn'
  if k == 'create':
    return 'ECreate %s %s' % (C.zlit(e[1]), C.zlit(e[2]))
  raise ValueError(k)


def _result(lb, st):
  res = st['res']
  t = res.get('t')
  if t == 'exc' or res.get('exc'):
    return 'RStuck'           # the model never yields RStuck (theorem get_terminates): guaranteed divergence
  k = lb[0]
  if k == 'dispatch':
    if t == 'sent':
      ep = res.get('ep')
      return 'RSent %s %s' % (C.zlit(res['nid']), C.zlit(ep if isinstance(ep, int) else -7))
    return 'RNoMembers' if res.get('err') == 'NoMembersError' else 'RStuck'
  if k == 'complete':
    if st.get('again'):
      return 'RAlready' if not res.get('rand') else 'RPut true'
    return 'RPut %s' % C.blit(res.get('rand', 0) > 0)
  if k == 'setchan':
    return 'RSet'
  return 'RApplied' if t == 'applied' else 'RBlocked'


def to_coq(case, obs):
  if obs.get('hang') or case.get('kind') == 'aperture_real' or case.get('shared'):
    return None              # a real aperture (idle servers, load-driven size) is C06's model: monitor only here
  labels, steps = obs['labels'], obs['steps']
  exp = []
  kept = []
  for lb, st in zip(labels, steps):
    if lb[0] in ('noaux', 'hub'):     # noaux raises before anything is touched: not a label of the model
      continue
    kept.append(lb)
    d = st.get('diag') or {}
    hp = 'None'
    if 'heap' in d:
      hp = '(Some %s)' % C.lst(['(%s, %s)' % (C.zlit(a), C.zlit(b)) for a, b in d['heap']])
    exp.append('((%s, %s), %s)' % (_result(lb, st), C.lst([_event(e) for e in st['events']]), hp))
  return 'mkCase %s %s %s' % (C.zlit(case.get('st0', 2)), C.lst([_label(l) for l in kept]), C.lst(exp))


# -------------------------------------------------------------------------------------------------
# generators
# -------------------------------------------------------------------------------------------------
KINDS = ['reply', 'reply', 'error', 'timeout', 'ctx', 'reply+raise', 'error+raise', 'reply+reenter', 'timeout+reenter',
         'timeout+raise', 'reply+raiseb']
PROFILES = {
    # weights: dispatch, complete-any, complete-min, complete-max, recomplete, setchan, fault, join, leave, burst
    'load':   dict(dispatch=10, c_any=3, c_min=1, c_max=1, rec=0.3, chan=1.0, fault=0.1, join=0.4, leave=0.4, burst=0.0),
    'drain':  dict(dispatch=2, c_any=2, c_min=8, c_max=1, rec=0.3, chan=0.5, fault=0.1, join=0.3, leave=0.5, burst=0.0),
    'flap':   dict(dispatch=6, c_any=4, c_min=2, c_max=1, rec=0.2, chan=6.0, fault=0.6, join=0.5, leave=0.5, burst=0.05),
    'churn':  dict(dispatch=5, c_any=4, c_min=2, c_max=1, rec=0.2, chan=1.5, fault=0.3, join=4.0, leave=4.0, burst=0.15),
    'steady': dict(dispatch=6, c_any=5, c_min=3, c_max=1, rec=0.5, chan=0.5, fault=0.1, join=0.2, leave=0.2, burst=0.02),
}
MIX = {
    'C03': ['load', 'drain', 'flap', 'steady', 'drain', 'load'],
    'C04': ['load', 'drain', 'churn', 'steady', 'flap', 'churn'],
    'C05': ['churn', 'churn', 'load', 'drain', 'flap'],
}


def _one_op(r, wts, universe):
  ks = list(wts)
  x = r.random() * sum(wts.values())
  for k in ks:
    x -= wts[k]
    if x <= 0:
      break
  if k == 'dispatch':
    return ['dispatch']
  if k in ('c_any', 'c_min', 'c_max'):
    return ['complete', {'c_any': 'any', 'c_min': 'min', 'c_max': 'max'}[k], r.randrange(0, 64), r.randrange(0, 1000), r.choice(KINDS)]
  if k == 'rec':
    return ['recomplete', r.randrange(0, 64), r.choice(['stack', 'ctx'])]
  if k == 'chan':
    return ['setchan', r.choice(['member', 'member', 'member', 'any']), r.randrange(0, 64), r.choice([2, 2, 2, 4, 4, 1, 3])]
  if k == 'chan_min':
    return ['setchan', 'min', r.randrange(0, 64), r.choice([4, 4, 4, 3])]
  if k == 'fault':
    return ['fault', r.randrange(0, 64)]
  if k == 'join':
    return ['join', r.choice(universe)]
  if k == 'leave':
    return ['leave', r.choice(universe)]
  return ['burst']


SHARES = {
    # share of cases: on a real aperture (monitor only) / through the real ClientTimeoutSink / provider with endpoint_name
    'C03': dict(ap_real=0.25, tsink=0.4, epname=0.1),
    'C04': dict(ap_real=0.2, shared=0.15, tsink=0.65, epname=0.15),
    'C05': dict(ap_real=0.25, tsink=0.3, epname=0.4),
}
AP_PROFILE = dict(dispatch=8, c_any=2.5, c_min=0.5, c_max=1, rec=0.1, chan=1.5, chan_min=2.0, fault=0.3, join=0.4, leave=0.5,
                  burst=0.0)


def gen_aperture_real(r, pid='C03'):
  """ApertureBalancerSink with idle servers outside the aperture: min_size 1-3 of 4-8 servers, no jitter.
  Either: load the aperture, then take the least-loaded member's channel down and dispatch (expansion on
  node-down); or (adapt): load-driven resizing - a burst of requests expands the aperture past min_size, they
  complete and a trickle of request/reply pairs lets the load average fall below min_load (contraction), more
  than once.  The history ends with every member but one leaving and a dispatch (isolate)."""
  nsrv = r.choice([4, 5, 6, 7, 8])
  min_size = r.choice([1, 2, 3, 3, 3])
  adapt = r.random() < (0.7 if pid == 'C05' else 0.5 if pid == 'C04' else 0.3)
  universe = list(range(nsrv + r.choice([0, 1])))
  ops = [['init', r.sample(universe, nsrv), r.randrange(0, 1000)]]
  if adapt:
    min_size = r.choice([1, 1, 2, 3])
    for _round in range(r.choice([1, 2, 3])):
      k = r.choice([8, 12, 20, 30])
      ops += [['dispatch']] * k
      for _ in range(k):
        ops.append(['complete', 'any', r.randrange(0, 64), r.randrange(0, 1000), r.choice(['reply', 'error', 'timeout'])])
      for _ in range(r.choice([6, 12, 25])):
        ops.append(['dispatch'])
        ops.append(['complete', 'any', 0, r.randrange(0, 1000), 'reply'])
      for _ in range(r.choice([0, 3, 8])):
        ops.append(_one_op(r, AP_PROFILE, universe))
  else:
    for _ in range(r.choice([2 * min_size, 3 * min_size, 8])):
      ops.append(['dispatch'])
  for _ in range(r.choice([10, 20, 40, 60] if adapt else [20, 40, 60, 100])):
    ops.append(_one_op(r, AP_PROFILE, universe))
  ops.append(['isolate', r.randrange(0, 64)])
  case = {'kind': 'aperture_real', 'min_size': min_size, 'adapt': adapt,
          'st0': r.choice([2, 2, 2, 2, 1]), 'tsink': r.random() < 0.3, 'ops': ops}
  if r.random() < 0.7:
    case['epobj'] = True
  if r.random() < (0.5 if pid == 'C04' else 0.3):
    case['slow_open'] = True
  case['open_fail_every'] = r.choice([0, 0, 3, 4])     # expansion whose channel fails to open (-> expands again)
  return case


def gen_shared(r, pid):
  """Heap balancer whose member channels are built by the real SharedSinkProvider/RefCountedSink around the
  mock channel (monitor only).  Churn of few endpoints with requests in flight; injected pattern: a member leaves
  with requests in flight, re-joins (same shared connection), leaves again, then its requests complete."""
  universe = list(range(r.choice([2, 3, 4, 5])))
  ops = [['init', r.sample(universe, r.randrange(1, len(universe) + 1)), r.randrange(0, 1000)]]
  for _round in range(r.choice([2, 3, 5, 8])):
    for _ in range(r.choice([3, 6, 10])):
      ops.append(_one_op(r, PROFILES[r.choice(['load', 'churn', 'flap', 'steady'])], universe))
    e = r.choice(universe)
    k = r.choice([1, 2, 4])
    ops += [['join', e]] + [['dispatch']] * (k * len(universe))
    ops += [['leave', e], ['join', e]]
    if r.random() < 0.5:
      ops += [['dispatch']] * r.choice([0, 1, 3])
    ops += [['leave', e]]
    for _ in range(k * len(universe)):
      ops.append(['complete', 'ep', e, r.randrange(0, 1000), r.choice(KINDS)])
  ops.append(['burst'])
  return {'kind': 'heap', 'st0': r.choice([2, 2, 2, 4]), 'shared': True, 'tsink': r.random() < 0.4,
          'epobj': r.random() < 0.7, 'ops': ops}


def gen_case(r, pid, size_hint=None, aperture_share=0.15, tier='quick'):
  sh = SHARES[pid]
  x_ = r.random()
  if x_ < sh['ap_real']:
    return gen_aperture_real(r, pid)
  if x_ < sh['ap_real'] + sh.get('shared', 0.0):
    return gen_shared(r, pid)
  nmem = size_hint or r.choice([1, 2, 3, 4, 5, 6, 6, 7, 7, 8, 9, 10, 12])
  universe = list(range(nmem + r.choice([0, 0, 1, 2, 3])))
  ops = []
  pre = r.random()
  if pre < (0.5 if pid == 'C05' else 0.15):
    for _ in range(r.choice([1, 2, 3, 5])):
      ops.append([r.choice(['join', 'join', 'leave']), r.choice(universe)])
      if r.random() < 0.2:
        ops.append(['setchan', 'any', 0, 4])
  snap = r.sample(universe, min(len(universe), nmem))
  if r.random() < 0.15 and snap:
    snap.append(r.choice(snap))              # GetServers() with a duplicate entry
  if r.random() < 0.05:
    snap = []
  ops.append(['init', snap, r.randrange(0, 1000)])
  nsteps = r.choice([20, 40, 60, 80, 120, 200])
  if tier == 'thorough' and r.random() < 0.02:
    nsteps = r.choice([600, 1200])     # long-lived balancer: many operations on the same object
  prof = PROFILES[r.choice(MIX[pid])]
  left = 0
  for _ in range(nsteps):
    if left <= 0:
      prof = PROFILES[r.choice(MIX[pid])]
      left = r.choice([5, 10, 20, 30])
    left -= 1
    ops.append(_one_op(r, prof, universe))
  ops.append(['burst'])
  case = {'kind': 'aperture' if r.random() < aperture_share else 'heap',
          'st0': r.choice([2, 2, 2, 2, 1, 4, 3]), 'ops': ops}
  if pid == 'C05' and r.random() < 0.15:
    ops.append(['isolate', r.randrange(0, 64)])
  if r.random() < 0.7:
    case['epobj'] = True           # endpoints are objects; every notification carries a fresh, equal one
  first = next(i for i, o in enumerate(ops) if o[0] == 'init') + 1
  if r.random() < 0.25:
    case['failfast'] = True        # a closed channel fails the request inline, inside AsyncProcessRequest
  if r.random() < 0.2:
    case['twin'] = True            # a second, independent balancer instance lives (and works) in the same process
  case['open_fail_every'] = r.choice([0, 0, 0, 2, 3, 5])   # every n-th channel's Open() fails (asynchronously reported)
  if r.random() < 0.3:
    for i_, o_ in enumerate(ops):
      if i_ >= first and o_[0] == 'dispatch' and r.random() < 0.15:
        ops[i_] = ['dispatch_retry']   # the caller retries from inside its failure handler on an inline failure
      elif i_ >= first and o_[0] == 'join' and r.random() < 0.3:
        ops[i_] = ['join_openraise', o_[1]]   # the new channel's Open() raises synchronously
  if r.random() < {'C03': 0.25, 'C04': 0.3, 'C05': 0.35}[pid]:
    # channels whose Close() fails their in-flight requests synchronously (as the real transports do); pattern:
    # every member's channel drops, a request marks them down, a member leaves while marked down and loaded
    case['close_fails'] = True
    case['close_retry'] = r.random() < 0.5   # the caller of a request failed by Close() retries from inside it
    for _ in range(r.choice([1, 2, 3])):
      pat = [['dispatch']] * r.choice([0, 2, len(universe)])
      pat += [['setchan', 'member', k_, 4] for k_ in range(len(universe))]
      pat += [['dispatch']] * r.choice([1, 1, 2])
      e_ = r.choice(universe)
      pat += [['leave', e_]] + ([['dispatch']] if r.random() < 0.7 else []) + ([['join', e_]] if r.random() < 0.5 else [])
      at = r.randrange(first, len(ops))
      ops[at:at] = pat
  if r.random() < {'C03': 0.2, 'C04': 0.3, 'C05': 0.45}[pid]:
    # leaves during which closing the member's channel raises (the removal hook of the balancer fails)
    for i_, o_ in enumerate(ops):
      if o_[0] == 'leave' and i_ >= first and r.random() < 0.4:
        ops[i_] = ['leave_closefail', o_[1]]
    for _ in range(r.choice([1, 2])):
      e_ = r.choice(universe)
      at = r.randrange(first, len(ops))
      ops[at:at] = [['join', e_], ['leave_closefail', e_], ['join', e_], ['dispatch']]
  if r.random() < sh['tsink']:
    case['tsink'] = True
  if r.random() < sh['epname']:
    case['epname'] = True          # provider.endpoint_name = 'aux'; members carry service_endpoint != aux endpoint
    first = next(i for i, o in enumerate(ops) if o[0] == 'init') + 1
    for _ in range(r.choice([0, 1, 2, 3])):    # members lacking the named endpoint: ValueError, nothing changes
      ops.insert(r.randrange(first, len(ops)), [r.choice(['join_noaux', 'leave_noaux']), r.choice(universe)])
  return case


def gen_exhaustive(depth, nmem):
  """Every sequence of `depth` operations from a small alphabet on nmem members (bounded model checking
  flavour: complements the random histories)."""
  alpha = [['dispatch'], ['complete', 'min', 0, 0, 'reply'], ['complete', 'max', 0, 1, 'reply'],
           ['complete', 'any', 1, 2, 'error']]
  out = []
  def rec(prefix):
    if len(prefix) == depth:
      out.append({'kind': 'heap', 'st0': 2,
                  'ops': [['init', list(range(nmem)), 0]] + [['dispatch']] * (nmem + 1) + prefix + [['burst']]})
      return
    for a in alpha:
      rec(prefix + [a])
  rec([])
  return out


def gen_membership_exhaustive(depth):
  """Every sequence of `depth` notifications over endpoints {0, 1}, with Init ([0]) placed at every position."""
  alpha = [['join', 0], ['join', 1], ['leave', 0], ['leave', 1]]
  out = []
  def rec(prefix):
    if len(prefix) == depth:
      for pos in range(0, depth + 1, 2):
        ops = prefix[:pos] + [['init', [0], 0]] + prefix[pos:]
        ops = ops[:pos + 2] + [['dispatch']] + ops[pos + 2:] + [['burst']]
        out.append({'kind': 'heap', 'st0': 2, 'ops': ops})
      return
    for a in alpha:
      rec(prefix + [a])
  rec([])
  return out


def gen_cases(pid, tier, seed, n_quick, n_thorough):
  n = n_quick if tier == 'quick' else n_thorough
  out = []
  for i in range(n):
    r = C.case_rng(seed, pid, i)
    out.append(gen_case(r, pid, tier=tier))
  return out


def search_cases(pid, tier, seed, diverging):
  out = []
  for i in range(3000):
    r = C.case_rng(seed + 104729, pid, i)
    out.append(gen_case(r, pid, size_hint=r.choice([5, 6, 7, 8, 9, 10, 12])))
  return out


def nontrivial(case, obs):
  return sum(1 for s in obs.get('steps', []) if s['res'].get('t') == 'sent') >= 3


def describe(case, obs):
  steps = obs.get('steps', [])
  return {'case': {'kind': case.get('kind'), 'st0': case.get('st0'), 'ops': case['ops'][:12] + ['... %d ops' % len(case['ops'])]},
          'obs': {'labels': obs.get('labels', [])[:12], 'n_labels': len(obs.get('labels', [])),
                  'first_steps': [{'res': s['res'], 'events': s['events']} for s in steps[:6]]}}


def stats(cases, obs):
  """Distribution of labels / model branches exercised (computed from the implementation's observations)."""
  import collections
  c = collections.Counter()
  for cs, o in zip(cases, obs):
    if not isinstance(o, dict) or 'steps' not in o:
      c['harness_failures'] += 1
      continue
    c['cases_' + cs.get('kind', 'heap')] += 1
    if cs.get('tsink'):
      c['cases_with_real_ClientTimeoutSink_in_front'] += 1
    if cs.get('epname'):
      c['cases_with_named_endpoint_provider'] += 1
    if cs.get('epobj'):
      c['cases_with_fresh_endpoint_objects_per_notification'] += 1
    if cs.get('close_fails'):
      c['cases_with_Close_failing_inflight_requests'] += 1
    if cs.get('twin'):
      c['cases_with_second_balancer_instance_in_process'] += 1
      c['second_instance_operations'] += o.get('twin_ops', 0)
    if cs.get('failfast'):
      c['cases_with_channels_failing_requests_inline'] += 1
    if cs.get('open_fail_every'):
      c['cases_with_failing_channel_opens'] += 1
    for st_ in o['steps']:
      if st_.get('failed_fast_inline'):
        c['dispatch_failed_fast_inline_by_closed_channel'] += 1
      if st_.get('retry_after_inline_failure'):
        c['dispatch_retry_from_inside_failure_handler'] += 1
      if st_['res'].get('open_raised'):
        c['join_during_which_Open_raised'] += 1
    c['leave_closed_channel_with_requests_in_flight_reentrant_completions'] += sum(
        1 for st_ in o['steps'] if st_.get('closed_with_requests_in_flight'))
    c['leave_during_which_Close_raised'] += sum(1 for st_ in o['steps'] if st_['res'].get('close_raised'))
    if cs.get('shared'):
      c['cases_with_real_SharedSinkProvider_channels'] += 1
      c['shared_connection_reopened'] += max(0, sum(1 for st_ in o['steps'] for e_ in st_['events'] if e_[0] == 'open')
                                            - sum(1 for st_ in o['steps'] for e_ in st_['events'] if e_[0] == 'create'))
    if cs.get('kind') == 'aperture_real':
      sizes = [len((st_.get('diag') or {}).get('heap', [])) for st_ in o['steps']]
      labs = [l_[0] for l_ in o['labels']]
      grew = sum(1 for a_, b_, l_ in zip(sizes, sizes[1:], labs[1:]) if b_ > a_ and l_ in ('dispatch', 'complete'))
      shrank = sum(1 for a_, b_, l_ in zip(sizes, sizes[1:], labs[1:]) if b_ < a_ and l_ in ('dispatch', 'complete'))
      c['aperture_real_expansions_in_traffic'] += grew
      c['aperture_real_contractions_by_load'] += shrank
      if shrank:
        c['cases_aperture_real_with_load_driven_contraction'] += 1
    maxsize = 0
    prev = {}
    for lb, st in zip(o['labels'], o['steps']):
      res = st['res']
      if lb[0] == 'dispatch' and res.get('t') == 'sent' and 'heap' in prev:
        inheap = set(a for a, _b in prev['heap'])
        if any(x not in inheap for x in prev.get('downq', [])):
          c['dispatch_walk_unlinked_departed_node'] += 1
      if lb[0] == 'leave' and 'heap' in prev and any(e[0] == 'close' for e in st['events']):
        ld = dict((a, b) for a, b in prev['heap'])
        if any(ld.get(e[1], -1) > 0 for e in st['events'] if e[0] == 'close'):
          c['leave_closed_loaded_marked_down_node'] += 1
      prev = st.get('diag') or {}
      k = lb[0]
      c['label_' + k] += 1
      t = res.get('t')
      ev = st['events']
      if k == 'dispatch':
        c['dispatch_' + str(t)] += 1
        if any(e[0] == 'up' for e in ev):
          c['dispatch_resurrected_node'] += 1
        if any(e[0] == 'down' for e in ev):
          c['dispatch_marked_node_down'] += 1
          if cs.get('kind') == 'aperture_real' and any(e[0] == 'create' for e in ev):
            c['aperture_real_expanded_on_node_down'] += 1
        d = st.get('diag') or {}
        if t == 'sent' and 'heap' in d:
          ld = dict((a, b) for a, b in d['heap']).get(res['nid'])
          if ld is not None and ld >= 0:
            c['dispatch_to_penalised_node_all_down'] += 1
      elif k == 'complete':
        if st.get('again'):
          c['complete_again_noop'] += 1
        elif res.get('rand'):
          c['put_idle_reinsert_random'] += 1
        elif any(e[0] == 'close' for e in ev):
          c['put_detached_drained_close'] += 1
        else:
          c['put_fixup_or_detached'] += 1
        c['complete_kind_' + str(st.get('kind'))] += 1
        if res.get('caller_raised'):
          c['complete_upper_sink_raised'] += 1
        if res.get('reentrant_followup'):
          c['complete_with_reentrant_followup_dispatch'] += 1
        if st.get('real_timeout_sink'):
          c['complete_timeout_through_real_ClientTimeoutSink'] += 1
      elif k in ('join', 'leave'):
        c['%s_%s' % (k, t)] += 1
        if k == 'join' and any(e[0] == 'create' for e in ev):
          c['join_created_node'] += 1
        if k == 'join' and t == 'applied' and not ev:
          c['join_duplicate_ignored'] += 1
        if k == 'leave' and t == 'applied':
          c['leave_closed_at_once' if any(e[0] == 'close' for e in ev) else 'leave_unknown_or_deferred_close'] += 1
      elif k == 'init':
        c['init_with_deferred_notifications' if any(e[0] == 'close' for e in ev) or len([e for e in ev if e[0] == 'create']) != len(set(lb[1])) else 'init_plain'] += 1
      d = st.get('diag') or {}
      maxsize = max(maxsize, len(d.get('heap', [])))
    c['max_heap_size_%02d' % maxsize] += 1
    c['ops_skipped_not_applicable'] += o.get('skipped', 0)
  return {'distribution': dict(sorted(c.items()))}
