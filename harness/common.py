"""Common machinery for the scales verification checks (see /verif/DESIGN.md section 3).

A property module (harness/props/cXX.py) provides generators, an implementation driver, an
independent monitor and a translation of each (case, observation) into a Coq term; this module
builds the proof, evaluates the Gallina model on the same cases inside Coq (vm_compute), applies
the verdict protocol and writes evidence/replays.
"""
from __future__ import annotations

import fcntl
import hashlib
import json
import os
import random
import re
import subprocess
import sys
import time
import traceback
from concurrent.futures import ThreadPoolExecutor

VERIF = os.path.dirname(os.path.dirname(os.path.abspath(__file__)))
REPO = os.environ.get('SCALES_REPO', '/repo')
COQ = os.path.join(VERIF, 'coq')
BUILD = os.path.join(VERIF, 'build')
EVIDENCE = os.path.join(VERIF, 'evidence')
REPLAYS = os.path.join(VERIF, 'replays')
CORPUS = os.path.join(VERIF, 'corpus')
KNOWN = os.path.join(VERIF, 'KNOWN_FINDINGS.json')

# Standard-library axioms a theorem may depend on (each must also be named in DESIGN.md section 8).
ALLOWED_AXIOMS = {
    'functional_extensionality_dep', 'FunctionalExtensionality.functional_extensionality_dep',
    'ClassicalDedekindReals.sig_forall_dec', 'ClassicalDedekindReals.sig_not_dec',
    'sig_forall_dec', 'sig_not_dec', 'Classical_Prop.classic', 'classic',
    'Eqdep.Eq_rect_eq.eq_rect_eq', 'eq_rect_eq', 'JMeq_eq', 'proof_irrelevance',
    'ProofIrrelevance.proof_irrelevance',
}

FORBIDDEN = re.compile(
    r'\bAdmitted\b|\badmit\b|\bAxiom\b|\bAxioms\b|\bParameter\b|\bParameters\b|\bConjecture\b|'
    r'Unset\s+Guard|bypass_check|type-in-type|impredicative-set|Admit\s+Obligations|'
    r'Unset\s+Positivity|Unset\s+Universe|\bnative_compute\b')


# --------------------------------------------------------------------------------------------
# small utilities
# --------------------------------------------------------------------------------------------

def ensure_dirs():
  for d in (BUILD, EVIDENCE, REPLAYS):
    os.makedirs(d, exist_ok=True)


def case_rng(seed, pid, idx):
  h = hashlib.sha256(('%s:%s:%s' % (seed, pid, idx)).encode()).digest()
  return random.Random(int.from_bytes(h[:8], 'big'))


def strip_comments(src):
  """Remove (nested) Coq comments and string literals' content is left alone."""
  out = []
  depth = 0
  i = 0
  n = len(src)
  in_str = False
  while i < n:
    c = src[i]
    if depth == 0 and c == '"':
      in_str = not in_str
      out.append(c)
      i += 1
      continue
    if not in_str and src.startswith('(*', i):
      depth += 1
      i += 2
      continue
    if not in_str and depth > 0 and src.startswith('*)', i):
      depth -= 1
      i += 2
      continue
    if depth == 0:
      out.append(c)
    i += 1
  return ''.join(out)


def hygiene(files=None):
  """Forbidden-token gate over the .v files given (relative to coq/), default: every file. Returns offences."""
  bad = []
  if files is None:
    files = []
    for root, _dirs, fs in os.walk(COQ):
      for f in fs:
        if f.endswith('.v'):
          files.append(os.path.relpath(os.path.join(root, f), COQ))
  for f in files:
    p = os.path.join(COQ, f)
    src = strip_comments(open(p, encoding='utf-8').read())
    for ln, line in enumerate(src.split('\n'), 1):
      if FORBIDDEN.search(line):
        bad.append('%s:%d: %s' % (os.path.relpath(p, VERIF), ln, line.strip()[:120]))
  cpf = os.path.join(COQ, '_CoqProject')
  if os.path.exists(cpf):
    cp = open(cpf).read()
    if re.search(r'type-in-type|impredicative-set|-noinit|bypass', cp):
      bad.append('_CoqProject: forbidden flag')
  return bad


# --------------------------------------------------------------------------------------------
# proof building
# --------------------------------------------------------------------------------------------

def _run(cmd, timeout, cwd=None, inp=None):
  r = _run_once(cmd, timeout, cwd, inp)
  # a coqc/coqchk that was killed from outside (the kernel's out-of-memory killer on a loaded machine: signal exit
  # status and no diagnostic at all) says nothing about the development: try again before reporting a failure
  tries = 0
  while (r[0] < 0 or r[0] == 137) and not (r[1] + r[2]).strip() and tries < 3:
    tries += 1
    time.sleep(3 * tries)
    r = _run_once(cmd, timeout, cwd, inp)
  return r


def _run_once(cmd, timeout, cwd=None, inp=None):
  try:
    p = subprocess.run(cmd, cwd=cwd, input=inp, capture_output=True, text=True, timeout=timeout)
    return p.returncode, p.stdout, p.stderr
  except subprocess.TimeoutExpired as e:
    return 124, (e.stdout or b'').decode() if isinstance(e.stdout, bytes) else (e.stdout or ''), 'TIMEOUT after %ss' % timeout


_REQ = re.compile(r'(?:From\s+Scales\s+)?Require\s+(?:Import\s+|Export\s+)?(.*?)\.(?=\s|$)', re.S)


def _direct(f):
  """Direct project dependencies of one .v file (relative paths)."""
  src = strip_comments(open(os.path.join(COQ, f), encoding='utf-8').read())
  out = []
  for m in _REQ.finditer(src):
    for tok in m.group(1).split():
      tok = tok.strip()
      if tok.startswith('Scales.'):
        tok = tok[len('Scales.'):]
      cand = tok.replace('.', '/') + '.v'
      if os.path.exists(os.path.join(COQ, cand)) and cand not in out:
        out.append(cand)
  return out


def closure(vfile):
  """Transitive set of project .v files required by vfile (paths relative to COQ), vfile first."""
  seen = []
  todo = [vfile]
  while todo:
    f = todo.pop()
    if f in seen:
      continue
    seen.append(f)
    todo.extend(_direct(f))
  return seen


def count_obligations(files):
  n = 0
  for f in files:
    src = strip_comments(open(os.path.join(COQ, f), encoding='utf-8').read())
    n += len(re.findall(r'\b(?:Qed|Defined)\s*\.', src))
  return n


def build_all(jobs=16, timeout=3000):
  ensure_dirs()
  lock = open(os.path.join(BUILD, '.lock'), 'w')
  fcntl.flock(lock, fcntl.LOCK_EX)
  try:
    if (not os.path.exists(os.path.join(COQ, 'Makefile')) or
        os.path.getmtime(os.path.join(COQ, 'Makefile')) < os.path.getmtime(os.path.join(COQ, '_CoqProject'))):
      rc, out, err = _run(['coq_makefile', '-f', '_CoqProject', '-o', 'Makefile'], 120, cwd=COQ)
      if rc != 0:
        return rc, out + err
    rc, out, err = _run(['make', '-j%d' % jobs], timeout, cwd=COQ)
    return rc, out + err
  finally:
    fcntl.flock(lock, fcntl.LOCK_UN)
    lock.close()


def topo(files):
  order = []
  seen = set()

  def visit(f):
    if f in seen:
      return
    seen.add(f)
    for d in _direct(f):
      visit(d)
    order.append(f)
  for f in files:
    visit(f)
  return order


def build_closure(vfile, timeout=1500):
  """Compiles (full .vo) every stale file in the dependency closure of vfile, in order, under a lock."""
  ensure_dirs()
  lock = open(os.path.join(BUILD, '.lock'), 'w')
  fcntl.flock(lock, fcntl.LOCK_EX)
  try:
    rebuilt = set()
    for f in topo([vfile]):
      src = os.path.join(COQ, f)
      vo = src[:-2] + '.vo'
      stale = (not os.path.exists(vo)) or os.path.getmtime(vo) < os.path.getmtime(src)
      if not stale:
        for d in _direct(f):
          dvo = os.path.join(COQ, d)[:-2] + '.vo'
          if d in rebuilt or os.path.getmtime(dvo) > os.path.getmtime(vo):
            stale = True
            break
      if stale:
        rc, out, err = _run(['coqc', '-Q', COQ, 'Scales', '-w', '-notation-overridden,-deprecated-hint-without-locality,-deprecated-hint-rewrite-without-locality', src], timeout)
        if rc != 0:
          if os.path.exists(vo):
            os.remove(vo)
          return rc, out, err
        rebuilt.add(f)
    return 0, '', ''
  finally:
    fcntl.flock(lock, fcntl.LOCK_UN)
    lock.close()


def prove(props_file, timeout=1500):
  """Builds Props/<file> (and what it needs) and captures Print Assumptions.

  Returns dict(ok, broken, theorems, assumptions, obligations, discharged, files, log, checker_cmd).
  """
  ensure_dirs()
  info = dict(ok=False, broken=None, theorems=[], assumptions={}, obligations=0, discharged=0,
              files=[], log='', checker_cmd='')
  files = closure(props_file)
  bad = hygiene(files)
  if bad:
    info['broken'] = 'hygiene gate: ' + '; '.join(bad[:5])
    info['log'] = '\n'.join(bad)
    return info
  info['files'] = sorted(files)
  info['obligations'] = count_obligations(files)
  target = props_file[:-2] + '.vo'
  rc, out, err = build_closure(props_file, timeout)
  info['checker_cmd'] = 'coqc -Q coq Scales <each file in the dependency closure of %s, in order>; coqc coq/%s (Print Assumptions)' % (props_file, props_file)
  if rc != 0:
    info['log'] = (out + err)[-4000:]
    m = re.search(r'File "([^"]+)", line (\d+)', out + err)
    info['broken'] = 'theorem file does not compile: %s' % (m.group(0) if m else target)
    return info
  # re-run the property file alone to capture Print Assumptions
  tmpd = os.path.join(BUILD, 'pa_%d' % os.getpid())
  os.makedirs(tmpd, exist_ok=True)
  tmpvo = os.path.join(tmpd, os.path.basename(props_file)[:-2] + '.vo')
  rc, out, err = _run(['coqc', '-Q', COQ, 'Scales', os.path.join(COQ, props_file), '-o', tmpvo], timeout)
  for f in os.listdir(tmpd):
    os.remove(os.path.join(tmpd, f))
  os.rmdir(tmpd)
  if rc != 0:
    info['log'] = (out + err)[-4000:]
    info['broken'] = 'theorem file does not compile: ' + props_file
    return info
  src = strip_comments(open(os.path.join(COQ, props_file), encoding='utf-8').read())
  thms = re.findall(r'\b(?:Theorem|Corollary)\s+([A-Za-z_][\w\']*)', src)
  printed = re.findall(r'Print\s+Assumptions\s+([A-Za-z_][\w\']*)\s*\.', src)
  info['theorems'] = thms
  # split stdout into one block per Print Assumptions (in order)
  blocks = re.split(r'(?=Closed under the global context|Axioms:)', out)
  blocks = [b.strip() for b in blocks if b.strip().startswith(('Closed under', 'Axioms:'))]
  missing = [t for t in thms if t not in printed]
  if missing:
    info['broken'] = 'theorem(s) without Print Assumptions: ' + ', '.join(missing)
    return info
  if len(blocks) != len(printed):
    info['broken'] = 'could not match Print Assumptions output (%d blocks, %d commands)' % (len(blocks), len(printed))
    info['log'] = out[-4000:]
    return info
  for name, b in zip(printed, blocks):
    info['assumptions'][name] = ' '.join(b.split())
    if b.startswith('Axioms:'):
      names = re.findall(r'^\s*([A-Za-z_][\w\.\']*)\s*:', b[len('Axioms:'):], flags=re.M)
      extra = [a for a in names if a not in ALLOWED_AXIOMS and a.split('.')[-1] not in ALLOWED_AXIOMS]
      if extra:
        info['broken'] = 'theorem %s depends on non-whitelisted axioms: %s' % (name, ', '.join(extra))
        return info
  info['discharged'] = info['obligations']
  info['ok'] = True
  return info


def coqchk(props_file, timeout=1800):
  mod = 'Scales.' + props_file[:-2].replace('/', '.')
  rc, out, err = _run(['coqchk', '-silent', '-o', '-Q', COQ, 'Scales', mod], timeout)
  return rc, (out + err)[-6000:]


# --------------------------------------------------------------------------------------------
# Coq literals
# --------------------------------------------------------------------------------------------

def zlit(n):
  n = int(n)
  return '(%d)%%Z' % n


def nlit(n):
  n = int(n)
  assert n >= 0
  return '%d%%N' % n


def natlit(n):
  n = int(n)
  assert 0 <= n <= 5000, 'nat literal too large: %d' % n
  return '%d%%nat' % n


def blit(b):
  return 'true' if b else 'false'


def lst(items):
  return '[' + '; '.join(items) + ']'


def bytes_lit(b):
  """bytes -> list Z literal (each 0..255)."""
  return '[' + ';'.join(str(x) for x in b) + ']%Z'


def zlist(xs):
  return '[' + ';'.join('(%d)' % int(x) for x in xs) + ']%Z'


def nlist(xs):
  return '[' + ';'.join('%d' % int(x) for x in xs) + ']%N'


def natlist(xs):
  return '[' + ';'.join('%d' % int(x) for x in xs) + ']%nat'


def opt(x):
  return 'None' if x is None else '(Some %s)' % x


def pair(*xs):
  return '(' + ', '.join(xs) + ')'


def strlit(s):
  """ASCII-only python str -> Coq string literal."""
  assert all(32 <= ord(c) < 127 for c in s), 'non-ASCII string literal'
  return '"' + s.replace('"', '""') + '"%string'


# --------------------------------------------------------------------------------------------
# evaluating the model inside Coq
# --------------------------------------------------------------------------------------------

def _parse_index_list(out):
  """Parses the result of `Eval vm_compute in (failing ...)` : list N."""
  m = re.search(r'=\s*(.*?)\s*:\s*list N', out, flags=re.S)
  if not m:
    return None
  body = m.group(1)
  return [int(x) for x in re.findall(r'\d+', body.replace('%N', ''))]


import threading as _threading
_RETRY_LOCK = _threading.Lock()


def coq_eval(pid, header, case_type, check_fn, terms, shard=300, jobs=16, timeout=900,
             explain_fn=None):
  """Evaluates `check_fn : case_type -> bool` on every term with vm_compute.

  Returns (failing_indices, details, error) where details maps index -> raw Coq output of
  explain_fn on that case; error is a string when Coq itself failed (model does not accept the
  term: a correspondence break too).
  """
  ensure_dirs()
  d = os.path.join(BUILD, 'cases', pid + '_%d' % os.getpid())
  os.makedirs(d, exist_ok=True)
  shards = [terms[i:i + shard] for i in range(0, len(terms), shard)]
  files = []
  for k, sh in enumerate(shards):
    p = os.path.join(d, 's%d.v' % k)
    with open(p, 'w') as f:
      f.write(header + '\n')
      f.write('From Scales Require Import Model.Base.\nImport ListNotations.\n')
      f.write('Definition cases : list (%s) := [\n' % case_type)
      f.write(';\n'.join(sh))
      f.write('\n].\n')
      f.write('Eval vm_compute in (failing (%s) cases).\n' % check_fn)
    files.append(p)

  def one(p):
    cmd = ['bash', '-c', 'ulimit -s unlimited 2>/dev/null; exec coqc -Q %s Scales %s -o %s' % (COQ, p, p[:-2] + '.vo')]
    r = _run(cmd, timeout)
    # a coqc that was killed from outside (out-of-memory killer on a loaded machine: negative / 137 exit status and no
    # diagnostic) says nothing about the model: run that shard again, alone, before giving up
    tries = 0
    while r[0] != 0 and r[0] != 124 and not (r[1] + r[2]).strip() and tries < 3:
      tries += 1
      time.sleep(2 * tries)
      with _RETRY_LOCK:
        r = _run(cmd, timeout)
    return r

  failing = []
  error = None
  with ThreadPoolExecutor(max_workers=jobs) as ex:
    results = list(ex.map(one, files))
  for k, (rc, out, err) in enumerate(results):
    if rc != 0:
      error = 'coqc failed on shard %d: %s' % (k, (out + err)[-1500:])
      continue
    idx = _parse_index_list(out)
    if idx is None:
      error = 'could not parse coq output on shard %d: %s' % (k, out[-500:])
      continue
    failing.extend(k * shard + i for i in idx)
  details = {}
  if explain_fn and failing:
    for gi in failing[:5]:
      p = os.path.join(d, 'x%d.v' % gi)
      with open(p, 'w') as f:
        f.write(header + '\nFrom Scales Require Import Model.Base.\nImport ListNotations.\n')
        f.write('Eval vm_compute in (%s (%s)).\n' % (explain_fn, terms[gi]))
      rc, out, err = one(p)
      details[gi] = ' '.join((out + err).split())[:4000]
  # clean up
  for root, _ds, fs in os.walk(d, topdown=False):
    for f in fs:
      os.remove(os.path.join(root, f))
    os.rmdir(root)
  return sorted(failing), details, error


# --------------------------------------------------------------------------------------------
# known findings, replays, evidence, verdict
# --------------------------------------------------------------------------------------------

def load_known():
  try:
    return json.load(open(KNOWN))
  except FileNotFoundError:
    return {'findings': [], 'fixed': []}


def known_match(pid, signature):
  for f in load_known().get('findings', []):
    if f.get('property') == pid and f.get('signature') == signature:
      return f
  return None


def write_replay(pid, seed, payload):
  ensure_dirs()
  n = 0
  while True:
    p = os.path.join(REPLAYS, '%s_seed%s_%d.json' % (pid, seed, n))
    if not os.path.exists(p):
      break
    n += 1
  with open(p, 'w') as f:
    json.dump(payload, f, indent=1, default=repr)
  return p


def write_evidence(pid, tier, seed, level, coverage, assumptions, wall, violations, scratch=False):
  ensure_dirs()
  ev = dict(property_id=pid, tier=tier, seed=int(seed), level=level, coverage=coverage,
            assumptions=assumptions, wall_s=round(wall, 3), violations=int(violations))
  # runs against a scratch copy of the repository or without the proof step are not evidence for /repo
  d = EVIDENCE
  if scratch or os.path.realpath(REPO) != '/repo':
    d = os.path.join(BUILD, 'evidence_scratch')
    os.makedirs(d, exist_ok=True)
  tmp = os.path.join(d, '.%s.json.tmp' % pid)
  with open(tmp, 'w') as f:
    json.dump(ev, f, indent=1, default=repr)
  os.replace(tmp, os.path.join(d, '%s.json' % pid))


def canon(x):
  return json.dumps(x, sort_keys=True, default=repr)


BASE_TRUSTED = [
    'Coq 8.16.1 kernel (coqc); vm_compute for model evaluation, examples and finite sweeps; no native_compute',
    'hand-written Gallina model tied to /repo by the correspondence check of this run (differential execution)',
    'Python correspondence harness under /verif/harness (generators, drivers, canonicalisation, monitors)',
    'CPython 3.12, gevent, struct; see DESIGN.md section 8',
]

# ---- source fingerprints ---------------------------------------------------------------------------------------------
def ast_fingerprint(path):
  """Hash of a Python file's AST with docstrings removed; None if the file is missing or does not parse."""
  import ast
  import hashlib
  try:
    tree = ast.parse(open(path, 'rb').read())
  except Exception:
    return None
  for node in ast.walk(tree):
    body = getattr(node, 'body', None)
    if isinstance(node, (ast.Module, ast.ClassDef, ast.FunctionDef, ast.AsyncFunctionDef)) and body:
      first = body[0]
      if isinstance(first, ast.Expr) and isinstance(getattr(first, 'value', None), ast.Constant) and isinstance(first.value.value, str):
        node.body = body[1:] or [ast.Pass()]
  return hashlib.sha256(ast.dump(tree, annotate_fields=False, include_attributes=False).encode()).hexdigest()[:16]


def source_drift(pid):
  """Anchored source files of the property whose AST differs from the fingerprint recorded when the model was last
  reconciled with /repo (anchors.json).  A non-empty answer does not mean anything is wrong - it makes the quick check
  sample more (see runner)."""
  try:
    allrec = json.load(open(os.path.join(VERIF, 'anchors.json')))
    if allrec.get('_python') != '%d.%d' % sys.version_info[:2]:
      return []          # fingerprints of another interpreter version are not comparable
    rec = allrec.get(pid, {})
  except Exception:
    return []
  return sorted(f for f, h in rec.items() if ast_fingerprint(os.path.join(REPO, f)) != h)
