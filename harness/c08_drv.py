"""C08 driver: the real serial (scales.thrift.sink.SocketTransportSink) and ThriftMux
(scales.thriftmux.sink.SocketTransportSink) transports, created through their providers (so the real
ScalesSocket + VarzSocketWrapper are underneath), driven DIRECTLY in the simulation world (harness/vworld.py).

Everything the transports do to their collaborators is recorded in one ordered event list:
  ['w', 'open-begin'] / ['w', 'open-end', 'ok' | <exception class>]   VarzSocketWrapper.open (pass-through wrapper)
  ['w', 'close'], ['w', 'write-begin', n] / ['w', 'write-end', ...], ['w', 'read-begin', n] / ['w', 'read-end', 'ok'|cls, hex]
  ['io', op, outcome]           the fake gsocket underneath (connect / send / recv / close): fault positions
  ['run', fn]                   a greenlet spawned by the transport starts (gevent.spawn proxy)
  ['q', 'put'|'get', type, tag] the mux send queue (gevent.queue.Queue subclass)
  ['draw', v]                   random.randint(30, 40) of the ping loop
  ['arwait', ok]                AsyncResult.wait(timeout) returned (the ping time-out helper woke up)
  ['arget', ok]                 a blocking AsyncResult.get() returned / raised (_OpenImpl waiting for the first Rping)
  ['post', call, kind, cls]     a message reached the terminator frame of a call's sink stack
  ['fault', cls]                an on_faulted subscriber was notified
Nothing private of the sinks is read.
"""
import io
import random
import socket as _socket
import struct

import gevent
import gevent.queue
from gevent.event import Event as REvent

from . import vworld as V
from . import peers as P
from .ifaces.hello import Hello

T0 = 1024.0
PORT = 9001
_LOG = [None]
_RUN = [None]
_BLOCKED = {}          # greenlet -> call id of a request issued while Open() was in progress
_S = {}


def emit(*e):
  if _LOG[0] is not None:
    _LOG[0].append(list(e))


def ticks(t):
  x = (t - T0) / V.TICK
  r = round(x)
  return r if abs(x - r) < 1e-9 else x


# ------------------------------------------------------------------------------------------------
# fake socket with hang / slow connect support and an I/O log
# ------------------------------------------------------------------------------------------------
class Sock(V.FakeG):
  """FakeG plus: 'hang' on send/recv (blocks until the socket is closed), connect outcomes
  ('slow', ticks, ok) = the connect takes that long and then succeeds / fails with ETIMEDOUT."""

  def __init__(self, *a):
    V.FakeG.__init__(self, *a)
    self._hang = REvent()

  def connect(self, addr):
    w = self.world
    self.port = addr[1]
    srv = w.servers.get(self.port)
    now = w.clock.now
    fault = w.io_fault('connect', self.port, self)
    r = srv.is_reachable(now) if srv else False
    if fault is not None:
      r = fault
    w.log.append((now, 'connect', self.port, str(r)))
    emit('io', 'connect-begin')
    if isinstance(r, BaseException):
      emit('io', 'connect', 'exc')
      raise r
    if isinstance(r, (tuple, list)) and r[0] == 'slow':
      V.vsleep(r[1] * V.TICK)
      if self._closed:
        emit('io', 'connect', 'closed')
        raise _socket.error(9, 'Bad file descriptor')
      if not r[2]:
        emit('io', 'connect', 'timedout')
        raise _socket.timeout('timed out')
      r = True
    if r == 'hang':
      emit('io', 'connect', 'hang')
      REvent().wait()
    if not r:
      emit('io', 'connect', 'refused')
      raise _socket.error(111, 'Connection refused')
    d = getattr(srv, 'connect_delay', 0)
    if d:
      V.vsleep(d * V.TICK)
      if self._closed:
        emit('io', 'connect', 'closed')
        raise _socket.error(9, 'Bad file descriptor')
    self._connected = True
    cid = next(w.conn_ids)
    self._conn = V.Conn(w, self.port, cid, self)
    srv.conns.append(self._conn)
    emit('io', 'connect', 'ok')
    srv.on_connect(self._conn)

  def sendall(self, data):
    w = self.world
    try:
      self._check_usable('send')
    except Exception:
      emit('io', 'send', 'unusable')
      raise
    self.send_count += 1
    fault = w.io_fault('send', self.port, self)
    if fault is not None and fault != 'parthang':
      w.log.append((w.clock.now, 'send-fault', self.port, self._conn.cid, repr(fault)))
      if fault == 'hang':
        emit('io', 'send', 'hang')
        self._hang.wait()
        raise _socket.error(9, 'Bad file descriptor')
      emit('io', 'send', 'exc')
      raise fault
    if self._err is not None:
      emit('io', 'send', 'reset')
      raise self._err
    data = bytes(data)
    w.log.append((w.clock.now, 'send', self.port, self._conn.cid, len(data)))
    w.wire.append((w.clock.now, self.port, self._conn.cid, data))
    self._conn.write_starts.append((self._conn.written, w.next_seq() if hasattr(w, 'next_seq') else None, w.clock.now))
    self._conn.written += len(data)
    srv = w.servers[self.port]
    d = getattr(srv, 'send_delay', 0)
    gone = self._conn.closed_by_peer
    if (d or fault == 'parthang') and len(data) > 1:
      # a slow write: half of the buffer is accepted at once, the caller blocks, the rest follows (or never does: the
      # peer stopped draining); an exception thrown into the blocked writer leaves the first half on the wire
      cut = len(data) // 2
      emit('io', 'send', 'part', cut)
      self._deliver(data[:cut])
      if fault == 'parthang':
        self._hang.wait()
        raise _socket.error(9, 'Bad file descriptor')
      V.vsleep(d * V.TICK)
      if self._closed:
        emit('io', 'send', 'closed')
        raise _socket.error(9, 'Bad file descriptor')
      self._deliver(data[cut:])
    else:
      self._deliver(data)
    if gone or self._conn.closed_by_peer:
      emit('io', 'send', 'ok', len(data), 'peer-gone')
    else:
      emit('io', 'send', 'ok', len(data))

  def _deliver(self, data):
    if not self._conn.closed_by_peer and not self._conn.closed_by_client:
      self._conn.rx += data
      self.world.servers[self.port].on_data(self._conn)

  def recv_into(self, view, sz=0):
    w = self.world
    try:
      self._check_usable('recv')
    except Exception:
      emit('io', 'recv', 'unusable')
      raise
    self.recv_count += 1
    fault = w.io_fault('recv', self.port, self)
    if fault is not None:
      w.log.append((w.clock.now, 'recv-fault', self.port, self._conn.cid, repr(fault)))
      if fault == 'eof':
        emit('io', 'recv', 'eof-injected')
        return 0
      if fault == 'hang':
        emit('io', 'recv', 'hang')
        self._hang.wait()
        emit('io', 'recv', 'closed')
        raise _socket.error(9, 'Bad file descriptor')
      emit('io', 'recv', 'exc')
      raise fault
    while not self._rxq:
      if self._closed:
        break
      if self._err is not None:
        emit('io', 'recv', 'reset')
        raise self._err
      if self._eof:
        emit('io', 'recv', 'eof')
        return 0
      self._ev.clear()
      self._ev.wait()
    if self._closed:
      # closed by another greenlet while this one was blocked: gevent cancels the wait with EBADF
      emit('io', 'recv', 'closed')
      raise _socket.error(9, 'Bad file descriptor')
    chunk = self._rxq[0]
    n = min(sz or len(view), len(chunk))
    view[:n] = chunk[:n]
    if n == len(chunk):
      self._rxq.pop(0)
    else:
      self._rxq[0] = chunk[n:]
    emit('io', 'recv', 'ok', n)
    return n

  def close(self):
    was = self._closed
    V.FakeG.close(self)
    if not was:
      emit('io', 'close')
    self._hang.set()


class Proxy(V._GeventProxy):
  """gevent as seen by the transport modules: virtual sleep/Timeout (inherited) and a spawn that records when
  the spawned function starts to run."""
  __name__ = 'c08-gevent-proxy'      # not 'gevent': the world must not mistake it for the unpatched module

  @staticmethod
  def spawn(fn, *a, **kw):
    name = getattr(fn, '__name__', 'fn')

    def run(*aa, **kk):
      emit('run', name)
      return fn(*aa, **kk)
    g = gevent.spawn(run, *a, **kw)
    w = V._CUR[0]
    if w is not None:
      w.greenlets.append(g)
    return g


def _frame_kind(payload):
  """(type, tag) of a mux frame as queued by the transport (4-byte length, type, 3-byte tag)."""
  try:
    t, = struct.unpack('!b', payload[4:5])
    return t, int.from_bytes(payload[5:8], 'big')
  except Exception:
    return None, None


class LQueue(gevent.queue.Queue):
  def put(self, item, *a, **kw):
    t, tag = _frame_kind(item[0])
    emit('q', 'put', t, tag)
    return gevent.queue.Queue.put(self, item, *a, **kw)

  def get(self, *a, **kw):
    item = gevent.queue.Queue.get(self, *a, **kw)
    t, tag = _frame_kind(item[0])
    emit('q', 'get', t, tag)
    return item


def setup(repo):
  if _S:
    return
  import sys
  import logging
  import warnings
  logging.disable(logging.CRITICAL)
  warnings.simplefilter('ignore')
  if repo not in sys.path:
    sys.path.insert(0, repo)
  import scales
  assert scales.__file__.startswith(repo), scales.__file__
  V.install()
  import scales.scales_socket as ss
  import scales.varz as vz
  import scales.asynchronous as sa
  import scales.observable as ob
  import scales.thrift.sink as ts
  import scales.mux.sink as ms
  import scales.thriftmux.sink as tms
  import scales.sink as sk
  import scales.message as msgm
  from scales.constants import ChannelState, SinkProperties, TransportHeaders
  from scales.loadbalancer.zookeeper import Endpoint
  from scales.thrift.serializer import MessageSerializer as TSer
  from scales.thriftmux.serializer import MessageSerializer as MSer
  px = Proxy()

  def repatch():
    # the world (re)binds the virtual primitives in the scales modules whenever one is created: put ours back on top
    ss.gsocket = Sock
    for m in (ts, ms, tms, sa, ob):
      m.gevent = px
    ms.Queue = LQueue
  repatch()
  _S['repatch'] = repatch

  # pass-through wrappers around the socket object handed to the transports
  W = vz.VarzSocketWrapper
  o_open, o_close, o_write, o_read = W.open, W.close, W.write, W.readAll

  def w_open(self):
    emit('w', 'open-begin')
    try:
      o_open(self)
    except BaseException as e:
      emit('w', 'open-end', type(e).__name__)
      raise
    emit('w', 'open-end', 'ok')

  def w_close(self):
    emit('w', 'close')
    return o_close(self)

  def w_write(self, buff):
    emit('w', 'write-begin', len(buff))
    try:
      o_write(self, buff)
    except BaseException as e:
      emit('w', 'write-end', type(e).__name__)
      raise
    emit('w', 'write-end', 'ok', bytes(buff[:8]).hex())

  def w_read(self, sz):
    emit('w', 'read-begin', sz)
    try:
      r = o_read(self, sz)
    except BaseException as e:
      emit('w', 'read-end', type(e).__name__)
      raise
    emit('w', 'read-end', 'ok', bytes(r[:8]).hex())
    return r
  W.open, W.close, W.write, W.readAll = w_open, w_close, w_write, w_read

  prev_wait = sa.AsyncResult.wait

  def ar_wait(self, timeout=None):
    blocking = timeout is None and not self.ready()
    r = prev_wait(self, timeout)
    if timeout is not None:
      emit('arwait', bool(self.successful()))
    elif blocking:
      c = _BLOCKED.get(gevent.getcurrent())
      if c is not None:
        emit('api', 'req-resume', c)      # a caller that waited for the open result inside AsyncProcessRequest goes on
    return r
  sa.AsyncResult.wait = ar_wait
  prev_get = sa.AsyncResult.get

  def ar_get(self, block=True, timeout=None):
    if self.ready() or not block:
      return prev_get(self, block, timeout)
    try:
      r = prev_get(self, block, timeout)
    except gevent.GreenletExit:
      raise
    except BaseException:
      emit('arget', False)
      raise
    emit('arget', True)
    return r
  sa.AsyncResult.get = ar_get

  class Term(sk.ClientMessageSink):
    """Bottom frame of a call's sink stack: records every message that reaches it and pushes itself back, so a
    second delivery to the same call is seen as well."""

    def __init__(self, c, onfail=None, onreply=None):
      super(Term, self).__init__()
      self.c = c
      self.onfail = onfail        # what the caller does, synchronously, inside its failure callback
      self.onreply = onreply      # ... inside its reply callback

    def AsyncProcessRequest(self, sink_stack, msg, stream, headers):
      raise NotImplementedError()

    def AsyncProcessResponse(self, sink_stack, context, stream, msg):
      if msg is None:
        kind, cls, txt = 'reply', 'stream', ''
      else:
        err = getattr(msg, 'error', None)
        if err is None:
          kind, cls, txt = 'value', 'value', ''
        else:
          cls, txt = type(err).__name__, str(err)[:80]
          if isinstance(err, msgm.TimeoutError):
            kind = 'timeout'
          elif isinstance(err, msgm.ChannelConcurrencyError):
            kind = 'conc'
          elif isinstance(err, msgm.ClientError):
            kind = 'clienterr'
          elif cls == 'Exception' and txt == 'Sink not open.':
            kind = 'notopen'
          else:
            kind = 'err'
      emit('post', self.c, kind, cls, txt)
      sink_stack.Push(self)
      run = _RUN[0]
      if run is None:
        return
      if kind == 'reply' and self.onreply:
        act, self.onreply = self.onreply, None
        if act == 'next':           # the caller pipelines its next request from inside the reply callback
          run.issue(self.c + 2000, None, False)
      act, self.onfail = self.onfail, None
      if act and kind in ('err', 'timeout', 'clienterr'):
        # a re-entrant caller: retries on the same transport, closes or re-opens it, or blows up, inside the callback
        if act == 'retry':
          run.issue(self.c + 1000, None, False)
        elif act == 'close':
          run.do_close()
        elif act == 'open':
          run.do_open(settle=False)
        elif act == 'raise':
          emit('cb-raise', self.c, 'ValueError')
          raise ValueError('the caller\'s failure callback is broken')
        elif act == 'raise-timeout':
          emit('cb-raise', self.c, 'Timeout')
          raise gevent.Timeout()

  _S.update(ts=ts, ms=ms, tms=tms, sk=sk, msgm=msgm, ob=ob, Term=Term, ChannelState=ChannelState, SinkProperties=SinkProperties,
            TransportHeaders=TransportHeaders, Endpoint=Endpoint, tser=TSer(Hello.Iface), mser=MSer(Hello.Iface))


STATE = {0: 'Idle', 1: 'Open', 2: 'Busy', 3: 'Closed'}


def _state_name(sink):
  try:
    v = sink.state
  except Exception as e:
    return 'exc:' + type(e).__name__
  cs = _S['ChannelState']
  for n in ('Idle', 'Open', 'Busy', 'Closed'):
    if v == getattr(cs, n):
      return n
  return str(v)


_FAULT = {
    'exc': lambda: _socket.error(104, 'injected connection reset'),
    'pipe': lambda: _socket.error(32, 'injected EPIPE'),
    'eof': lambda: 'eof',
    'refuse': lambda: False,
    'hang': lambda: 'hang',
    'parthang': lambda: 'parthang',
    'timedout': lambda: _socket.timeout('injected timed out'),
}


def _mk_fault(f):
  what = f['what']
  if isinstance(what, list):      # ['slow', ticks, ok]
    return ('slow', what[1], bool(what[2]))
  if f['op'] == 'send' and what == 'eof':
    what = 'pipe'
  if f['op'] == 'connect' and what == 'eof':
    what = 'refuse'
  return _FAULT[what]()


class Run(object):
  """One case: world, scripted peer, transport, op interpreter producing slices."""

  def __init__(self, case):
    self.case = case
    self.mux = case['kind'] == 'mux'
    self.rng = random.Random(case.get('seed', 0))
    self.w = V.World(self.rng, t0=T0, tie=case.get('tie', 'fifo'))
    _S['repatch']()
    self.ev = []
    _LOG[0] = self.ev
    _RUN[0] = self
    self.slices = []
    self.mark = 0
    self.calls = {}
    self.keep = []
    sv = case.get('server', {})
    cls = P.MuxServer if self.mux else P.ThriftServer
    kw = {'ping': sv.get('ping', True)} if self.mux else {}
    plan = {}
    for k, v in (sv.get('plan') or {}).items():
      plan[int(k) if isinstance(k, str) and k.lstrip('-').isdigit() else k] = v
    self.srv = cls(PORT, reachable=sv.get('reachable', True), plan=plan, default=sv.get('default'), **kw)
    self.srv.connect_delay = sv.get('connect_delay', 0)
    self.srv.send_delay = sv.get('send_delay', 0)
    self.w.add_server(self.srv)
    for f in case.get('faults', []):
      self.w.add_fault(f['op'], f['nth'], _mk_fault(f), None)
    draws = list(case.get('draws', []))

    def hook(kind, a, b):
      v = draws.pop(0) if draws else self.rng.randint(a, b)
      v = min(max(v, a), b)
      emit('draw', v)
      return v
    self.w.rand_hook = hook
    sinkcls = _S['tms'].SocketTransportSink if self.mux else _S['ts'].SocketTransportSink
    props = {_S['SinkProperties'].Endpoint: _S['Endpoint']('h', PORT), _S['SinkProperties'].Label: 'svc'}
    self.sink = sinkcls.Builder().CreateSink(props)
    self.open_ars = []
    self.on_fault = case.get('on_fault')      # what a fault subscriber does from inside the notification

    def faulted(v):
      emit('fault', type(v).__name__)
      act, self.on_fault = self.on_fault, None
      if act == 'close':
        self.do_close()
      elif act == 'req':
        self.issue(3000, None, False)
      elif act == 'open':
        self.do_open(settle=False)
    self.sink.on_faulted.Subscribe(faulted)
    n = sv.get('rx_chunk')
    if n:
      # everything the peer sends arrives in pieces of n bytes (n = 1: a message split at every byte boundary)
      srv_connect = self.srv.on_connect

      def on_connect(conn):
        send = conn.send

        def chunked(data, chunks=None):
          return send(data, chunks or [n] * (len(data) // n + 1))
        conn.send = chunked
        return srv_connect(conn)
      self.srv.on_connect = on_connect

  # -- the three API entry points with the owner-contract guards, usable from ops and from inside callbacks ------------
  def issue(self, c, dl, ev, onfail=None, pad=0, onreply=None):
    if c in self.calls:
      return
    if self.open_pending() and not self.mux:
      emit('api', 'skip', 'req')      # the pool only lends a serial sink whose Open() completed
    else:
      self.request(c, dl, ev, onfail, pad, onreply)

  def do_close(self):
    if not self.mux and self.connecting():
      emit('api', 'skip', 'close')
    else:
      emit('api', 'close')
      self.sink.Close()

  def do_open(self, settle=True):
    busy = self.connecting() or (sum(1 for e in self.ev if e[0] == 'w' and e[1] == 'open-end' and e[2] == 'ok') >
                                 sum(1 for e in self.ev if e[0] == 'arget')) if self.mux else (self.inflight() or self.connecting())
    if self.open_pending() or busy:
      # not while an earlier _OpenImpl is still running (mux), nor on a serial sink that carries a request
      emit('api', 'skip', 'open')
      return
    emit('api', 'open')
    self.open_ars.append(self.sink.Open())
    if settle:
      self.w.settle()

  # -- observation ---------------------------------------------------------------------------------
  def cut(self, op_index, what):
    evs = self.ev[self.mark:]
    self.mark = len(self.ev)
    self.slices.append({'op': op_index, 'what': what, 't': ticks(self.w.clock.now), 'state': _state_name(self.sink),
                        'ev': evs, 'nreq': len(self.srv.requests), 'crashes': len(self.w.crashes),
                        'open': [self._ar(a) for a in self.open_ars]})

  @staticmethod
  def _ar(a):
    if not a.ready():
      return 'pending'
    return 'ok' if a.successful() else 'exc:' + type(a.exception).__name__

  # -- ops -----------------------------------------------------------------------------------------
  def request(self, c, dl, ev, onfail=None, pad=0, onreply=None):
    S = _S
    arg = str(c) if not pad else str(c) + '|' + 'x' * int(pad)
    msg = S['msgm'].MethodCallMessage(Hello.Iface, 'hi', (arg,), {})
    if dl is not None:
      msg.properties[S['msgm'].Deadline.KEY] = self.w.clock.now + dl * V.TICK
    evt = None
    if ev:
      evt = S['ob'].Observable()
      msg.properties[S['msgm'].Deadline.EVENT_KEY] = evt
    st = S['sk'].ClientMessageSinkStack()
    st.Push(S['Term'](c, onfail, onreply))
    self.calls[c] = {'evt': evt, 'stack': st, 'msg': msg}
    buf = io.BytesIO()
    headers = {}
    if self.mux:
      S['mser'].Marshal(msg, buf, headers)
    else:
      S['tser'].SerializeThriftCall(msg, buf)
    if self.mux and self.open_pending() and _state_name(self.sink) == 'Idle':
      # the caller blocks inside AsyncProcessRequest until the open result is ready: it needs its own greenlet
      emit('api', 'req', c, dl, 'blocked')

      def blocked():
        _BLOCKED[gevent.getcurrent()] = c
        try:
          self.sink.AsyncProcessRequest(st, msg, buf, headers)
        except Exception as e:
          emit('raise', c, type(e).__name__, str(e)[:80])
        finally:
          _BLOCKED.pop(gevent.getcurrent(), None)
        emit('api', 'req-ret', c)
      g = gevent.spawn(blocked)
      self.w.greenlets.append(g)
      return
    emit('api', 'req', c, dl)
    try:
      self.sink.AsyncProcessRequest(st, msg, buf, headers)
    except Exception as e:      # an exception out of AsyncProcessRequest itself
      emit('raise', c, type(e).__name__, str(e)[:80])
    emit('api', 'req-ret', c)

  def peer(self, act):
    for cn in self.srv.conns:
      if not cn.closed_by_client and not cn.closed_by_peer:
        emit('api', 'peer', act[0])
        if act[0] == 'close':
          cn.close()
        elif act[0] == 'reset':
          cn.reset()
        elif act[0] == 'rping':
          cn.send(P.mux_frame(P.R_PING, 1, b''))
        elif act[0] == 'junk':
          cn.send(P.mux_frame(P.R_DISPATCH, act[1] if len(act) > 1 else 0, b'\x00\x00\x00'))
        elif act[0] == 'raw':
          cn.send(bytes.fromhex(act[1]))

  def advance(self, n):
    w = self.w
    target = w.clock.now + n * V.TICK
    w.settle()
    while True:
      nt = w.clock.next_time()
      if nt is None or nt > target:
        break
      before = len(self.ev)
      w.advance_to(nt)
      if len(self.ev) > before:
        self.cut(self.opi, 'timer')
    w.advance_to(target)

  # -- usage contract of the transports' owners (pool / resurrector), enforced at run time ------------
  def open_pending(self):
    return any(not a.ready() for a in self.open_ars)

  def connecting(self):
    b = sum(1 for e in self.ev if e[0] == 'io' and e[1] == 'connect-begin')
    d = sum(1 for e in self.ev if e[0] == 'io' and e[1] == 'connect' and e[2] != 'hang')
    return b > d

  def inflight(self):
    """calls the transport accepted and has not answered (harness accounting on the event log only)"""
    cur = None
    out = set()
    for e in self.ev:
      if e[0] == 'api' and e[1] == 'req':
        cur = e[2]
        out.add(cur)
      elif e[0] == 'api' and e[1] == 'close':
        out.clear()
      elif e[0] == 'post':
        out.discard(e[1])
    return out

  def run(self):
    w = self.w
    for i, op in enumerate(self.case['ops']):
      self.opi = i
      k = op[0]
      if k == 'open':
        self.do_open()
      elif k == 'req':
        c, dl = op[1], op[2]
        if c in self.calls:
          continue
        self.issue(c, dl, bool(op[4]) if len(op) > 4 else False, op[5] if len(op) > 5 else None,
                   op[6] if len(op) > 6 else 0, op[7] if len(op) > 7 else None)
        if len(op) < 4 or op[3]:
          w.settle()
      elif k == 'expire':
        cl = self.calls.get(op[1])
        if cl and cl['evt'] is not None and not cl.get('fired'):
          cl['fired'] = True
          emit('api', 'expire', op[1])
          cl['evt'].Set(True)
          w.settle()
      elif k == 'adv':
        self.advance(op[1])
      elif k == 'close':
        self.do_close()
        w.settle()
      elif k == 'peer_at':
        # a peer action scheduled on the virtual clock (lands at the same instant as the transport's own timers)
        act = list(op[2:])
        w.clock.call_at(w.clock.now + op[1] * V.TICK, lambda act=act: self.peer(act))
      elif k == 'peer':
        self.peer(list(op[1:]))
        w.settle()
      elif k == 'ping':
        self.srv.ping = op[1]
      elif k == 'settle':
        w.settle()
      self.cut(i, k)
    return self.result()

  def result(self):
    reqs = [[ticks(r['time']), str(r['arg']).split('|')[0], r.get('tag'), len(str(r['arg']))] for r in self.srv.requests]
    wire = []
    for (t, _p, cid, data) in self.w.wire:
      wire.append([ticks(t), cid, len(data), data[:8].hex()])
    return {'slices': self.slices, 'requests': reqs, 'wire': wire, 'crashes': self.w.crashes,
            'malformed': [[ticks(m[0]), m[1], str(m[2])[:80]] for m in self.srv.malformed],
            'pings': getattr(self.srv, 'pings', 0), 'end': ticks(self.w.clock.now)}

  def close(self):
    _LOG[0] = None
    _RUN[0] = None
    _BLOCKED.clear()
    try:
      self.w.close()
    except Exception:
      pass


def run_case(case):
  r = Run(case)
  try:
    return r.run()
  finally:
    r.close()


def run_twin(case):
  """Two transport instances of the same class (two endpoints) in one world; nothing but the public API is used."""
  mux = case['proto'] == 'mux'
  rng = random.Random(case.get('seed', 0))
  w = V.World(rng, t0=T0, tie='fifo')
  _S['repatch']()
  ev = []
  _LOG[0] = ev
  _RUN[0] = None
  try:
    srvs, sinks, faults = [], [], [0, 0]
    for i in (0, 1):
      port = PORT + i
      cls = P.MuxServer if mux else P.ThriftServer
      srv = cls(port, reachable=True, plan={}, default={'act': 'reply', 'delay': 1}, **({'ping': True} if mux else {}))
      w.add_server(srv)
      srvs.append(srv)
      sinkcls = _S['tms'].SocketTransportSink if mux else _S['ts'].SocketTransportSink
      sk = sinkcls.Builder().CreateSink({_S['SinkProperties'].Endpoint: _S['Endpoint']('h', port), _S['SinkProperties'].Label: 'svc'})

      def faulted(v, i=i):
        faults[i] += 1
      sk.on_faulted.Subscribe(faulted)
      sinks.append(sk)
    w.rand_hook = lambda kind, a, b: min(max(rng.randint(a, b), a), b)
    calls = []
    for op in case['ops']:
      k = op[0]
      if k == 'open':
        sinks[op[1]].Open()
        w.settle()
      elif k == 'req':
        i, c = op[1], op[2]
        msg = _S['msgm'].MethodCallMessage(Hello.Iface, 'hi', (str(c),), {})
        st = _S['sk'].ClientMessageSinkStack()
        st.Push(_S['Term'](c))
        buf = io.BytesIO()
        headers = {}
        if mux:
          _S['mser'].Marshal(msg, buf, headers)
        else:
          _S['tser'].SerializeThriftCall(msg, buf)
        calls.append([c, i])
        try:
          sinks[i].AsyncProcessRequest(st, msg, buf, headers)
        except Exception as e:
          ev.append(['raise', c, type(e).__name__])
        w.settle()
      elif k == 'adv':
        w.advance(op[1] * V.TICK)
      elif k == 'close':
        sinks[op[1]].Close()
        w.settle()
      elif k == 'peer':
        for cn in srvs[op[1]].conns:
          if not cn.closed_by_client and not cn.closed_by_peer:
            if op[2] == 'close':
              cn.close()
            else:
              cn.reset()
        w.settle()
    w.advance(2 * V.TICK)
    return {'ev': [e for e in ev if e[0] in ('post', 'raise')], 'calls': calls, 'faults': faults,
            'states': [_state_name(x) for x in sinks], 'requests': [[str(r['arg']) for r in s_.requests] for s_ in srvs],
            'crashes': w.crashes}
  finally:
    _LOG[0] = None
    try:
      w.close()
    except Exception:
      pass
