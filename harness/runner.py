"""Generic check driver: proof + correspondence + monitor + verdict (DESIGN.md section 7)."""
from __future__ import annotations

import argparse
import collections
import glob
import importlib
import json
import multiprocessing
import os
import signal
import sys
import time
import traceback

from . import common as C


def _load(pid):
  return importlib.import_module('harness.props.%s' % pid.lower())


class CaseTimeout(BaseException):
  pass


_TIMEOUTS = [0]


def _safe_impl(mod, case):
  # watchdog: a changed implementation may spin or block for ever (e.g. a blocking sleep in a retry loop); a case that
  # does not finish within the limit is reported as such instead of stalling the whole check
  limit = int(os.environ.get('VERIF_CASE_TIMEOUT', '') or getattr(mod, 'CASE_TIMEOUT', 150))
  if _TIMEOUTS[0] >= 3:
    # three cases already ran into the watchdog in this process: do not spend the limit again on every remaining case
    return {'harness_exc': 'CaseTimeout: not run, %d earlier cases did not terminate within %d s' % (_TIMEOUTS[0], limit)}

  try:
    import greenlet as _greenlet
    main_g = _greenlet.getcurrent()
  except Exception:
    _greenlet = None
    main_g = None

  def on_alarm(_sig, _frm):
    exc = CaseTimeout('implementation did not terminate within %d s of wall time' % limit)
    # the handler runs in whichever greenlet is executing; a livelock inside hub callbacks or another greenlet would
    # swallow an exception raised there, so deliver it to the greenlet that is running the case
    if _greenlet is not None and main_g is not None and _greenlet.getcurrent() is not main_g and not main_g.dead:
      signal.alarm(max(5, limit // 10))      # should that fail to end the case, ring again
      main_g.throw(exc)
      return
    raise exc
  old = None
  try:
    old = signal.signal(signal.SIGALRM, on_alarm)
    signal.alarm(limit)
  except Exception:
    old = None
  t_start = time.time()
  try:
    return mod.run_impl(case)
  except BaseException as e:  # the driver itself failed: reported as an observation
    if isinstance(e, CaseTimeout):
      _TIMEOUTS[0] += 1
    return {'harness_exc': '%s: %s' % (type(e).__name__, e), 'tb': traceback.format_exc()[-1500:]}
  finally:
    if os.environ.get('VERIF_TIMING') and time.time() - t_start > 2.0:
      with open(os.path.join(C.BUILD, 'slow_cases.txt'), 'a') as f:
        f.write('%s %.1f\n' % (getattr(mod, 'PID', '?'), time.time() - t_start))
    try:
      signal.alarm(0)
      if old is not None:
        signal.signal(signal.SIGALRM, old)
    except Exception:
      pass


def _safe_monitor(mod, case, obs):
  try:
    if isinstance(obs, dict) and 'harness_exc' in obs:
      if str(obs['harness_exc']).startswith('CaseTimeout'):
        return [('implementation-did-not-terminate', obs['harness_exc'])]
      return [('harness-exception', obs['harness_exc'])]
    return list(mod.monitor(case, obs) or [])
  except BaseException as e:
    return [('monitor-exception', '%s: %s' % (type(e).__name__, e))]


def _worker(args):
  pid, chunk = args
  mod = _load(pid)
  if hasattr(mod, 'setup'):
    mod.setup()
  out = []
  for case in chunk:
    obs = _safe_impl(mod, case)
    out.append((obs, _safe_monitor(mod, case, obs)))
  return out


def run_cases(mod, cases):
  """Runs the implementation + monitor on all cases, possibly in worker processes."""
  workers = getattr(mod, 'WORKERS', 1)
  if workers <= 1 or len(cases) < 4 * workers:
    if hasattr(mod, 'setup'):
      mod.setup()
    res = []
    for c in cases:
      o = _safe_impl(mod, c)
      res.append((o, _safe_monitor(mod, c, o)))
    return res
  n = len(cases)
  per = max(1, (n + workers * 4 - 1) // (workers * 4))
  chunks = [cases[i:i + per] for i in range(0, n, per)]
  ctx = multiprocessing.get_context('fork')
  parts = [None] * len(chunks)
  try:
    from concurrent.futures import ProcessPoolExecutor
    with ProcessPoolExecutor(max_workers=workers, mp_context=ctx) as ex:
      futs = [ex.submit(_worker, (mod.PID, ch)) for ch in chunks]
      for k, f in enumerate(futs):
        try:
          parts[k] = f.result()
        except BaseException:      # a worker was killed from outside (e.g. out of memory): that chunk is redone below
          parts[k] = None
  except BaseException:
    pass
  redo = [k for k, p in enumerate(parts) if p is None]
  if redo:
    if hasattr(mod, 'setup'):
      mod.setup()
    for k in redo:
      out = []
      for c in chunks[k]:
        o = _safe_impl(mod, c)
        out.append((o, _safe_monitor(mod, c, o)))
      parts[k] = out
  return [x for p in parts for x in p]


def ddmin(mod, case, signature, budget=300):
  """Greedy shrinking of case['ops'] (when present) preserving a monitor violation `signature`."""
  if not isinstance(case, dict) or not isinstance(case.get('ops'), list):
    return case

  def fails(c):
    o = _safe_impl(mod, c)
    return any(s == signature for s, _ in _safe_monitor(mod, c, o))

  cur = dict(case)
  ops = list(cur['ops'])
  n = 2
  tries = 0
  while len(ops) >= 2 and tries < budget:
    size = max(1, len(ops) // n)
    reduced = False
    for i in range(0, len(ops), size):
      cand = ops[:i] + ops[i + size:]
      tries += 1
      c2 = dict(cur)
      c2['ops'] = cand
      if cand and fails(c2):
        ops = cand
        n = max(n - 1, 2)
        reduced = True
        break
      if tries >= budget:
        break
    if not reduced:
      if size == 1:
        break
      n = min(len(ops), n * 2)
  cur['ops'] = ops
  return cur


def load_corpus(pid):
  out = []
  for p in sorted(glob.glob(os.path.join(C.CORPUS, pid, '*.json'))):
    try:
      d = json.load(open(p))
    except Exception:
      continue
    cs = d if isinstance(d, list) else [d]
    for c in cs:
      c = c.get('case', c) if isinstance(c, dict) else c
      if isinstance(c, dict):
        c.setdefault('origin', 'corpus:' + os.path.basename(p))
      out.append(c)
  return out


def main(argv=None):
  ap = argparse.ArgumentParser()
  ap.add_argument('pid')
  ap.add_argument('--tier', default=os.environ.get('VERIF_TIER', 'quick'), choices=['quick', 'thorough'])
  ap.add_argument('--replay', default=None)
  ap.add_argument('--no-proof', action='store_true', help='debugging only: skip the proof step')
  args = ap.parse_args(argv)
  pid = args.pid.upper()
  seed = int(os.environ.get('VERIF_SEED', '0') or 0)
  tier = args.tier
  t0 = time.time()
  os.environ.setdefault('PYTHONHASHSEED', '0')
  sys.path.insert(0, C.REPO)
  mod = _load(pid)
  C.ensure_dirs()

  if args.replay:
    return replay(mod, pid, args.replay)

  # ---- 1. proof ------------------------------------------------------------------------------
  if args.no_proof:
    proof = dict(ok=True, broken=None, theorems=[], assumptions={}, obligations=0, discharged=0, files=[], log='',
                 checker_cmd='skipped')
  else:
    proof = C.prove(mod.PROPS_FILE)
    if proof['ok'] and tier == 'thorough' and getattr(mod, 'COQCHK', True):
      rc, out = C.coqchk(mod.PROPS_FILE)
      proof['coqchk'] = out[-3000:]
      if rc != 0:
        proof['ok'] = False
        proof['broken'] = 'coqchk rejected %s' % mod.PROPS_FILE
  broken = []
  if not proof['ok']:
    broken.append('proof: ' + str(proof['broken']))

  # ---- 2. implementation runs + monitors ------------------------------------------------------
  corpus = load_corpus(pid)
  gen = list(mod.gen_cases(tier, seed))
  # anchored source files that differ from the fingerprints recorded when model and code were last reconciled: the
  # quick tier then samples three seeds' worth of generated cases instead of one (a changed file is where a broken
  # property or a stale model is most likely, and the correspondence is only as good as its sample)
  drift = C.source_drift(pid)
  escalated = 0
  if drift and tier == 'quick' and not os.environ.get('VERIF_NO_ESCALATE'):
    seen = set(C.canon(c) for c in gen)
    for k in (1, 2):
      for c in mod.gen_cases(tier, seed + k):
        key = C.canon(c)
        if key not in seen:
          seen.add(key)
          gen.append(c)
          escalated += 1
  cases = corpus + gen
  results = run_cases(mod, cases)
  obs = [r[0] for r in results]
  mon = [r[1] for r in results]

  # ---- 3. correspondence (model evaluated inside Coq on the same cases) -----------------------
  terms = []
  term_idx = []
  skipped = 0
  for i, (c, o) in enumerate(zip(cases, obs)):
    if isinstance(o, dict) and 'harness_exc' in o:
      skipped += 1
      continue
    try:
      t = mod.to_coq(c, o)
    except Exception as e:
      t = None
      mon[i] = mon[i] + [('to-coq-exception', '%s: %s' % (type(e).__name__, e))]
    if t is None:
      skipped += 1
      continue
    # a case may translate into several model cases (e.g. one per message of a sequence)
    for tt in (t if isinstance(t, (list, tuple)) else [t]):
      terms.append(tt)
      term_idx.append(i)
  diverging = []
  details = {}
  coq_err = None
  if terms:
    failing, det, coq_err = C.coq_eval(pid, mod.COQ_HEADER, mod.COQ_CASE_TYPE, mod.COQ_CHECK, terms,
                                       shard=getattr(mod, 'SHARD', 300),
                                       explain_fn=getattr(mod, 'COQ_EXPLAIN', None))
    diverging = sorted(set(term_idx[k] for k in failing))
    details = {term_idx[k]: v for k, v in det.items()}
  if coq_err:
    broken.append('correspondence: model evaluation failed: ' + coq_err[:600])
  if diverging:
    broken.append('correspondence %s: model and implementation differ on %d case(s), first #%d' %
                  (mod.COQ_CHECK, len(diverging), diverging[0]))

  if os.environ.get('VERIF_DEBUG') and (diverging or coq_err):
    with open(os.path.join(C.BUILD, 'debug_%s.json' % pid), 'w') as f:
      json.dump({'coq_err': coq_err, 'diverging': [{'index': i, 'case': cases[i], 'obs': obs[i], 'model': details.get(i),
                                                      'term': str(terms[term_idx.index(i)])[:20000]} for i in diverging[:10]]}, f, indent=1, default=repr)

  # ---- 4. verdict ----------------------------------------------------------------------------
  viol = [(i, s, m) for i, ms in enumerate(mon) for (s, m) in ms]
  # search harder when something broke but no monitor fired
  searched = 0
  if broken and not viol and hasattr(mod, 'search_cases'):
    extra = list(mod.search_cases(tier, seed, [cases[i] for i in diverging[:20]]))
    res2 = run_cases(mod, extra)
    searched = len(extra)
    base = len(cases)
    for j, (c, (o, ms)) in enumerate(zip(extra, res2)):
      cases.append(c)
      obs.append(o)
      mon.append(ms)
      for (s, m) in ms:
        viol.append((base + j, s, m))

  out_lines = []
  exit_code = 0
  unlisted = 0
  seen_known = set()
  reported = set()
  for (i, s, m) in viol:
    k = C.known_match(pid, s)
    if k is not None:
      if s not in seen_known:
        seen_known.add(s)
        out_lines.append('KNOWN-FINDING: property=%s %s' % (pid, k.get('what', s)))
      continue
    unlisted += 1
    if s in reported:
      continue
    reported.add(s)
    small = ddmin(mod, cases[i], s) if getattr(mod, 'SHRINK', True) else cases[i]
    o2 = _safe_impl(mod, small)
    p = C.write_replay(pid, seed, dict(property=pid, kind='monitor-violation', signature=s, message=m,
                                       case=small, impl_observation=o2, original_case=cases[i],
                                       broken=broken, note='replay with ./check %s --replay <this file>' % pid))
    out_lines.append('VIOLATION property=%s replay=%s' % (pid, p))
    exit_code = 1
  if broken and not unlisted:
    # a listed finding may explain a divergence only if every diverging case carries a listed signature
    explained = bool(diverging) and not coq_err and proof['ok'] and all(
        any(C.known_match(pid, s) for (s, _m) in mon[i]) for i in diverging)
    if not explained:
      first = diverging[0] if diverging else None
      p = C.write_replay(pid, seed, dict(
          property=pid, kind='proof-or-correspondence-broken', broken=broken,
          theorem_or_correspondence=broken[0],
          case=cases[first] if first is not None else None,
          impl_observation=obs[first] if first is not None else None,
          model_explanation=details.get(first) if first is not None else None,
          proof_log=proof.get('log', '')[-3000:], searched_extra_cases=searched,
          note='no input violating the property was found on the implementation by the monitors'))
      out_lines.append('VIOLATION property=%s replay=%s no-failing-input-found' % (pid, p))
      exit_code = 1

  # ---- 5. evidence ---------------------------------------------------------------------------
  kinds = collections.Counter()
  distinct = set()
  for c, o in zip(cases, obs):
    kinds[(c.get('kind') if isinstance(c, dict) else None) or 'case'] += 1
    try:
      nt = mod.nontrivial(c, o)
    except Exception:
      nt = False
    if nt:
      distinct.add(C.canon([c, o]))
  samples = []
  step = max(1, len(cases) // 4)
  for i in range(0, len(cases), step):
    try:
      samples.append(mod.describe(cases[i], obs[i]) if hasattr(mod, 'describe') else {'case': cases[i], 'obs': obs[i]})
    except Exception:
      pass
    if len(samples) >= 4:
      break
  stats = {}
  if hasattr(mod, 'stats'):
    try:
      stats = mod.stats(cases, obs)
    except Exception as e:
      stats = {'stats_error': repr(e)}
  coverage = dict(
      obligations=max(proof['obligations'], 1), discharged=proof['discharged'],
      checker_cmd=proof['checker_cmd'] or 'none',
      trusted_base=C.BASE_TRUSTED + list(getattr(mod, 'TRUSTED', [])),
      theorems=proof['theorems'], print_assumptions=proof['assumptions'], coq_files=proof['files'],
      evaluations=len(cases), distinct_nontrivial=len(distinct),
      rule=getattr(mod, 'RULE', ''), samples=samples or [{'note': 'no cases'}],
      traces_validated_against_impl=len(terms), cases_not_sent_to_model=skipped,
      corpus_cases=len(corpus), case_kinds=dict(kinds), diverging_cases=len(diverging),
      monitor_violations=len(viol), searched_extra_cases=searched, broken=broken,
      anchored_sources_changed=drift, extra_cases_because_sources_changed=escalated, **stats)
  if 'coqchk' in proof:
    coverage['coqchk'] = proof['coqchk']
  if not proof['ok']:
    coverage['explanation'] = 'the proof step did not succeed in this run (%s); counts below are from the correspondence/monitor part only' % (proof.get('broken'),)
  C.write_evidence(pid, tier, seed, 'proof' if proof['ok'] else 'other', coverage, list(getattr(mod, 'ASSUMPTIONS', [])),
                   time.time() - t0, unlisted + (1 if (broken and exit_code) else 0), scratch=args.no_proof)
  for l in out_lines:
    print(l)
  print('%s tier=%s seed=%s proof=%s theorems=%d cases=%d model-compared=%d diverging=%d monitor-violations=%d wall=%.1fs' %
        (pid, tier, seed, 'ok' if proof['ok'] else 'BROKEN', len(proof['theorems']), len(cases), len(terms),
         len(diverging), len(viol), time.time() - t0))
  if drift:
    print('  note: anchored source changed since the model was last reconciled (%s); sampled %d extra cases' % (', '.join(drift), escalated))
  if broken:
    for b in broken:
      print('  broken: ' + b[:400])
  return exit_code


def replay(mod, pid, path):
  d = json.load(open(path))
  case = d.get('case')
  if case is None:
    print('replay file names a broken theorem/correspondence and carries no case:')
    print(json.dumps(d.get('broken'), indent=1))
    proof = C.prove(mod.PROPS_FILE)
    print('proof now: %s %s' % ('ok' if proof['ok'] else 'BROKEN', proof['broken'] or ''))
    return 0 if proof['ok'] else 1
  if hasattr(mod, 'setup'):
    mod.setup()
  o = _safe_impl(mod, case)
  ms = _safe_monitor(mod, case, o)
  print('case:', json.dumps(case, default=repr)[:3000])
  print('implementation observation:', json.dumps(o, default=repr)[:3000])
  print('monitor:', ms)
  rc = 0
  t = None
  try:
    t = mod.to_coq(case, o)
  except Exception as e:
    print('to_coq failed:', e)
  if t is not None:
    failing, det, err = C.coq_eval(pid, mod.COQ_HEADER, mod.COQ_CASE_TYPE, mod.COQ_CHECK, list(t) if isinstance(t, (list, tuple)) else [t],
                                   explain_fn=getattr(mod, 'COQ_EXPLAIN', None))
    print('model agrees with implementation:', not failing and not err)
    if det:
      print('model explanation:', det)
    if err:
      print('coq error:', err)
    if failing or err:
      rc = 1
  if ms:
    rc = 1
    for s, m in ms:
      if not C.known_match(pid, s):
        print('VIOLATION property=%s replay=%s' % (pid, path))
        break
  return rc


if __name__ == '__main__':
  sys.exit(main())
