"""C09 scenario runner: full Thrift / ThriftMux client stacks over endpoints with outage schedules.

Built on the shared simulation world (harness/vworld.py), the scripted peers (harness/peers.py) and the pieces of
harness/scenario.py (DynServerSet, ticks, outcome_kind).  What is added here:

* endpoints that go *down* and *up* at driver-chosen ticks: while down every connect is refused; at the
  down transition the live connections are reset / closed (EOF) / left silently dead ('silent': requests are
  swallowed, the client finds out by a timeout or a failed ping),
* instance-level tracing of every ResurrectorSink at its two interfaces: what the balancer calls on it
  (Open / AsyncProcessRequest / Close), what the underlying sink tells it (fault notification) and what it calls
  on the underlying sink factory and sink (CreateSink, Open, the moment Open().get() returns or raises, Close,
  AsyncProcessRequest).  All records go into the world's single ordered log together with the network events.
* configurable back-off (initial / max / exponent).

A case is {'kind':, 'config': {...}, 'ops': [{'at': tick, 'op': 'call'|'down'|'up'|'close', ...}]} (a call may carry
'close_on_error': its caller closes the client the moment the call completes with an error) (ticks of
1/64 s since T0; `ops` is what the runner's shrinker removes elements from).
"""
import random
import socket as _socket

import gevent

from . import vworld as V
from . import peers as P
from . import scenario as S
from .ifaces.hello import Hello

T0 = S.T0
UNIT = 1 << 52          # time unit of the Coq side: 2**-52 s (every double >= 1 is a whole number of units)


def units(t):
  """A double (seconds) as an exact integer number of 2**-52 s."""
  n, d = float(t).as_integer_ratio()
  q, r = divmod(n * UNIT, d)
  if r:
    raise ValueError('time %r is not a multiple of 2**-52' % (t,))
  return q


# ------------------------------------------------------------------------------------------------
# endpoints with outages
# ------------------------------------------------------------------------------------------------
class _OutageMixin(object):
  def c09_init(self, up, hole=0):
    self.up = up
    self.silent = False
    self.hole = hole          # > 0: while down, a connect is not refused at once but times out after `hole` ticks
    self.reachable = self._reach

  def _reach(self, now):
    if self.up:
      return True
    if self.hole:
      w = V.W()
      # the attempt starts now; vworld logs the 'connect' entry (with this start time) only when it has ended
      w.log.append((w.clock.now, 'connect-begin', self.port))
      V.vsleep(self.hole * V.TICK)
      return _socket.timeout('timed out')
    return False

  def _live(self):
    return [c for c in self.conns if not c.closed_by_client and not c.closed_by_peer]

  def go_down(self, mode, hole=0):
    w = V.W()
    self.up = False
    self.hole = hole
    self.silent = (mode == 'silent')
    for c in self._live():
      if mode == 'reset':
        w.log.append((w.clock.now, 'peer-reset', self.port, c.cid))
        c.reset()
      elif mode == 'close':
        w.log.append((w.clock.now, 'peer-close', self.port, c.cid))
        c.close()
      else:
        w.log.append((w.clock.now, 'peer-silent', self.port, c.cid))
        c.c09_dead = True

  def go_up(self):
    self.up = True
    self.hole = 0
    self.silent = False

  def on_connect(self, conn):
    w = V.W()
    w.log.append((w.clock.now, 'established', self.port, conn.cid))
    if not self.up:
      # the endpoint went away while the connection was being established
      w.log.append((w.clock.now, 'peer-reset', self.port, conn.cid))
      conn.reset()

  def on_data(self, conn):
    if getattr(conn, 'c09_dead', False):
      conn.rx = b''
      return
    return super(_OutageMixin, self).on_data(conn)


class OutageThriftServer(_OutageMixin, P.ThriftServer):
  pass


class OutageMuxServer(_OutageMixin, P.MuxServer):
  pass


# ------------------------------------------------------------------------------------------------
# tracing of the resurrector's two interfaces
# ------------------------------------------------------------------------------------------------
_HOOKS = {}


def _rec(*ev):
  w = V._CUR[0]
  if w is not None and hasattr(w, 'c09'):
    w.log.append((w.clock.now,) + ev)


def _callid(msg):
  try:
    return msg.args[0].split('|')[0]
  except Exception:
    return None


class _ARProxy(object):
  """The AsyncResult returned by the underlying sink's Open(): records the moment get() returns/raises."""

  def __init__(self, ar, inst, sid):
    self._ar = ar
    self._inst = inst
    self._sid = sid

  def get(self, *a, **kw):
    try:
      v = self._ar.get(*a, **kw)
    except gevent.GreenletExit:
      _rec('u-open-get', self._inst, self._sid, 'killed')
      raise
    except BaseException as e:
      _rec('u-open-get', self._inst, self._sid, 'raise', type(e).__name__)
      raise
    _rec('u-open-get', self._inst, self._sid, 'ok')
    return v

  def __getattr__(self, k):
    return getattr(self._ar, k)


class _SinkProxy(object):
  """Stands between a ResurrectorSink and the sink it created: forwards everything, records the calls."""

  def __init__(self, sink, inst, sid):
    self.__dict__['_sink'] = sink
    self.__dict__['_inst'] = inst
    self.__dict__['_sid'] = sid

  def Open(self):
    _rec('u-open', self._inst, self._sid)
    ar = self._sink.Open()
    return _ARProxy(ar, self._inst, self._sid)

  def Close(self):
    _rec('u-close', self._inst, self._sid)
    return self._sink.Close()

  def AsyncProcessRequest(self, sink_stack, msg, stream, headers):
    _rec('u-req', self._inst, self._sid, _callid(msg))
    return self._sink.AsyncProcessRequest(sink_stack, msg, stream, headers)

  def __getattr__(self, k):
    return getattr(self._sink, k)

  def __setattr__(self, k, v):
    setattr(self._sink, k, v)


class _FactoryProxy(object):
  def __init__(self, factory, inst):
    self._factory = factory
    self._inst = inst
    self._n = 0

  def CreateSink(self, properties):
    self._n += 1
    sid = self._n
    _rec('u-create', self._inst, sid)
    return _SinkProxy(self._factory.CreateSink(properties), self._inst, sid)

  def __getattr__(self, k):
    return getattr(self._factory, k)


def install_hooks():
  if _HOOKS:
    return
  import scales.resurrector as R
  RS = R.ResurrectorSink
  o_init, o_req, o_fault, o_open, o_close = RS.__init__, RS.AsyncProcessRequest, RS._OnSinkFaulted, RS.Open, RS.Close

  def init(self, next_factory, sink_properties, global_properties):
    w = V._CUR[0]
    if w is not None and hasattr(w, 'c09'):
      w.c09['n'] += 1
      inst = w.c09['n']
      o_init(self, _FactoryProxy(next_factory, inst), sink_properties, global_properties)
      self._c09_inst = inst
      w.c09['insts'][inst] = self
      from scales.constants import SinkProperties
      _rec('rs-new', inst, global_properties[SinkProperties.Endpoint].port)
    else:
      o_init(self, next_factory, sink_properties, global_properties)

  def req(self, sink_stack, msg, stream, headers):
    _rec('rs-req', getattr(self, '_c09_inst', 0), _callid(msg))
    return o_req(self, sink_stack, msg, stream, headers)

  def state_of(self):
    try:
      return _state_name(self.state)
    except Exception as e:
      return 'exc:' + type(e).__name__

  def fault(self, val):
    _rec('rs-fault', getattr(self, '_c09_inst', 0), type(val).__name__)
    try:
      return o_fault(self, val)
    finally:
      _rec('rs-state', getattr(self, '_c09_inst', 0), state_of(self))

  def open_(self):
    _rec('rs-open', getattr(self, '_c09_inst', 0))
    try:
      return o_open(self)
    finally:
      _rec('rs-state', getattr(self, '_c09_inst', 0), state_of(self))

  def close(self):
    _rec('rs-close', getattr(self, '_c09_inst', 0))
    try:
      return o_close(self)
    finally:
      _rec('rs-state', getattr(self, '_c09_inst', 0), state_of(self))

  RS.__init__, RS.AsyncProcessRequest, RS._OnSinkFaulted, RS.Open, RS.Close = init, req, fault, open_, close
  _HOOKS['ok'] = True


# ------------------------------------------------------------------------------------------------
# the runner
# ------------------------------------------------------------------------------------------------
def _state_name(st):
  return {1: 'Idle', 2: 'Open', 3: 'Busy', 4: 'Closed'}.get(st, str(st))


def run(case):
  cfg = case['config']
  rng = random.Random(cfg.get('seed', 0))
  w = V.World(rng, t0=cfg.get('t0', T0), tie=cfg.get('tie', 'fifo'), resolution=cfg.get('resolution', 1) * V.TICK)
  w.c09 = {'n': 0, 'insts': {}}
  install_hooks()
  try:
    return _run(case, cfg, w)
  finally:
    w.close()


def _run(case, cfg, w):
  from scales.core import ScalesUriParser
  from scales.loadbalancer.zookeeper import Endpoint
  from scales.resurrector import ResurrectorSink
  stack = cfg['stack']
  t0 = cfg.get('t0', T0)
  servers, members = {}, {}
  for ep in cfg['endpoints']:
    default = {'act': 'reply', 'delay': ep.get('reply_delay', 0)}
    if ep.get('chunks') and stack == 'thrift':
      default['chunks'] = ep['chunks']
    if stack == 'thrift':
      srv = OutageThriftServer(ep['port'], plan=None, default=default)
    else:
      srv = OutageMuxServer(ep['port'], plan=None, default=default, ping=True)
    srv.c09_init(ep.get('init', 'up') == 'up', ep.get('init_hole', 0))
    srv.connect_delay = ep.get('connect_delay', 0)
    w.add_server(srv)
    servers[ep['port']] = srv
    members[ep['port']] = ScalesUriParser.Server(Endpoint('h', ep['port']))
  provider = S.DynServerSet([members[ep['port']] for ep in cfg['endpoints'] if ep.get('member', True)])
  timeout_s = cfg.get('timeout', 64) * V.TICK
  if stack == 'thrift':
    from scales.thrift.builder import Thrift
    from scales.pool import WatermarkPoolSink
    b = Thrift.NewBuilder(Hello.Iface)
    if 'pool' in cfg:
      pl = cfg['pool']
      b.ReplaceSink(type(WatermarkPoolSink.Builder()), WatermarkPoolSink.Builder(
          min_watermark=pl.get('min', 1), max_watermark=pl.get('max', 2 ** 31 - 1), max_queue_len=pl.get('maxq', 2 ** 31 - 1)))
  else:
    from scales.thriftmux.builder import ThriftMux
    b = ThriftMux.NewBuilder(Hello.Iface, client_id='cid')
  rs = cfg.get('resurrector', {})
  kw = {'initial_wait_interval': rs.get('initial', 5), 'max_wait_interval': rs.get('max', 60)}
  if 'exponent' in rs:
    kw['backoff_exponent'] = rs['exponent']
  b.ReplaceSink(type(ResurrectorSink.Builder()), ResurrectorSink.Builder(**kw))
  b.SetUri('tcp://h:%d' % cfg['endpoints'][0]['port'])
  b.SetServerSetProvider(provider)
  b.SetTimeout(timeout_s)
  b.SetOpenTimeout(None)

  calls = {}
  built = {}

  def tk(t):
    """virtual time -> ticks since the start of the case (exact when the time is a whole tick)"""
    x = (t - t0) / V.TICK
    r = round(x)
    return r if abs(x - r) < 1e-9 else x

  def build():
    built['c'] = b.Build()
  g = gevent.spawn(build)
  w.greenlets.append(g)
  w.settle()
  w.run_until(lambda: 'c' in built or g.dead, t0 + 64 * V.TICK)
  trace = {'calls': calls, 'built_at': tk(w.clock.now) if 'c' in built else None}
  client = built.get('c')
  w.log.append((w.clock.now, 'client-built', client is not None))
  closed = [False]

  def do_close(who):
    if client is not None and not closed[0]:
      closed[0] = True
      w.log.append((w.clock.now, 'client-close', who))
      client.DispatcherClose()
      trace['closed_at'] = tk(w.clock.now)

  def issue(cid, e, depth=0):
    rec = {'id': cid, 'issued': tk(w.clock.now), 'done': []}
    calls[cid] = rec
    w.log.append((w.clock.now, 'call', cid, depth))
    if client is None:
      rec['issue_error'] = 'no client'
      return
    try:
      ar = client.hi_async(cid + '|')
    except Exception as ex:
      rec['issue_error'] = type(ex).__name__
      return

    def on_done(a, rec=rec):
      k, v = S.outcome_kind(a)
      rec['done'].append({'at': tk(w.clock.now), 'kind': k, 'value': v})
      w.log.append((w.clock.now, 'call-done', rec['id'], k))
    ar.rawlink(on_done)
    if e.get('close_on_error') or e.get('redispatch'):
      # an application reacting to a failed call the moment its caller wakes up - i.e. possibly *between* a fault being
      # raised below and its delivery to the sinks above (fault notifications travel in their own greenlets):
      # it gives up on the client (close_on_error) or calls again at once, up to `redispatch` times in a row
      def caller(ar=ar, rec=rec):
        ar.wait()
        if ar.successful() or closed[0]:
          return
        if e.get('redispatch', 0) > depth:
          issue('%sr%d' % (e['id'], depth + 1), e, depth + 1)
        elif e.get('close_on_error'):
          do_close('caller of %s' % rec['id'])
      w.greenlets.append(gevent.spawn(caller))

  def do_op(e):
    op = e['op']
    if op == 'call':
      issue(e['id'], e)
    elif op == 'down':
      w.log.append((w.clock.now, 'ep-down', e['port'], e.get('mode', 'reset')))
      servers[e['port']].go_down(e.get('mode', 'reset'), e.get('hole', 0))
    elif op == 'up':
      w.log.append((w.clock.now, 'ep-up', e['port']))
      servers[e['port']].go_up()
    elif op == 'close':
      do_close('driver')
    elif op == 'leave':
      w.log.append((w.clock.now, 'ss-leave', e['port']))
      provider.leave(members[e['port']])
    elif op == 'join':
      w.log.append((w.clock.now, 'ss-join', e['port']))
      provider.join(members[e['port']])

  # ops are executed in list order (stable by tick).  An op flagged 'timer' is not run by the driver after the world has
  # settled at its tick but as a timer of the virtual clock registered now, i.e. before every timer the client creates
  # later: with tie='fifo' it runs before, with tie='lifo' after, the client's own timers due at the same instant
  # (a retry's wake-up exactly at that tick).
  for e in case['ops']:
    if e.get('timer'):
      w.clock.call_at(t0 + e['at'] * V.TICK, lambda e=e: do_op(e))
  for e in sorted([e for e in case['ops'] if not e.get('timer')], key=lambda e: e['at']):
    w.advance_to(max(w.clock.now, t0 + e['at'] * V.TICK))
    do_op(e)
    w.settle()
  w.advance_to(max(w.clock.now, t0 + cfg.get('horizon', 640) * V.TICK))
  w.log.append((w.clock.now, 'horizon'))

  trace['now'] = tk(w.clock.now)
  trace['servers'] = {}
  for port, srv in servers.items():
    trace['servers'][str(port)] = {
        'requests': [{'at': tk(r['time']), 'conn': r['conn'], 'id': r['arg'].split('|')[0]} for r in srv.requests],
        'malformed': [str(m) for m in srv.malformed]}
  trace['crashes'] = list(w.crashes)
  # the single ordered log: [ticks (float), exact time in 2**-52 s, kind, args...]
  trace['log'] = [[tk(x[0]), units(x[0]), x[1]] + [y if isinstance(y, (int, bool, type(None))) else str(y) for y in x[2:]]
                  for x in w.log]
  if client is not None and not closed[0]:
    try:
      client.DispatcherClose()
    except Exception:
      pass
  return trace
