import sys, random
sys.path.insert(0, '/repo')
import gevent
from scales.constants import SinkProperties, ChannelState
from scales.loadbalancer.zookeeper import Endpoint
from scales.pool.singleton import SingletonPoolSink
from scales.sink import RefCountedSink, SharedSinkProvider
from scales.message import Message
from test.scales.util.mocks import MockSinkProvider, MockSinkStack, MockSink

def live(prov):
  # created and not closed-by-state
  return [s for s in prov.sinks_created if s.state != ChannelState.Closed]
def run(seed):
  rnd = random.Random(seed)
  prov = MockSinkProvider()
  props = {SinkProperties.Label:'m', SinkProperties.Endpoint: Endpoint('h',1), 'open_delay': rnd.choice([0, 0.001])}
  pool = SingletonPoolSink(prov, None, props)
  seen = []
  prov.ProcessRequest = lambda ss, msg, stream, headers: seen.append(1)
  for step in range(40):
    r = rnd.random()
    if r < 0.5:
      st = MockSinkStack(); st.Push(MockSink({SinkProperties.Endpoint: None}))
      gevent.spawn(pool.AsyncProcessRequest, st, Message(), None, None)
    elif r < 0.65 and prov.sinks_created:
      prov.sinks_created[-1].Fault()
    elif r < 0.8:
      pool.Open()
    elif r < 0.9:
      pool.Close()
    if rnd.random() < 0.5: gevent.sleep(rnd.choice([0, 0.002]))
    l = live(prov)
    if len(l) > 1: return ('two live connections', seed, step, len(prov.sinks_created))
  return None
for seed in range(400):
  try:
    r = run(seed)
  except Exception as e:
    print('EXC', seed, type(e).__name__, e); break
  if r: print('PROBLEM', r); break
else: print('singleton ok')

# RefCountedSink
class Under(MockSink):
  opens = 0; closes = 0
  def Open(self): Under.opens += 1; return super(Under, self).Open()
  def Close(self): Under.closes += 1; super(Under, self).Close()
for seed in range(300):
  rnd = random.Random(seed); Under.opens = Under.closes = 0
  u = Under({SinkProperties.Endpoint: None}); rc = RefCountedSink(u); cnt = 0
  for step in range(30):
    if rnd.random() < 0.5: rc.Open(); cnt += 1
    else:
      rc.Close(); cnt = max(0, cnt - 1)
    assert Under.closes <= Under.opens <= Under.closes + 1, (seed, step)
    assert (cnt > 0) == (Under.opens == Under.closes + 1), (seed, step, cnt, Under.opens, Under.closes)
print('refcount ok')
