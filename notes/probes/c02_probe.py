import sys, heapq, itertools
sys.path.insert(0, '/repo'); sys.path.insert(0, '/repo/test/scales/thrift/gen_py')
import gevent, gevent.event, gevent.hub
from gevent.event import Event as REvent

class VClock(object):
  def __init__(self, t0=1024.0):
    self.now = t0; self.timers = []; self.seq = itertools.count()
  def time(self): return self.now
  def call_at(self, t, fn):
    ent = [t, next(self.seq), fn]; heapq.heappush(self.timers, ent); return ent
  def cancel(self, ent): ent[2] = None
  def settle(self):
    gevent.idle()
  def advance_to(self, t):
    self.settle()
    while self.timers and self.timers[0][0] <= t:
      at, _, fn = heapq.heappop(self.timers)
      if fn is None: continue
      self.now = max(self.now, at)
      fn(); self.settle()
    self.now = max(self.now, t)
    self.settle()
VC = VClock()

class VTimeout(gevent.Timeout):
  def __init__(self, seconds=None, exception=None):
    self.seconds = seconds; self.exception = exception; self._ent = None
  def start(self):
    g = gevent.getcurrent()
    def fire():
      self._ent = None
      if not g.dead: g.throw(self)
    if self.seconds is not None:
      self._ent = VC.call_at(VC.now + self.seconds, lambda: gevent.spawn(fire))
  @classmethod
  def start_new(cls, timeout=None, exception=None):
    t = cls(timeout, exception); t.start(); return t
  @property
  def pending(self): return self._ent is not None
  def cancel(self):
    if self._ent: VC.cancel(self._ent); self._ent = None
  def close(self): self.cancel()

def vsleep(seconds=0, ref=True):
  if seconds <= 0: return gevent.sleep(0)
  ev = REvent(); VC.call_at(VC.now + seconds, ev.set); ev.wait()

class VEvent(REvent):
  def wait(self, timeout=None):
    if timeout is None: return REvent.wait(self)
    if self.is_set(): return True
    woke = REvent()
    ent = VC.call_at(VC.now + timeout, woke.set)
    def onset(_): woke.set()
    self.rawlink(onset)
    woke.wait()
    self.unlink(onset); VC.cancel(ent)
    return self.is_set()

class GProxy(object):
  def __getattr__(self, k): return getattr(gevent, k)
GP = GProxy(); GP.sleep = vsleep; GP.Timeout = VTimeout
class TProxy(object):
  def __getattr__(self, k):
    import time; return getattr(time, k)
TP = TProxy(); TP.time = VC.time

import scales.timer_queue as tq
tq.time = TP; tq.gevent = GP; tq.Event = VEvent
import scales
mods = ['scales.sink','scales.dispatch','scales.thrift.sink','scales.mux.sink','scales.thriftmux.sink','scales.resurrector','scales.loadbalancer.base','scales.varz','scales.message','scales.pool.watermark','scales.observable','scales.asynchronous']
import importlib
for m in mods:
  mod = importlib.import_module(m)
  if hasattr(mod, 'time'): mod.time = TP
  if hasattr(mod, 'gevent'): mod.gevent = GP
  if hasattr(mod, 'Event'): mod.Event = VEvent
Q = tq.TimerQueue(time_source=VC.time, resolution=1/64.)
LRT = tq.LowResolutionTime.__new__(tq.LowResolutionTime); LRT._interval=1; LRT.now = VC.now
tq.GLOBAL_TIMER_QUEUE = Q
import scales.sink; scales.sink.GLOBAL_TIMER_QUEUE = Q
import random
from struct import pack, unpack
import scales.scales_socket as ss
from thrift.protocol.TBinaryProtocol import TBinaryProtocol
from thrift.transport.TTransport import TMemoryBuffer
from thrift.Thrift import TMessageType
from hello import Hello
RND = random.Random(int(sys.argv[1]) if len(sys.argv) > 1 else 0)
server_log = []
class Conn(object):
  """server side of one TCP connection: echo with delay"""
  def __init__(self, sock): self.sock = sock; self.buf = b''
  def feed(self, data):
    self.buf += data
    while len(self.buf) >= 4:
      n, = unpack('!i', self.buf[:4])
      if len(self.buf) < 4 + n: break
      body = self.buf[4:4+n]; self.buf = self.buf[4+n:]
      tb = TMemoryBuffer(body); p = TBinaryProtocol(tb)
      name, typ, seq = p.readMessageBegin(); a = Hello.hi_args(); a.read(p); p.readMessageEnd()
      server_log.append(a.test_data)
      ob = TMemoryBuffer(); op = TBinaryProtocol(ob)
      op.writeMessageBegin('hi', TMessageType.REPLY, seq); Hello.hi_result(success='echo:' + a.test_data).write(op); op.writeMessageEnd()
      payload = ob.getvalue(); frame = pack('!i', len(payload)) + payload
      delay = RND.choice([0, 0, 1/64., 0.25, 0.5, 0.75, 1.0, 1.25, 3.0])
      def deliver(frame=frame):
        if not self.sock.closed:
          # deliver in random chunks
          self.sock.rx += frame; self.sock.ev.set()
      if delay == 0: deliver()
      else: VC.call_at(VC.now + delay, deliver)
class FakeG(object):
  def __init__(self, fam, typ): self.rx = b''; self.ev = REvent(); self.closed = False; self.conn = None
  def connect(self, addr): self.conn = Conn(self)
  def sendall(self, b):
    if self.closed or self.conn is None: raise OSError(32, 'EPIPE')
    self.conn.feed(bytes(b))
  def recv_into(self, view, sz):
    while not self.rx:
      if self.closed: return 0
      self.ev.clear(); self.ev.wait()
    n = min(sz, len(self.rx), RND.choice([1, 3, 1000])); view[:n] = self.rx[:n]; self.rx = self.rx[n:]; return n
  def setsockopt(self, *a): pass
  def close(self): self.closed = True; self.ev.set()
ss.gsocket = FakeG
ss.ScalesSocket._resolveAddr = lambda self: [(2, 1, 6, '', (self.host, self.port))]
from scales.thrift.builder import Thrift
from scales.pool import WatermarkPoolSink
b = Thrift.NewBuilder(Hello.Iface)
b.ReplaceSink(type(WatermarkPoolSink.Builder()), WatermarkPoolSink.Builder(max_watermark=2, max_queue_len=50))
c = b.SetUri('tcp://h:1').SetTimeout(1.0).Build()
VC.settle()
results = {}
def issue(i):
  arg = 'arg%d' % i
  ar = c.hi_async(arg)
  ar.rawlink(lambda a, arg=arg: results.__setitem__(arg, ('ok', a.value) if a.successful() else ('err', type(a.exception).__name__ + ':' + type(getattr(a.exception,'inner_exception',None)).__name__)))
n = 0
for step in range(400):
  for _ in range(RND.choice([0, 0, 1, 1, 2, 3])):
    issue(n); n += 1
  VC.advance_to(VC.now + RND.choice([1/64., 1/8., 0.5]))
VC.advance_to(VC.now + 5)
bad = [(k, v) for k, v in results.items() if v[0] == 'ok' and v[1] != 'echo:' + k]
kinds = {}
for v in results.values(): kinds[v[0] if v[0]=='ok' else v[1]] = kinds.get(v[0] if v[0]=='ok' else v[1], 0) + 1
print('issued', n, 'completed', len(results), 'kinds', kinds, 'CROSSTALK', bad[:5], 'server saw', len(server_log))
