import sys, types
sys.path.insert(0, '/repo')
from io import BytesIO
from thrift.Thrift import TType, TMessageType, TApplicationException
from thrift.protocol.TBinaryProtocol import TBinaryProtocol, TBinaryProtocolAcceleratedFactory
from thrift.transport.TTransport import TMemoryBuffer
# hand-written generated-style module with a void method
mod = types.ModuleType('voidsvc'); sys.modules['voidsvc'] = mod
class Iface(object):
  def ping(self): pass
Iface.__module__ = 'voidsvc'
class ping_args(object):
  thrift_spec = ()
  def write(self, oprot):
    oprot.writeStructBegin('ping_args'); oprot.writeFieldStop(); oprot.writeStructEnd()
class ping_result(object):
  thrift_spec = ()
  def read(self, iprot):
    iprot.readStructBegin()
    while True:
      (fname, ftype, fid) = iprot.readFieldBegin()
      if ftype == TType.STOP: break
      iprot.skip(ftype); iprot.readFieldEnd()
    iprot.readStructEnd()
  def write(self, oprot):
    oprot.writeStructBegin('ping_result'); oprot.writeFieldStop(); oprot.writeStructEnd()
mod.Iface, mod.ping_args, mod.ping_result = Iface, ping_args, ping_result
from scales.thrift.serializer import MessageSerializer
s = MessageSerializer(Iface)
# server reply for void
tb = TMemoryBuffer(); p = TBinaryProtocol(tb)
p.writeMessageBegin('ping', TMessageType.REPLY, 0); ping_result().write(p); p.writeMessageEnd()
ret = s.DeserializeThriftCall(BytesIO(tb.getvalue()))
print('void reply -> return_value', repr(ret.return_value), 'error', ret.error)
