import sys, heapq, itertools
sys.path.insert(0, '/repo'); sys.path.insert(0, '/repo/test/scales/thrift/gen_py')
import gevent, gevent.event, gevent.hub
from gevent.event import Event as REvent

class VClock(object):
  def __init__(self, t0=1024.0):
    self.now = t0; self.timers = []; self.seq = itertools.count()
  def time(self): return self.now
  def call_at(self, t, fn):
    ent = [t, next(self.seq), fn]; heapq.heappush(self.timers, ent); return ent
  def cancel(self, ent): ent[2] = None
  def settle(self):
    gevent.idle()
  def advance_to(self, t):
    self.settle()
    while self.timers and self.timers[0][0] <= t:
      at, _, fn = heapq.heappop(self.timers)
      if fn is None: continue
      self.now = max(self.now, at)
      fn(); self.settle()
    self.now = max(self.now, t)
    self.settle()
VC = VClock()

class VTimeout(gevent.Timeout):
  def __init__(self, seconds=None, exception=None):
    self.seconds = seconds; self.exception = exception; self._ent = None
  def start(self):
    g = gevent.getcurrent()
    def fire():
      self._ent = None
      if not g.dead: g.throw(self)
    if self.seconds is not None:
      self._ent = VC.call_at(VC.now + self.seconds, lambda: gevent.spawn(fire))
  @classmethod
  def start_new(cls, timeout=None, exception=None):
    t = cls(timeout, exception); t.start(); return t
  @property
  def pending(self): return self._ent is not None
  def cancel(self):
    if self._ent: VC.cancel(self._ent); self._ent = None
  def close(self): self.cancel()

def vsleep(seconds=0, ref=True):
  if seconds <= 0: return gevent.sleep(0)
  ev = REvent(); VC.call_at(VC.now + seconds, ev.set); ev.wait()

class VEvent(REvent):
  def wait(self, timeout=None):
    if timeout is None: return REvent.wait(self)
    if self.is_set(): return True
    woke = REvent()
    ent = VC.call_at(VC.now + timeout, woke.set)
    def onset(_): woke.set()
    self.rawlink(onset)
    woke.wait()
    self.unlink(onset); VC.cancel(ent)
    return self.is_set()

class GProxy(object):
  def __getattr__(self, k): return getattr(gevent, k)
GP = GProxy(); GP.sleep = vsleep; GP.Timeout = VTimeout
class TProxy(object):
  def __getattr__(self, k):
    import time; return getattr(time, k)
TP = TProxy(); TP.time = VC.time

import scales.timer_queue as tq
tq.time = TP; tq.gevent = GP; tq.Event = VEvent
import scales
mods = ['scales.sink','scales.dispatch','scales.thrift.sink','scales.mux.sink','scales.thriftmux.sink','scales.resurrector','scales.loadbalancer.base','scales.varz','scales.message','scales.pool.watermark','scales.observable','scales.asynchronous']
import importlib
for m in mods:
  mod = importlib.import_module(m)
  if hasattr(mod, 'time'): mod.time = TP
  if hasattr(mod, 'gevent'): mod.gevent = GP
  if hasattr(mod, 'Event'): mod.Event = VEvent
Q = tq.TimerQueue(time_source=VC.time, resolution=1/64.)
LRT = tq.LowResolutionTime.__new__(tq.LowResolutionTime); LRT._interval=1; LRT.now = VC.now
tq.GLOBAL_TIMER_QUEUE = Q
import scales.sink; scales.sink.GLOBAL_TIMER_QUEUE = Q
from struct import pack, unpack
import scales.scales_socket as ss
log = []
class Peer(object):
  """scripted mux peer: parses frames written by the client"""
  def __init__(self): self.buf = b''; self.frames = []; self.sock = None; self.auto_ping = True
  def feed(self, data):
    self.buf += data
    while len(self.buf) >= 4:
      n, = unpack('!i', self.buf[:4])
      if len(self.buf) < 4 + n: break
      body = self.buf[4:4+n]; self.buf = self.buf[4+n:]
      typ, = unpack('!b', body[:1]); tag = int.from_bytes(body[1:4], 'big')
      self.frames.append((VC.now, typ, tag, body[4:])); log.append((VC.now, 'peer-rx', typ, tag, len(body)-4))
      if typ == 65 and self.auto_ping: self.send(-65, tag, b'')
  def send(self, typ, tag, payload):
    body = pack('!b', typ) + tag.to_bytes(3, 'big') + payload
    self.sock.rx += pack('!i', len(body)) + body; self.sock.ev.set()
PEER = Peer()
class FakeG(object):
  def __init__(self, fam, typ): self.rx = b''; self.ev = REvent(); self.closed = False
  def connect(self, addr): PEER.sock = self; log.append((VC.now, 'connect'))
  def sendall(self, b): PEER.feed(bytes(b))
  def recv_into(self, view, sz):
    while not self.rx:
      if self.closed: return 0
      self.ev.clear(); self.ev.wait()
    n = min(sz, len(self.rx)); view[:n] = self.rx[:n]; self.rx = self.rx[n:]; return n
  def setsockopt(self, *a): pass
  def close(self): self.closed = True; self.ev.set(); log.append((VC.now, 'close'))
ss.gsocket = FakeG
ss.ScalesSocket._resolveAddr = lambda self: [(2, 1, 6, '', (self.host, self.port))]
import scales.thriftmux.sink as tms
class R:
  @staticmethod
  def randint(a, b): return a
tms.random = R
from scales.thriftmux.builder import ThriftMux
from hello import Hello
from thrift.protocol.TBinaryProtocol import TBinaryProtocol
from thrift.transport.TTransport import TMemoryBuffer
from thrift.Thrift import TMessageType
def reply_for(payload_text):
  tb = TMemoryBuffer(); p = TBinaryProtocol(tb)
  p.writeMessageBegin('hi', TMessageType.REPLY, 0)
  r = Hello.hi_result(success=payload_text); r.write(p); p.writeMessageEnd()
  return pack('!bh', 0, 0) + tb.getvalue()
c = ThriftMux.NewBuilder(Hello.Iface, client_id='cid').SetUri('tcp://h:1').SetTimeout(1.0).Build()
VC.settle()
print('open ok; frames so far', [(f[1], f[2]) for f in PEER.frames])
t0 = VC.now
a1 = c.hi_async('one'); a2 = c.hi_async('two'); VC.settle()
print('dispatch frames', [(f[1], f[2]) for f in PEER.frames if f[1] == 2])
tags = [f[2] for f in PEER.frames if f[1] == 2]
PEER.send(-2, tags[1], reply_for('r-two')); VC.settle()
print('a2', a2.ready(), a2.value if a2.successful() else a2.exception, '| a1 ready', a1.ready())
VC.advance_to(t0 + 1.0 + 1/64.)
print('a1 after deadline:', type(a1.exception).__name__, '| frames after timeout', [(f[1], f[2], f[3]) for f in PEER.frames if f[1] == 66])
lb = c._dispatcher.next_sink
while not hasattr(lb, '_heap'): lb = lb.next_sink
tr = lb._heap[1].channel.next_sink
print('tag_map keys', list(tr._tag_map), 'free', tr._tag_pool._set, 'next', tr._tag_pool._next)
a3 = c.hi_async('three'); VC.settle()
print('third call tag', [f[2] for f in PEER.frames if f[1] == 2][-1])
PEER.send(-2, tags[0], reply_for('late-one')); VC.settle()
print('after late reply to timed-out tag: tag_map', list(tr._tag_map), 'free', tr._tag_pool._set, 'a1', type(a1.exception).__name__, 'a3 ready', a3.ready())
# adversarial: non-ping reply on tag 1, reply on unknown tag 9
PEER.send(-2, 1, reply_for('x')); PEER.send(-2, 9, reply_for('y')); VC.settle()
print('after bogus frames: free', tr._tag_pool._set)
# ping timeout
PEER.auto_ping = False
VC.advance_to(VC.now + 36.0)
print('state after silent peer', tr.state, 'a3', type(a3.exception).__name__ if a3.ready() else 'pending')
