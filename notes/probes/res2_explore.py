import sys, time
sys.path.insert(0, '/repo'); sys.path.insert(0, '/repo/test/scales/thrift/gen_py')
import gevent, socket as _s
import scales.scales_socket as ss
from scales.core import Scales
from scales.loadbalancer import ApertureBalancerSink, HeapBalancerSink
from scales.resurrector import ResurrectorSink
from scales.pool import WatermarkPoolSink
from scales.thrift.sink import SocketTransportSink, ThriftSerializerSink
from hello import Hello

reachable = {9001: False, 9002: True}
log = []
T0 = time.time()
class FakeG(object):
  def __init__(self, fam, typ): self.port=None; self.connected=False
  def connect(self, addr):
    self.port = addr[1]
    log.append(('connect', self.port, reachable[self.port], round(time.time()-T0,2)))
    if not reachable[self.port]: raise _s.error(111, 'refused')
    self.connected = True
  def sendall(self, b):
    if not self.connected: raise _s.error(32, 'EPIPE')
    log.append(('send', self.port, len(b), round(time.time()-T0,2)))
  def recv_into(self, view, sz):
    if not self.connected: raise _s.error(107, 'ENOTCONN')
    gevent.sleep(100); return 0
  def setsockopt(self, *a): pass
  def close(self): self.connected=False
ss.gsocket = FakeG
ss.ScalesSocket._resolveAddr = lambda self: [(2, 1, 6, '', (self.host, self.port))]
b = Scales.NewBuilder(Hello.Iface)\
  .WithSink(ThriftSerializerSink.Builder())\
  .WithSink(HeapBalancerSink.Builder())\
  .WithSink(ResurrectorSink.Builder(initial_wait_interval=0.2, max_wait_interval=0.5))\
  .WithSink(WatermarkPoolSink.Builder())\
  .WithSink(SocketTransportSink.Builder())
c = b.SetUri('tcp://h:9001,h:9002').SetTimeout(0.1).Build()
lb = c._dispatcher.next_sink.next_sink.next_sink
def show(tag):
  print(tag, [(str(n.endpoint), n.channel.state, n.channel._down_on is not None, 'pen' if n.load>=0 else n.load-lb.Idle) for n in lb._heap[1:]])
def call(tag):
  ar = c.hi_async('x'); ar.wait(1)
  e = ar.exception
  inner = getattr(e, 'inner_exception', None)
  print(tag, type(e).__name__, type(inner).__name__ if inner else '')
show('init')
for i in range(6): call('c%d'%i)
show('after 6 calls while 9001 down')
reachable[9001] = True
gevent.sleep(1.5)
show('1.5s after reachable')
for i in range(4): call('d%d'%i)
show('end')
print(log)
