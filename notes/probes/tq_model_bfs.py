# Small-step model of TimerQueue (as read from timer_queue.py); exhaustive exploration of all interleavings
# for a tiny universe, to test the intended C10 theorem statements before proving them in Coq.
import itertools, collections, math
R = 2  # resolution in ticks
def ceilr(d): return -(-d // R) * R
# state: (q frozenset of (dl,seq,canc,aid), ev, seq, now, pc, spawned tuple, ran tuple, pending ops)
# pc: 'top' | 'idle' | 'sleep0' | ('timed', tgt_seq, expiry)
def head(q): return min(q) if q else None
def worker_step(s, by_event):
  q, ev, seq, now, pc, spawned, ran = s
  q = set(q)
  # returns new state after running one atomic segment starting at pc
  def run_from_top(q, ev, spawned):
    while True:
      if not q:
        if not ev: return (frozenset(q), ev, seq, now, 'idle', spawned, ran)
      if ev:
        return (frozenset(q), False, seq, now, 'sleep0', spawned, ran)
      r = peek(q, ev, spawned)
      if r is not None: return r
  def peek(q, ev, spawned):
    # returns state if blocks, None to continue loop at top
    while True:
      if not q: return 'CRASH'
      h = head(q); dl, sq, canc, aid = h
      if canc:
        q.discard(h)
        return 'LOOP'
      to_wait = dl - now
      if to_wait > 0:
        if ev:  # wait returns immediately True -> not timed out -> loop
          return 'LOOP'
        return (frozenset(q), ev, seq, now, ('timed', sq, dl), spawned, ran)
      # timed out immediately
      q.discard(h)
      if not canc: spawned = spawned + (aid,)
      return ('LOOP2', spawned)
  def loop(q, ev, spawned):
    while True:
      if not q and not ev: return (frozenset(q), ev, seq, now, 'idle', spawned, ran)
      if ev: return (frozenset(q), False, seq, now, 'sleep0', spawned, ran)
      r = peek(q, ev, spawned)
      if r == 'CRASH': return 'CRASH'
      if r == 'LOOP': continue
      if isinstance(r, tuple) and r[0] == 'LOOP2': spawned = r[1]; continue
      return r
  if pc == 'top': return loop(q, ev, spawned)
  if pc == 'idle':
    assert ev
    return loop(q, ev, spawned)   # wait returned; falls to 'if is_set'
  if pc == 'sleep0':
    r = peek(q, ev, spawned)
    if r == 'CRASH': return 'CRASH'
    if r == 'LOOP': return loop(q, ev, spawned)
    if isinstance(r, tuple) and r[0] == 'LOOP2': return loop(q, ev, r[1])
    return r
  if pc[0] == 'timed':
    _, psq, exp = pc
    if by_event:
      assert ev
      return loop(q, ev, spawned)   # not timed out -> reloop
    else:
      assert now >= exp
      h = head(q); q.discard(h)
      if not h[2]: spawned = spawned + (h[3],)
      return loop(q, ev, spawned)
def enabled_worker(s):
  q, ev, seq, now, pc, spawned, ran = s
  outs = []
  if pc in ('top', 'sleep0'): outs.append(False)
  elif pc == 'idle':
    if ev: outs.append(True)
  else:
    if ev: outs.append(True)
    if now >= pc[2]: outs.append(False)
  return outs
def explore(deadlines, cancels, tmax):
  # ops: schedule each aid once (deadline fixed), cancel some, ticks
  init = (frozenset(), False, 0, 0, 'top', (), ())
  start = (init, tuple(range(len(deadlines))), tuple(cancels), {})
  seen = set(); stack = [(init, frozenset(range(len(deadlines))), frozenset(cancels), ())]
  viol = []
  n = 0
  while stack:
    s, tosched, tocancel, cancelled_at = stack.pop()
    key = (s, tosched, tocancel, cancelled_at)
    if key in seen: continue
    seen.add(key); n += 1
    q, ev, seq, now, pc, spawned, ran = s
    # invariants
    ranids = [a for a, t in ran]
    if len(ranids) != len(set(ranids)): viol.append(('twice', s)); break
    for a, t in ran:
      if t < deadlines[a]: viol.append(('early', s)); break
      if a in dict(cancelled_at) and dict(cancelled_at)[a] < ceilr(deadlines[a]): viol.append(('cancelled-ran', s, cancelled_at)); break
    ew = enabled_worker(s)
    if not ew and not spawned:
      # quiescent: no due uncancelled entries
      for (dl, sq, canc, aid) in q:
        if not canc and dl <= now: viol.append(('lost-wakeup', s)); break
    if viol: break
    # successors
    for be in ew:
      r = worker_step(s, be)
      if r == 'CRASH': viol.append(('crash', s)); break
      stack.append((r, tosched, tocancel, cancelled_at))
    if spawned:
      a = spawned[0]
      stack.append(((q, ev, seq, now, pc, spawned[1:], ran + ((a, now),)), tosched, tocancel, cancelled_at))
    for a in tosched:
      dl = ceilr(deadlines[a]); nq = set(q); nq.add((dl, seq + 1, False, a))
      nev = ev or (min(nq)[0] == dl)
      stack.append(((frozenset(nq), nev, seq + 1, now, pc, spawned, ran), tosched - {a}, tocancel, cancelled_at))
    for a in tocancel:
      if a in tosched: continue
      nq = frozenset((dl, sq, True if aid == a else c, aid) for (dl, sq, c, aid) in q)
      stack.append(((nq, ev, seq, now, pc, spawned, ran), tosched, tocancel - {a}, cancelled_at + ((a, now),)))
    if now < tmax:
      stack.append(((q, ev, seq, now + 1, pc, spawned, ran), tosched, tocancel, cancelled_at))
  return n, viol
tot = 0
for dls in itertools.product([0, 1, 2, 3, 4], repeat=3):
  for canc in [(), (0,), (1,), (0, 2)]:
    n, v = explore(list(dls), canc, 6)
    tot += n
    if v: print('VIOL', dls, canc, v[0][0], v[0][1]); raise SystemExit
print('explored states', tot, 'no violation')
