import sys
sys.path.insert(0, '/repo')
import gevent
from scales.constants import SinkProperties, ChannelState
from scales.loadbalancer.zookeeper import Endpoint
from scales.pool.watermark import WatermarkPoolSink
from scales.message import Message
from test.scales.util.mocks import MockSinkProvider, MockSinkStack, MockSink
sp = WatermarkPoolSink.Builder(max_watermark=1).sink_properties
prov = MockSinkProvider()
sink = WatermarkPoolSink(prov, sp, {SinkProperties.Label:'m', SinkProperties.Endpoint: Endpoint('h',1)})
sink.Open().wait()
print('size', sink._current_size, 'cache', len(sink._cache))
prov.sinks_created[0].state = ChannelState.Closed   # cached connection found dead
st = MockSinkStack(); st.Push(MockSink({SinkProperties.Endpoint: None}))
sink.AsyncProcessRequest(st, Message(), None, None)
gevent.sleep(0)
print('after request: created', len(prov.sinks_created), 'size', sink._current_size, 'waiters', len(sink._waiters))
