import sys
sys.path.insert(0, '/repo')
import gevent
from scales.constants import SinkProperties, ChannelState
from scales.loadbalancer.zookeeper import Endpoint
from scales.pool.watermark import WatermarkPoolSink
from scales.message import Message
from test.scales.util.mocks import MockSinkProvider, MockSinkStack, MockSink

def mk(**kw):
  sp = WatermarkPoolSink.Builder(**kw).sink_properties
  prov = MockSinkProvider()
  sink = WatermarkPoolSink(prov, sp, {SinkProperties.Label:'m', SinkProperties.Endpoint: Endpoint('h',1)})
  sink.Open().wait()
  return sink, prov
def stack():
  st = MockSinkStack(); t = MockSink({SinkProperties.Endpoint: None}); st.Push(t); return st

# max waiters
sink, prov = mk(max_watermark=1, max_queue_len=1)
s1, s2, s3 = stack(), stack(), stack()
sink.AsyncProcessRequest(s1, Message(), None, None)
sink.AsyncProcessRequest(s2, Message(), None, None)
try:
  sink.AsyncProcessRequest(s3, Message(), None, None)
  print('s3 processed', s3.processed_response, s3.return_message and s3.return_message.error)
except Exception as e:
  print('EXC on third request:', type(e), e)

# queued waiter times out (drained stack) then release
sink, prov = mk(max_watermark=1)
s1, s2, s3 = stack(), stack(), stack()
sink.AsyncProcessRequest(s1, Message(), None, None)
sink.AsyncProcessRequest(s2, Message(), None, None)
sink.AsyncProcessRequest(s3, Message(), None, None)
# s2 times out: its stack drained from top
from scales.message import MethodReturnMessage, TimeoutError
s2.AsyncProcessResponseMessage(MethodReturnMessage(error=TimeoutError()))
print('waiters', len(sink._waiters), 'size', sink._current_size)
s1.AsyncProcessResponseMessage(MethodReturnMessage())
gevent.sleep(0); gevent.sleep(0)
print('after release: waiters', len(sink._waiters), 'size', sink._current_size, 'cache', len(sink._cache), 's3 got sink?', [len(p_.__dict__) for p_ in []])
print('sinks created', len(prov.sinks_created))
