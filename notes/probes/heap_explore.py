import random, sys
sys.path.insert(0, '/repo')
import gevent
from scales.constants import SinkProperties, ChannelState
from scales.loadbalancer import HeapBalancerSink, ApertureBalancerSink
from scales.loadbalancer import heap as heapmod
from scales.message import Message
from test.scales.util.mocks import MockSinkProvider, MockServerSetProvider, MockSinkStack, MockSink
from scales.constants import MessageProperties

def make(n):
  ss = MockServerSetProvider()
  for p in range(n): ss.AddServer('h', 8000+p)
  props = HeapBalancerSink.Builder._defaults.copy(); props['server_set_provider']=ss
  sp = HeapBalancerSink.Builder.PARAMS_CLASS(**props)
  prov = MockSinkProvider()
  sink = HeapBalancerSink(prov, sp, {SinkProperties.Label:'m'})
  sink.Open().wait(); sink.WaitForOpenComplete()
  return sink, ss, prov

def run(seed, n=6, steps=40):
  rnd = random.Random(seed)
  random.seed(seed)
  sink, ss, prov = make(n)
  outstanding = []  # (stack, endpoint)
  loads = {}
  trace=[]
  for s in range(steps):
    if outstanding and rnd.random() < 0.5:
      i = rnd.randrange(len(outstanding))
      st, ep = outstanding.pop(i)
      st.AsyncProcessResponse(None, object())
      loads[ep] -= 1
      trace.append(('put', str(ep)))
    else:
      st = MockSinkStack()
      term = MockSink({SinkProperties.Endpoint: None}); st.Push(term)
      m = Message()
      sink.AsyncProcessRequest(st, m, None, None)
      ep = m.properties[MessageProperties.Endpoint]
      allloads = {n.endpoint: loads.get(n.endpoint,0) for n in sink._heap[1:]}
      mn = min(allloads.values())
      trace.append(('get', str(ep), allloads[ep], mn))
      if allloads[ep] != mn:
        return trace
      loads[ep] = loads.get(ep,0)+1
      outstanding.append((st, ep))
  return None

for seed in range(3000):
  t = run(seed)
  if t:
    print('VIOLATION seed', seed, len(t)); print(t); break
else:
  print('none')
