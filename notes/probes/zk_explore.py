import sys, json
sys.path.insert(0, '/repo')
import gevent
from gevent.lock import RLock
from kazoo.client import KazooClient
from kazoo.exceptions import NoNodeError
from kazoo.protocol.states import WatchedEvent, KazooState, ZnodeStat
from kazoo.retry import KazooRetry

class FakeHandler(object):
  def lock_object(self): return RLock()
  def sleep_func(self, n): gevent.sleep(0)
  def spawn(self, fn, *a, **k): return gevent.spawn(fn, *a, **k)

class FakeZk(KazooClient):
  def __init__(self):
    self.handler = FakeHandler()
    self.tree = {}            # path -> (data, version counter)
    self.zxid = 0
    self.data_watches = {}    # path -> [cb]
    self.child_watches = {}
    self.pending = []         # undelivered watch callbacks
    self._listeners = []
    self.retry = KazooRetry(max_tries=0, sleep_func=self.handler.sleep_func)
  @property
  def connected(self): return True
  def add_listener(self, l): self._listeners.append(l)
  def remove_listener(self, l): pass
  def _stat(self, path):
    d, mz = self.tree[path]
    return ZnodeStat(0, mz, 0, 0, 0, 0, 0, 0, len(d), 0, 0)
  def exists(self, path, watch=None):
    if watch: self.data_watches.setdefault(path, []).append(watch)
    return self._stat(path) if path in self.tree else None
  def get(self, path, watch=None):
    if path not in self.tree: raise NoNodeError()
    if watch: self.data_watches.setdefault(path, []).append(watch)
    return self.tree[path][0], self._stat(path)
  def get_children(self, path, watch=None):
    if path not in self.tree: raise NoNodeError()
    if watch: self.child_watches.setdefault(path, []).append(watch)
    pre = path.rstrip('/') + '/'
    return sorted(p[len(pre):] for p in self.tree if p.startswith(pre) and '/' not in p[len(pre):])
  # mutations
  def _fire(self, table, path, typ):
    for cb in table.pop(path, []):
      self.pending.append((cb, WatchedEvent(typ, 'CONNECTED', path)))
  def create(self, path, data=b''):
    self.zxid += 1; self.tree[path] = (data, self.zxid)
    self._fire(self.data_watches, path, 'CREATED')
    parent = path.rsplit('/', 1)[0] or '/'
    self._fire(self.child_watches, parent, 'CHILD')
  def delete(self, path):
    del self.tree[path]
    self._fire(self.data_watches, path, 'DELETED')
    self._fire(self.child_watches, path, 'DELETED')
    parent = path.rsplit('/', 1)[0] or '/'
    self._fire(self.child_watches, parent, 'CHILD')
  def deliver_all(self):
    while self.pending:
      cb, ev = self.pending.pop(0)
      try: cb(ev)
      except Exception as e: print('  watch callback raised:', type(e).__name__, e)
      gevent.idle()

from scales.loadbalancer.zookeeper import ServerSet
def member(port): return json.dumps({'serviceEndpoint': {'host':'h','port':port}, 'additionalEndpoints':{}, 'status':'ALIVE'}).encode()
zk = FakeZk()
view = set(); log = []
def on_join(m): log.append(('join', m.name)); view.add(m.name)
def on_leave(m): log.append(('leave', m.name)); view.discard(m.name)
zk.create('/svc'); zk.create('/svc/member_1', member(1)); zk.create('/svc/member_2', member(2))
ss = ServerSet(zk, '/svc', on_join, on_leave, lambda n: n.startswith('member_'))
gevent.idle(); zk.deliver_all(); gevent.idle()
print('initial view', sorted(view), log)
# parent deleted "at once" (children deleted then parent, but watches delivered only afterwards -> coalesced)
zk.delete('/svc/member_1'); zk.delete('/svc/member_2'); zk.delete('/svc')
zk.deliver_all(); gevent.idle()
print('after parent deletion: view', sorted(view), 'nodes', ss._nodes, 'members', list(ss._members))
zk.create('/svc'); zk.create('/svc/member_1', member(1))
zk.deliver_all(); gevent.idle(); zk.deliver_all(); gevent.idle()
print('after re-creation with member_1: view', sorted(view), 'tree children', zk.get_children('/svc'))
print(log)
