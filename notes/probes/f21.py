import sys, socket as _s
sys.path.insert(0, '/repo')
import gevent
import scales.scales_socket as ss
from scales.varz import VarzSocketWrapper
from scales.thrift.sink import SocketTransportSink
class FakeG(object):
  def __init__(self, fam, typ): pass
  def connect(self, addr): raise _s.error(111, 'refused')
  def close(self): pass
ss.gsocket = FakeG
ss.ScalesSocket._resolveAddr = lambda self: [(2, 1, 6, '', (self.host, self.port))]
sock = VarzSocketWrapper(ss.ScalesSocket('h', 1), 'svc')
t = SocketTransportSink(sock, 'svc')
faults = []
t.on_faulted.Subscribe(lambda v: faults.append(v))
ar = t.Open(); ar.wait(); gevent.sleep(0); gevent.sleep(0)
print('open exception:', type(ar.exception).__name__, '| reported state:', t.state, '(2=Open,4=Closed) | _state', t._state, '| faults', len(faults), '| processing', t._processing)
