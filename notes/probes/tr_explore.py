import sys, time
sys.path.insert(0, '/repo')
import gevent
from io import BytesIO
from scales.constants import SinkProperties, ChannelState
from scales.thrift.sink import SocketTransportSink
from scales.message import Message, Deadline, MethodReturnMessage
from scales.varz import VarzSocketWrapper
from test.scales.util.mocks import MockSocket, MockSinkStack, MockSink

def stack():
  st = MockSinkStack(); t = MockSink({SinkProperties.Endpoint: None}); st.Push(t); return st

opens=[0]
def op():
  opens[0]+=1
  if opens[0] >= 2: raise Exception('connect refused')
def rd(sz):
  gevent.sleep(10); return b''
sock = MockSocket('h', 1, open=op, read=rd)
sink = SocketTransportSink(sock, 'svc')
sink.Open().wait()
print('state', sink.state)
m = Message(); m.properties[Deadline.KEY] = time.time() + 0.05
st = stack()
sink.AsyncProcessRequest(st, m, BytesIO(b'abc'), {})
gevent.sleep(0.2)
print('after timeout+failed reconnect: state', sink.state, 'processing', sink._processing, 'resp', st.processed_response, st.return_message and st.return_message.error)
st2 = stack()
sink.AsyncProcessRequest(st2, Message(), BytesIO(b'abc'), {})
gevent.sleep(0.05)
print('next request:', st2.return_message and st2.return_message.error)

# TagPool unknown release
from scales.mux.sink import TagPool
tp = TagPool(2**24-1, 's', 'h')
print('first', tp.get())
tp.release(1); print('after release(1) get ->', tp.get())
tp.release(7); a = tp.get(); print('after release(7):', a, [tp.get() for _ in range(6)])
