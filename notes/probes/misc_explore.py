import sys
sys.path.insert(0, '/repo')
import gevent
from scales.asynchronous import AsyncResult
# WhenAny: success then failure
a, b = AsyncResult(), AsyncResult()
r = AsyncResult.WhenAny([a, b])
a.set(5); gevent.sleep(0)
print('after a ok: ready', r.ready(), 'succ', r.successful(), 'val', r.value, 'exc', r.exception)
b.set_exception(Exception('b')); gevent.sleep(0)
print('after b fail: ready', r.ready(), 'succ', r.successful(), 'val', r.value, 'exc', r.exception)
try: print('get ->', r.get())
except Exception as e: print('get raised', e)
# WhenAny: already failed + pending success
a, b = AsyncResult(), AsyncResult()
a.set_exception(Exception('a'))
r = AsyncResult.WhenAny([a, b])
b.set(7); gevent.sleep(0)
print('already-failed shortcut: succ', r.successful(), 'exc', r.exception)
# WhenAll empty
r = AsyncResult.WhenAll([]); gevent.sleep(0); print('WhenAll([]) ready', r.ready())
r = AsyncResult.WhenAny([]); gevent.sleep(0); print('WhenAny([]) ready', r.ready())
# WhenAll: two failures
a, b = AsyncResult(), AsyncResult()
r = AsyncResult.WhenAll([a, b])
a.set_exception(Exception('a')); gevent.sleep(0); print('WhenAll after a fail', r.exception)
b.set_exception(Exception('b')); gevent.sleep(0); print('WhenAll after b fail', r.exception)
# WhenAll: fail then success
a, b = AsyncResult(), AsyncResult()
r = AsyncResult.WhenAll([a, b])
a.set_exception(Exception('a')); gevent.sleep(0)
b.set(1); gevent.sleep(0); print('WhenAll fail then ok', r.exception, r.value, r.successful())

# Source equality
from scales.varz import Source, VarzReceiver
s1, s2 = Source(method='m', service='s'), Source(method='m', service='s')
print('Source eq', s1 == s2, hash(s1)==hash(s2))
d = {}; d[s1]=1; d[s2]=2; print('dict len', len(d))

# thriftmux context
from scales.thriftmux.serializer import MessageSerializer
from io import BytesIO
buf = BytesIO(); MessageSerializer._WriteContext({'kéy': 'väl€'}, buf); print(buf.getvalue())
from scales.thriftmux.sink import ThriftMuxMessageSerializerSink as S, SocketTransportSink as T
from struct import pack
for t in (-2, -128, 127, -65, 2, 66, 0, 64):
  hdr = pack('!bBBB', t, 0, 0, 5)
  print('type', t, '->', S.ReadHeader(BytesIO(hdr)))
# kafka header
from scales.kafka.sink import KafkaTransportSink
try:
  print(KafkaTransportSink._BuildHeader(KafkaTransportSink.__new__(KafkaTransportSink), 5, 0, 10))
except Exception as e: print('kafka hdr EXC', type(e), e)
