import sys, heapq, itertools
sys.path.insert(0, '/repo'); sys.path.insert(0, '/repo/test/scales/thrift/gen_py')
import gevent, gevent.event, gevent.hub
from gevent.event import Event as REvent

class VClock(object):
  def __init__(self, t0=1024.0):
    self.now = t0; self.timers = []; self.seq = itertools.count()
  def time(self): return self.now
  def call_at(self, t, fn):
    ent = [t, next(self.seq), fn]; heapq.heappush(self.timers, ent); return ent
  def cancel(self, ent): ent[2] = None
  def settle(self):
    gevent.idle()
  def advance_to(self, t):
    self.settle()
    while self.timers and self.timers[0][0] <= t:
      at, _, fn = heapq.heappop(self.timers)
      if fn is None: continue
      self.now = max(self.now, at)
      fn(); self.settle()
    self.now = max(self.now, t)
    self.settle()
VC = VClock()

class VTimeout(gevent.Timeout):
  def __init__(self, seconds=None, exception=None):
    self.seconds = seconds; self.exception = exception; self._ent = None
  def start(self):
    g = gevent.getcurrent()
    def fire():
      self._ent = None
      if not g.dead: g.throw(self)
    if self.seconds is not None:
      self._ent = VC.call_at(VC.now + self.seconds, lambda: gevent.spawn(fire))
  @classmethod
  def start_new(cls, timeout=None, exception=None):
    t = cls(timeout, exception); t.start(); return t
  @property
  def pending(self): return self._ent is not None
  def cancel(self):
    if self._ent: VC.cancel(self._ent); self._ent = None
  def close(self): self.cancel()

def vsleep(seconds=0, ref=True):
  if seconds <= 0: return gevent.sleep(0)
  ev = REvent(); VC.call_at(VC.now + seconds, ev.set); ev.wait()

class VEvent(REvent):
  def wait(self, timeout=None):
    if timeout is None: return REvent.wait(self)
    if self.is_set(): return True
    woke = REvent()
    ent = VC.call_at(VC.now + timeout, woke.set)
    def onset(_): woke.set()
    self.rawlink(onset)
    woke.wait()
    self.unlink(onset); VC.cancel(ent)
    return self.is_set()

class GProxy(object):
  def __getattr__(self, k): return getattr(gevent, k)
GP = GProxy(); GP.sleep = vsleep; GP.Timeout = VTimeout
class TProxy(object):
  def __getattr__(self, k):
    import time; return getattr(time, k)
TP = TProxy(); TP.time = VC.time

import scales.timer_queue as tq
tq.time = TP; tq.gevent = GP; tq.Event = VEvent
import scales
mods = ['scales.sink','scales.dispatch','scales.thrift.sink','scales.mux.sink','scales.thriftmux.sink','scales.resurrector','scales.loadbalancer.base','scales.varz','scales.message','scales.pool.watermark','scales.observable','scales.asynchronous']
import importlib
for m in mods:
  mod = importlib.import_module(m)
  if hasattr(mod, 'time'): mod.time = TP
  if hasattr(mod, 'gevent'): mod.gevent = GP
  if hasattr(mod, 'Event'): mod.Event = VEvent
Q = tq.TimerQueue(time_source=VC.time, resolution=1/64.)
LRT = tq.LowResolutionTime.__new__(tq.LowResolutionTime); LRT._interval=1; LRT.now = VC.now
tq.GLOBAL_TIMER_QUEUE = Q
import scales.sink; scales.sink.GLOBAL_TIMER_QUEUE = Q

import scales.scales_socket as ss
log = []
class FakeHandle(object):
  def __init__(self, s): self.s = s; self.rx = b''; self.ev = REvent()
  def sendall(self, b): log.append((VC.now, 'send', len(b)))
  def recv_into(self, view, sz):
    while not self.rx:
      self.ev.clear(); self.ev.wait()
    n = min(sz, len(self.rx)); view[:n] = self.rx[:n]; self.rx = self.rx[n:]; return n
  def setsockopt(self, *a): pass
  def close(self): log.append((VC.now, 'close'))
CONNECT_DELAY=[1.0]
class FakeSocket(ss.ScalesSocket):
  def open(self):
    log.append((VC.now, "connect")); vsleep(CONNECT_DELAY[0]); self.handle = FakeHandle(self)
scales.sink.ScalesSocket = FakeSocket
import heapq
from scales.thrift.builder import Thrift
from hello import Hello
def run(rev):
  # tie-break policy among same-time virtual timers
  VC.seq = itertools.count(0, -1) if rev else itertools.count()
  del log[:]
  CONNECT_DELAY[0] = 0.0
  c = Thrift.NewBuilder(Hello.Iface).SetUri('tcp://h:1').SetTimeout(2.0).Build()
  VC.advance_to(VC.now + 1/64.)
  t0 = VC.now
  arA = c.hi_async('A')            # occupies the cached connection, never answered
  VC.settle()
  CONNECT_DELAY[0] = 2.0            # second connection takes exactly T to connect
  tB = VC.now
  arB = c.hi_async('B')
  doneB = []
  arB.rawlink(lambda a: (doneB.append((VC.now - tB, type(a.exception).__name__)), log.append((VC.now, "B-completed", type(a.exception).__name__))))
  for step in range(1, 64*3):
    VC.advance_to(tB + step/64.)
  sends = [(round(x[0]-tB,4),)+tuple(x[1:]) for x in log if x[0] >= tB + 1.9]
  print('reverse-ties=%s: B completed' % rev, doneB, ' sends (t-tB, bytes):', sends)
run(False); run(True)
