import random, sys, time
sys.path.insert(0, '/repo')
import gevent
from scales.constants import SinkProperties, ChannelState, MessageProperties
from scales.loadbalancer import ApertureBalancerSink
import scales.loadbalancer.aperture as apmod
from scales.message import Message
from test.scales.util.mocks import MockSinkProvider, MockServerSetProvider, MockSinkStack, MockSink

class Clk:
  now = 1000.0
apmod.MonoClock.Sample = lambda self: Clk.now

import logging
DOWNS = [0]
class H(logging.Handler):
  def emit(self, rec):
    if 'down' in rec.getMessage(): DOWNS[0] += 1
logging.getLogger('scales.loadbalancer').addHandler(H()); logging.getLogger('scales.loadbalancer').setLevel(logging.INFO)
def make(n, **kw):
  ss = MockServerSetProvider()
  for p in range(n): ss.AddServer('h', 8000+p)
  props = ApertureBalancerSink.Builder._defaults.copy(); props['server_set_provider']=ss
  props.update(kw); props['jitter_min_sec'] = 0
  sp = ApertureBalancerSink.Builder.PARAMS_CLASS(**props)
  prov = MockSinkProvider()
  sink = ApertureBalancerSink(prov, sp, {SinkProperties.Label:'m'})
  sink.Open().wait(); sink.WaitForOpenComplete()
  return sink, ss, prov

def check(sink, ss, tag, trace):
  members = set(str(s.service_endpoint) for s in ss._servers)
  active = [str(n.endpoint) for n in sink._heap[1:]]
  idle = set(str(e) for e in sink._idle_endpoints)
  problems = []
  if len(active) != len(set(active)): problems.append('dup active')
  if set(active) & idle: problems.append('overlap')
  if set(active) | idle != members: problems.append('union!=members a=%s i=%s m=%s' % (sorted(active), sorted(idle), sorted(members)))
  if set(str(k) for k in sink._servers) != members: problems.append('_servers != members')
  return problems

def run(seed):
  rnd = random.Random(seed); random.seed(seed)
  n = rnd.randint(1, 6)
  mn = rnd.randint(0, 3); mx = rnd.choice([1,2,3,4,2**31])
  if mx < mn: mx = mn
  sink, ss, prov = make(n, min_size=mn, max_size=mx)
  outstanding = []; trace = []
  ports = list(range(8000, 8000+n)); nextport = 8000+n
  for step in range(80):
    Clk.now += rnd.choice([0, 0.01, 0.5, 3.0, 10.0])
    r = rnd.random()
    size0 = len(sink._heap) - 1; downs0 = DOWNS[0]; kind = None
    if r < 0.35:
      kind = 'get'
      st = MockSinkStack(); st.Push(MockSink({SinkProperties.Endpoint: None}))
      m = Message(); sink.AsyncProcessRequest(st, m, None, None)
      if not st.processed_response: outstanding.append(st)
      trace.append(('get', str(m.properties.get(MessageProperties.Endpoint))))
    elif r < 0.65 and outstanding:
      kind = 'put'
      st = outstanding.pop(rnd.randrange(len(outstanding))); st.AsyncProcessResponse(None, object()); trace.append(('put',))
    elif r < 0.75 and ports:
      p = rnd.choice(ports); ports.remove(p); ss.RemoveServer('h', p); trace.append(('leave', p))
    elif r < 0.85:
      if rnd.random() < 0.3 and ports: p = rnd.choice(ports)   # duplicate join
      else:
        p = nextport; nextport += 1; ports.append(p)
      try: ss.AddServer('h', p)
      except Exception as e: trace.append(('joinerr', str(e)))
      trace.append(('join', p))
    elif r < 0.95 and prov.sinks_created:
      s = rnd.choice(prov.sinks_created); s.state = rnd.choice([ChannelState.Closed, ChannelState.Open]); trace.append(('chan', str(s.endpoint), s.state))
    size1 = len(sink._heap) - 1
    nmem = len(ss._servers)
    if kind in ('get', 'put'):
      if size1 < size0 and size1 < min(mn, nmem): return seed, step, ['contract below min: %d -> %d min=%d members=%d' % (size0, size1, mn, nmem)], trace[-6:], (n, mn, mx)
      if size1 > size0 and DOWNS[0] == downs0 and size1 > mx: return seed, step, ['load growth beyond max: %d -> %d max=%d' % (size0, size1, mx)], trace[-6:], (n, mn, mx)
    gevent.sleep(0)
    pr = check(sink, ss, step, trace)
    size = len(sink._heap) - 1
    if pr: return seed, step, pr, trace[-6:], (n, mn, mx)
  return None
bad = 0
for seed in range(1500):
  try:
    r = run(seed)
  except Exception as e:
    import traceback; print('EXC seed', seed, type(e).__name__, e); traceback.print_exc(limit=4); bad += 1; 
    if bad > 2: break
    continue
  if r: print('PROBLEM', r); bad += 1
  if bad > 3: break
print('done bad=', bad)
