From Coq Require Import ZArith List Lia.
From Coq Require Import ZifyBool.
Ltac Zify.zify_post_hook ::= Z.div_mod_to_equations.
Import ListNotations.
Local Open Scope Z_scope.

Fixpoint be (k : nat) (n : Z) : list Z :=
  match k with O => [] | S k' => be k' (n / 256) ++ [n mod 256] end.
Definition unbe (l : list Z) : Z := fold_left (fun a b => a * 256 + b) l 0.

Lemma fold_unbe_app l a b : fold_left (fun a b => a * 256 + b) (l ++ [b]) a
                            = fold_left (fun a b => a * 256 + b) l a * 256 + b.
Proof. rewrite fold_left_app. reflexivity. Qed.

Lemma unbe_be k : forall n, 0 <= n < 256 ^ Z.of_nat k -> unbe (be k n) = n.
Proof.
  induction k as [|k IH]; intros n Hn.
  - cbn in *. lia.
  - cbn [be]. unfold unbe. rewrite fold_unbe_app. fold (unbe (be k (n / 256))).
    rewrite IH.
    + lia.
    + rewrite Nat2Z.inj_succ, Z.pow_succ_r in Hn by lia. lia.
Qed.

Lemma be_length k n : length (be k n) = k.
Proof. revert n; induction k; intros; cbn [be]; [reflexivity|]. rewrite app_length, IHk. cbn; lia. Qed.

Lemma be_bytes k : forall n b, In b (be k n) -> 0 <= b < 256.
Proof. induction k; intros n b H; cbn [be] in H; [contradiction|].
  apply in_app_or in H as [H|[<-|[]]]; [eauto|]. lia. Qed.

(* the code's way of writing a 24-bit tag *)
Definition enc_tag (t : Z) : list Z :=
  [Z.land (Z.shiftr t 16) 255; Z.land (Z.shiftr t 8) 255; Z.land t 255].
Lemma enc_tag_be t : 0 <= t < 2^24 -> enc_tag t = be 3 t.
Proof.
  intros H. unfold enc_tag. cbn [be app].
  rewrite !Z.shiftr_div_pow2 by lia.
  change 255 with (Z.ones 8). rewrite !Z.land_ones by lia.
  change (2^8) with 256. change (2^16) with 65536.
  repeat (f_equal; try lia).
Qed.
(* ReadHeader as written in the code (after sign fix would differ) *)
Definition read_tag (header : Z) : Z := Z.shiftr (Z.land (Z.shiftl header 8) 4294967295) 8.
Lemma read_tag_spec h : read_tag h = h mod 2^24.
Proof.
  unfold read_tag. rewrite Z.shiftr_div_pow2, Z.shiftl_mul_pow2 by lia.
  change 4294967295 with (Z.ones 32). rewrite Z.land_ones by lia.
  change (2^8) with 256. change (2^32) with 4294967296. change (2^24) with 16777216. lia.
Qed.
Print Assumptions unbe_be.
