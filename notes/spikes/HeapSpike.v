From Coq Require Import ZArith List Bool Lia Arith PeanoNat.
From Coq Require Import ZifyBool ZifyNat.
Ltac Zify.zify_post_hook ::= Z.div_mod_to_equations.
Import ListNotations.
Local Open Scope nat_scope.

Section Heap.
Variable A : Type.
Variable key : A -> Z.

Definition arr := nat -> A.
Definition upd (f : arr) (i : nat) (x : A) : arr := fun k => if Nat.eqb k i then x else f k.
Definition swap (f : arr) (i j : nat) : arr := upd (upd f i (f j)) j (f i).

Lemma swap_spec f i j k :
  swap f i j k = if Nat.eqb k j then f i else if Nat.eqb k i then f j else f k.
Proof. reflexivity. Qed.

Ltac sw := repeat (rewrite swap_spec in *);
  repeat match goal with
  | |- context [Nat.eqb ?a ?b] => destruct (Nat.eqb_spec a b); try lia
  | H : context [Nat.eqb ?a ?b] |- _ => destruct (Nat.eqb_spec a b); try lia
  end.

Fixpoint fix_up (fuel : nat) (f : arr) (i : nat) : arr :=
  match fuel with
  | O => f
  | S fu => if Nat.eqb i 1 then f
            else if Z.ltb (key (f i)) (key (f (i / 2))) then fix_up fu (swap f i (i/2)) (i/2)
            else f
  end.

Fixpoint fix_down (fuel : nat) (f : arr) (i j : nat) : arr :=
  match fuel with
  | O => f
  | S fu =>
    if Nat.ltb j (2*i) then f else
    let m := if Nat.eqb j (2*i) || Z.leb (key (f (2*i))) (key (f (2*i+1))) then 2*i else 2*i+1 in
    if Z.ltb (key (f m)) (key (f i)) then fix_down fu (swap f i m) m j else f
  end.

Definition le_at (f : arr) (p c : nat) : Prop := (key (f p) <= key (f c))%Z.

Definition ok (f : arr) (n : nat) : Prop :=
  forall i, 2 <= i <= n -> le_at f (i/2) i.

Definition ok_up (f : arr) (n k : nat) : Prop :=
  (forall i, 2 <= i <= n -> i <> k -> le_at f (i/2) i) /\
  (forall c, 2 <= c <= n -> c / 2 = k -> 2 <= k -> le_at f (k/2) c).

Definition ok_down (f : arr) (n k : nat) : Prop :=
  (forall i, 2 <= i <= n -> i / 2 <> k -> le_at f (i/2) i) /\
  (forall c, 2 <= c <= n -> c / 2 = k -> 2 <= k -> le_at f (k/2) c).

Lemma fix_up_ok : forall fuel f n k, 1 <= k <= n -> k <= fuel -> ok_up f n k -> ok (fix_up fuel f k) n.
Proof.
  induction fuel as [|fu IH]; intros f n k Hk Hf [H1 H2]; [lia|].
  cbn [fix_up]. destruct (Nat.eqb_spec k 1) as [->|Hk1].
  - intros i Hi. apply H1; lia.
  - destruct (Z.ltb_spec (key (f k)) (key (f (k/2)))) as [Hlt|Hge].
    + assert (Hp : k/2 < k) by (apply Nat.div_lt; lia).
      assert (Hp1 : 1 <= k/2) by lia.
      apply IH; [lia|lia|]. split.
      * intros i Hi Hne. unfold le_at.
        destruct (Nat.eq_dec i k) as [->|Hik].
        { sw. }
        destruct (Nat.eq_dec (i/2) k) as [Hpk|Hpk].
        { rewrite Hpk. sw. apply H2; lia. }
        destruct (Nat.eq_dec (i/2) (k/2)) as [Hpp|Hpp].
        { rewrite Hpp. sw. specialize (H1 i Hi Hik). unfold le_at in H1. rewrite Hpp in H1. lia. }
        sw. apply H1; lia.
      * intros c Hc Hck Hk2. unfold le_at.
        assert (Hg : le_at f ((k/2)/2) (k/2)) by (apply H1; lia).
        unfold le_at in Hg.
        destruct (Nat.eq_dec c k) as [->|Hck'].
        { sw. }
        sw. specialize (H1 c Hc Hck'). unfold le_at in H1. rewrite Hck in H1. lia.
    + intros i Hi. destruct (Nat.eq_dec i k) as [->|]; [unfold le_at; lia| apply H1; lia].
Qed.

Lemma fix_down_ok : forall fuel f n k, 1 <= k -> n < k + fuel -> ok_down f n k -> ok (fix_down fuel f k n) n.
Proof.
  induction fuel as [|fu IH]; intros f n k Hk Hf [H1 H2].
  - intros i Hi. apply H1; lia.
  - cbn [fix_down]. destruct (Nat.ltb_spec n (2*k)) as [Hn|Hn].
    + intros i Hi. apply H1; lia.
    + set (m := if Nat.eqb n (2*k) || Z.leb (key (f (2*k))) (key (f (2*k+1))) then 2*k else 2*k+1).
      assert (Hm : (m = 2*k \/ m = 2*k+1) /\ m <= n /\ m/2 = k /\
                   (forall c, 2 <= c <= n -> c/2 = k -> (key (f m) <= key (f c))%Z)).
      { subst m. destruct (Nat.eqb_spec n (2*k)); cbn [orb].
        - repeat split; try lia. intros c Hc Hck. replace c with (2*k) by lia. lia.
        - destruct (Z.leb_spec (key (f (2*k))) (key (f (2*k+1)))).
          + repeat split; try lia. intros c Hc Hck.
            assert (c = 2*k \/ c = 2*k+1) as [->| ->] by lia; lia.
          + repeat split; try lia. intros c Hc Hck.
            assert (c = 2*k \/ c = 2*k+1) as [->| ->] by lia; lia. }
      clearbody m. destruct Hm as (Hm1 & Hm2 & Hm3 & Hm4).
      destruct (Z.ltb_spec (key (f m)) (key (f k))) as [Hlt|Hge].
      * apply IH; [lia|lia|]. split.
        -- intros i Hi Hne. unfold le_at.
           destruct (Nat.eq_dec i m) as [->|Him].
           { rewrite Hm3. sw. }
           destruct (Nat.eq_dec (i/2) k) as [Hpk|Hpk].
           { rewrite Hpk. sw. apply Hm4; lia. }
           destruct (Nat.eq_dec i k) as [->|Hik].
           { sw. assert (2 <= k) by lia. specialize (H2 m ltac:(lia) Hm3 ltac:(lia)). unfold le_at in H2. lia. }
           sw. apply H1; lia.
        -- intros c Hc Hcm Hm2'. unfold le_at. rewrite Hm3.
           sw. assert (Hx : le_at f (c/2) c) by (apply H1; lia). unfold le_at in Hx. rewrite Hcm in Hx. lia.
      * intros i Hi. destruct (Nat.eq_dec (i/2) k) as [Hik|Hik].
        -- unfold le_at. rewrite Hik. specialize (Hm4 i Hi Hik). lia.
        -- apply H1; lia.
Qed.
End Heap.
