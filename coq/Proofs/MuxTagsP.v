(* Lemmas for C11 (tag management of the multiplexed transports).  Model: Model/MuxTags.v. *)
From Scales Require Import Model.Base Model.MuxTags.
From Coq Require Import Permutation.
Local Open Scope Z_scope.

(* ---- lists ---------------------------------------------------------------------------------------- *)
Lemma memz_In x l : memz x l = true <-> In x l.
Proof.
  unfold memz. rewrite existsb_exists. split.
  - intros (y & Hy & E). apply Z.eqb_eq in E. subst. assumption.
  - intros H. exists x. split; [assumption | apply Z.eqb_refl].
Qed.

Lemma memz_false x l : memz x l = false <-> ~ In x l.
Proof.
  rewrite <- memz_In. destruct (memz x l); split; intros H.
  - discriminate.
  - exfalso. apply H. reflexivity.
  - discriminate.
  - reflexivity.
Qed.

Lemma perm_remz x l : In x l -> Permutation l (x :: remz x l).
Proof.
  induction l as [|y l IH]; intros H; [destruct H|]. cbn.
  destruct (Z.eqb_spec x y) as [E|N].
  - subst. apply Permutation_refl.
  - destruct H as [H|H]; [congruence|]. eapply Permutation_trans; [apply perm_skip, IH, H | apply perm_swap].
Qed.

Lemma In_remz x y l : In x (remz y l) -> In x l.
Proof.
  induction l as [|z l IH]; cbn; [tauto|]. destruct (y =? z); cbn; intros H; [tauto|]. destruct H; [left|right]; auto.
Qed.

Lemma remz_In_other x y l : In x l -> x <> y -> In x (remz y l).
Proof.
  induction l as [|z l IH]; cbn; [tauto|]. intros [E|H] N.
  - subst. destruct (Z.eqb_spec y x); [congruence| left; reflexivity].
  - destruct (y =? z); [assumption | right; auto].
Qed.

Lemma lookup_In {A} k (v : A) m : lookup k m = Some v -> In (k, v) m.
Proof.
  induction m as [|[k' v'] m IH]; cbn; [discriminate|].
  destruct (Z.eqb_spec k k') as [E|N]; intros H.
  - inversion H; subst. left; reflexivity.
  - right; auto.
Qed.

Lemma lookup_None {A} k (m : list (Z * A)) : lookup k m = None <-> ~ In k (keys m).
Proof.
  induction m as [|[k' v'] m IH]; cbn; [tauto|].
  destruct (Z.eqb_spec k k') as [E|N].
  - subst. split; [discriminate | intros H; exfalso; apply H; left; reflexivity].
  - rewrite IH. split; intros H; [intros [E|I]; [congruence | tauto] | tauto].
Qed.

Lemma In_keys {A} k (v : A) m : In (k, v) m -> In k (keys m).
Proof. intros H. unfold keys. change k with (fst (k, v)). apply in_map. assumption. Qed.

Lemma In_lookup {A} k (v : A) m : NoDup (keys m) -> In (k, v) m -> lookup k m = Some v.
Proof.
  induction m as [|[k' v'] m IH]; cbn; intros ND H; [destruct H|].
  inversion ND as [|? ? Hn ND']; subst.
  destruct H as [H|H].
  - inversion H; subst. rewrite Z.eqb_refl. reflexivity.
  - destruct (Z.eqb_spec k k') as [E|N]; [|auto].
    subst. exfalso. apply Hn. eapply In_keys; eassumption.
Qed.

Lemma keys_remove_key {A} k (m : list (Z * A)) : keys (remove_key k m) = remz k (keys m).
Proof.
  induction m as [|[k' v'] m IH]; cbn; [reflexivity|]. destruct (k =? k'); cbn; [reflexivity | f_equal; assumption].
Qed.

Lemma In_remove_key {A} (p : Z * A) k m : In p (remove_key k m) -> In p m.
Proof.
  induction m as [|[k' v'] m IH]; cbn; [tauto|]. destruct (k =? k'); cbn; intros H; [tauto|]. destruct H; [left|right]; auto.
Qed.

Lemma remove_key_In_other {A} k' (v : A) k m : In (k', v) m -> k' <> k -> In (k', v) (remove_key k m).
Proof.
  induction m as [|[k2 v2] m IH]; cbn; [tauto|]. intros [E|H] N.
  - inversion E; subst. destruct (Z.eqb_spec k k'); [congruence | left; reflexivity].
  - destruct (k =? k2); [assumption | right; auto].
Qed.

Lemma keys_app {A} (a b : list (Z * A)) : keys (a ++ b) = keys a ++ keys b.
Proof. apply map_app. Qed.

Lemma lookup_app {A} k (a b : list (Z * A)) :
  lookup k (a ++ b) = match lookup k a with Some v => Some v | None => lookup k b end.
Proof.
  induction a as [|[k' v'] a IH]; cbn; [reflexivity|]. destruct (k =? k'); [reflexivity | assumption].
Qed.

(* ---- call table ----------------------------------------------------------------------------------- *)
Lemma lookup_upd c0 c f m :
  lookup c0 (upd_call c f m) = match lookup c0 m with Some r => Some (if c =? c0 then f r else r) | None => None end.
Proof.
  induction m as [|[k v] m IH]; cbn; [reflexivity|].
  destruct (Z.eqb_spec c0 k) as [E|N]; [subst; reflexivity | assumption].
Qed.

Lemma lookup_upd_none c0 c f m : lookup c0 (upd_call c f m) = None <-> lookup c0 m = None.
Proof. rewrite lookup_upd. destruct (lookup c0 m); split; congruence. Qed.

(* an updater that keeps the connection and either keeps or clears the tag key *)
Definition tame (f : call -> call) : Prop :=
  forall r, c_conn (f r) = c_conn r /\ (c_tagkey (f r) = c_tagkey r \/ c_tagkey (f r) = None).

Lemma tame_clear : tame clear_tagkey. Proof. intros r. cbn. auto. Qed.
Lemma tame_sub : tame mark_sub. Proof. intros r. cbn. auto. Qed.
Lemma tame_fired : tame mark_fired. Proof. intros r. cbn. auto. Qed.
Lemma tame_notified : tame mark_notified. Proof. intros r. cbn. auto. Qed.

Lemma lookup_upd_tame c0 c f m r' :
  tame f -> lookup c0 (upd_call c f m) = Some r' ->
  exists r, lookup c0 m = Some r /\ c_conn r' = c_conn r /\ (c_tagkey r' = c_tagkey r \/ c_tagkey r' = None).
Proof.
  intros T H. rewrite lookup_upd in H. destruct (lookup c0 m) as [r|]; [|discriminate].
  exists r. split; [reflexivity|]. inversion H; subst. destruct (c =? c0); [apply T | auto].
Qed.

(* ---- the pool ------------------------------------------------------------------------------------- *)
Definition L (s : state) : list Z := p_free (pl s) ++ keys (tmap s).

Definition qreqs (q : list qentry) : list (Z * Z) :=
  flat_map (fun e => match e with QReq t c => [(t, c)] | _ => [] end) q.

Lemma qreqs_app a b : qreqs (a ++ b) = qreqs a ++ qreqs b.
Proof. apply flat_map_app. Qed.
Lemma qreqs_req t c q : qreqs (QReq t c :: q) = (t, c) :: qreqs q. Proof. reflexivity. Qed.
Lemma qreqs_discard w q : qreqs (QDiscard w :: q) = qreqs q. Proof. reflexivity. Qed.
Lemma qreqs_ping q : qreqs (QPing :: q) = qreqs q. Proof. reflexivity. Qed.
Lemma qreqs_nil : qreqs [] = []. Proof. reflexivity. Qed.
Lemma qreqs_cons e q : qreqs (e :: q) = qreqs [e] ++ qreqs q.
Proof. change (e :: q) with ([e] ++ q). apply qreqs_app. Qed.
Global Arguments qreqs : simpl never.

Definition written (evs : list event) : list Z :=
  flat_map (fun e => match e with EWritten KReq _ c => [c] | _ => [] end) evs.

Lemma written_app a b : written (a ++ b) = written a ++ written b.
Proof. apply flat_map_app. Qed.

(* ---- the state invariant --------------------------------------------------------------------------- *)
Record SInv (cf : cfg) (s : state) : Prop := {
  i_next : base cf <= p_next (pl s) <= max_tag cf - 1;
  i_range : forall t, In t (L s) -> base cf + 1 <= t <= p_next (pl s);
  i_nodup : NoDup (L s);
  i_cover : closed s = false -> forall t, base cf + 1 <= t <= p_next (pl s) -> In t (L s);
  i_count : closed s = false -> Z.of_nat (length (L s)) = p_next (pl s) - base cf;
  i_qrange : forall t c, In (t, c) (qreqs (sendq s)) -> base cf + 1 <= t <= p_next (pl s);
  i_key : closed s = false -> forall c r t,
      lookup c (calls s) = Some r -> c_conn r = conn s -> c_tagkey r = Some t -> In (t, c) (tmap s);
  i_qknown : forall t c, In (t, c) (qreqs (sendq s)) -> exists r, lookup c (calls s) = Some r /\ c_conn r = conn s;
  i_qkey : forall t c r t', In (t, c) (qreqs (sendq s)) -> lookup c (calls s) = Some r -> c_tagkey r = Some t' -> t' = t;
  i_mknown : forall t c, In (t, c) (tmap s) -> lookup c (calls s) <> None;
  i_closed : closed s = true -> tmap s = [] /\ qreqs (sendq s) = [];
  i_conn : forall c r, lookup c (calls s) = Some r -> c_conn r <= conn s;
  i_qnodup : NoDup (map snd (qreqs (sendq s)))
}.

Lemma SInv_init cf : base cf <= max_tag cf - 1 -> SInv cf (start cf).
Proof.
  intros H. constructor; cbn; try (intros; contradiction); try (intros; discriminate); try constructor; try lia.
Qed.

Lemma NoDup_app_parts {A} (a b : list A) :
  NoDup (a ++ b) -> NoDup a /\ NoDup b /\ (forall x, In x a -> In x b -> False).
Proof.
  induction a as [|x a IH]; cbn; intros H.
  - repeat split; [constructor | assumption | tauto].
  - inversion H as [|? ? Hn ND]; subst. destruct (IH ND) as (Ha & Hb & Hd). repeat split.
    + constructor; [|assumption]. intros Hx. apply Hn. apply in_or_app. left. assumption.
    + assumption.
    + intros y [E|Hy] Hyb; [subst; apply Hn; apply in_or_app; right; assumption | eapply Hd; eassumption].
Qed.

Lemma nodup_keys cf s : SInv cf s -> NoDup (keys (tmap s)).
Proof. intros I. pose proof (i_nodup _ _ I) as H. unfold L in H. apply NoDup_app_parts in H. tauto. Qed.

Lemma free_not_key cf s t : SInv cf s -> In t (keys (tmap s)) -> ~ In t (p_free (pl s)).
Proof.
  intros I Hk Hf. pose proof (i_nodup _ _ I) as H. unfold L in H. apply NoDup_app_parts in H.
  destruct H as (_ & _ & Hd). eapply Hd; eassumption.
Qed.

Lemma map_unique cf s t c c' : SInv cf s -> In (t, c) (tmap s) -> In (t, c') (tmap s) -> c = c'.
Proof.
  intros I H1 H2. pose proof (nodup_keys _ _ I) as ND.
  apply (In_lookup _ _ _ ND) in H1. apply (In_lookup _ _ _ ND) in H2. congruence.
Qed.

(* ---- primitive state changes preserve the state invariant ------------------------------------------ *)
Ltac simp_state := unfold set_calls, set_sendq, L in *; cbn [pl tmap sendq calls closed conn p_free p_next] in *.

Lemma SInv_upd_tame cf s c f : SInv cf s -> tame f -> SInv cf (set_calls s (upd_call c f (calls s))).
Proof.
  intros I T. destruct I. constructor; simp_state; try assumption.
  - intros Hc c0 r0 t0 Hl Hcn Hk. apply (lookup_upd_tame _ _ _ _ _ T) in Hl as (r & Hl & Ec & [Ek|Ek]); [|congruence].
    apply (i_key0 Hc c0 r t0); congruence.
  - intros t c0 Hq. destruct (i_qknown0 _ _ Hq) as (r & Hl & Hcn). rewrite lookup_upd, Hl. eexists. split; [reflexivity|].
    destruct (c =? c0); [rewrite (proj1 (T r))|]; assumption.
  - intros t c0 r0 t' Hq Hl Hk. apply (lookup_upd_tame _ _ _ _ _ T) in Hl as (r & Hl & Ec & [Ek|Ek]); [|congruence].
    apply (i_qkey0 t c0 r t' Hq Hl). congruence.
  - intros t c0 Hm. rewrite lookup_upd_none. eapply i_mknown0; eassumption.
  - intros c0 r0 Hl. apply (lookup_upd_tame _ _ _ _ _ T) in Hl as (r & Hl & Ec & _). rewrite Ec. eapply i_conn0; eassumption.
Qed.

Lemma incl_qreqs_tail e q : incl (qreqs q) (qreqs (e :: q)).
Proof. intros x H. rewrite qreqs_cons. apply in_or_app. right. assumption. Qed.

(* the queue shrinks to a part of itself *)
Lemma SInv_subqueue cf s q :
  SInv cf s -> incl (qreqs q) (qreqs (sendq s)) -> NoDup (map snd (qreqs q)) -> SInv cf (set_sendq s q).
Proof.
  intros I Hi Hn. destruct I. constructor; simp_state; try assumption.
  - intros t c H. eapply i_qrange0. apply Hi. eassumption.
  - intros t c H. eapply i_qknown0. apply Hi. eassumption.
  - intros t c r t' H. eapply i_qkey0. apply Hi. eassumption.
  - intros Hc. destruct (i_closed0 Hc) as [E1 E2]. split; [assumption|]. rewrite E2 in Hi.
    destruct (qreqs q) as [|x l]; [reflexivity|]. exfalso. apply (Hi x). left. reflexivity.
Qed.

Lemma SInv_tail cf s e q : SInv cf s -> sendq s = e :: q -> SInv cf (set_sendq s q).
Proof.
  intros I E. apply SInv_subqueue; [assumption| rewrite E; apply incl_qreqs_tail |].
  pose proof (i_qnodup _ _ I) as H. rewrite E, qreqs_cons, map_app in H. apply NoDup_app_parts in H. tauto.
Qed.

(* a discard or a ping joins the queue *)
Lemma SInv_push_other cf s e : SInv cf s -> qreqs [e] = [] -> SInv cf (set_sendq s (sendq s ++ [e])).
Proof.
  intros I E. assert (Q : qreqs (sendq s ++ [e]) = qreqs (sendq s)) by (rewrite qreqs_app, E, app_nil_r; reflexivity).
  destruct I. constructor; simp_state; try rewrite Q; assumption.
Qed.

Lemma release_tag_calls t s m :
  release_tag t (set_calls s m) = (fst (release_tag t s), set_calls (snd (release_tag t s)) m).
Proof. unfold release_tag, set_calls. cbn. destruct (lookup t (tmap s)); reflexivity. Qed.

(* _ReleaseTag(t) once the holder's Tag.KEY property has been taken away *)
Lemma SInv_release cf s t :
  SInv cf s ->
  (forall c r, lookup t (tmap s) = Some c -> lookup c (calls s) = Some r -> c_conn r = conn s -> c_tagkey r = None) ->
  SInv cf (snd (release_tag t s)).
Proof.
  intros I Hk. unfold release_tag. destruct (lookup t (tmap s)) as [c|] eqn:El; [|assumption]. cbn.
  assert (Hop : closed s = false).
  { destruct (closed s) eqn:Ec; [|reflexivity]. destruct (i_closed _ _ I Ec) as [E _]. rewrite E in El. discriminate. }
  pose proof (lookup_In _ _ _ El) as Hin. pose proof (In_keys _ _ _ Hin) as Hkey.
  pose proof (free_not_key _ _ _ I Hkey) as Hnf.
  unfold pool_release. rewrite (proj2 (memz_false _ _) Hnf). cbn [snd].
  assert (P : Permutation (L s) ((t :: p_free (pl s)) ++ keys (remove_key t (tmap s)))).
  { unfold L. rewrite keys_remove_key. cbn [app].
    eapply Permutation_trans; [apply Permutation_app_head, perm_remz, Hkey|]. apply Permutation_sym, Permutation_middle. }
  pose proof (nodup_keys _ _ I) as NDk.
  destruct I. constructor; simp_state; try assumption.
  - intros x Hx. apply i_range0. eapply Permutation_in; [apply Permutation_sym, P | exact Hx].
  - eapply Permutation_NoDup; [exact P | assumption].
  - intros _ x Hx. eapply Permutation_in; [exact P | apply (i_cover0 Hop x Hx)].
  - intros _. rewrite <- (i_count0 Hop). f_equal. apply Permutation_length, Permutation_sym, P.
  - intros _ c0 r0 t0 Hl Hcn Htk. pose proof (i_key0 Hop c0 r0 t0 Hl Hcn Htk) as Hm.
    apply remove_key_In_other; [assumption|]. intros E. subst t0.
    apply (In_lookup _ _ _ NDk) in Hm. rewrite El in Hm. inversion Hm; subst c0.
    rewrite (Hk c r0 eq_refl Hl Hcn) in Htk. discriminate.
  - intros t0 c0 Hm. apply In_remove_key in Hm. eapply i_mknown0; eassumption.
  - intros Hc. congruence.
Qed.

Lemma NoDup_snoc {A} (l : list A) x : NoDup l -> ~ In x l -> NoDup (l ++ [x]).
Proof.
  intros ND Hn. eapply Permutation_NoDup; [apply Permutation_cons_append|]. constructor; assumption.
Qed.

Lemma SInv_shutdown cf s : SInv cf s -> SInv cf (fst (do_shutdown s)).
Proof.
  intros I. unfold do_shutdown. destruct (closed s) eqn:Ec; [assumption|]. cbn [fst].
  destruct I. constructor; simp_state; unfold keys; cbn [map]; try rewrite app_nil_r; try rewrite qreqs_nil;
    try assumption; try (intros; discriminate); try (intros; contradiction).
  - intros t Ht. apply i_range0. apply in_or_app. left. assumption.
  - apply NoDup_app_parts in i_nodup0. tauto.
  - intros _. split; reflexivity.
  - constructor.
Qed.

Lemma SInv_reopen cf s : SInv cf s -> SInv cf (fst (do_reopen cf s)).
Proof.
  intros I. unfold do_reopen. destruct (closed s) eqn:Ec; [|assumption]. cbn [fst].
  destruct I. constructor; simp_state; unfold pool_at, keys; cbn [map app p_free p_next length]; try rewrite qreqs_nil;
    try assumption; try (intros; discriminate); try (intros; contradiction); try lia.
  - constructor.
  - intros _ c r t Hl Hcn _. pose proof (i_conn0 _ _ Hl). lia.
  - intros c r Hl. pose proof (i_conn0 _ _ Hl). lia.
  - constructor.
Qed.

Lemma SInv_openagain cf s : SInv cf s -> SInv cf (fst (do_openagain cf s)).
Proof.
  intros I. unfold do_openagain. destruct (closed s) eqn:Ec; [|assumption]. cbn [fst].
  assert (Q : qreqs (if kafka cf then [] else [QPing]) = []) by (destruct (kafka cf); reflexivity).
  destruct I. constructor; simp_state; unfold pool_at, keys; cbn [map app p_free p_next length]; try rewrite Q;
    try assumption; try (intros; discriminate); try (intros; contradiction); try lia.
  - constructor.
  - intros _. split; reflexivity.
  - constructor.
Qed.

Lemma lookup_snoc_new {A} c (r : A) m : lookup c m = None -> lookup c (m ++ [(c, r)]) = Some r.
Proof. intros H. rewrite lookup_app, H. cbn. rewrite Z.eqb_refl. reflexivity. Qed.

Lemma lookup_snoc_old {A} c0 c (r r0 : A) m : lookup c0 m = Some r0 -> lookup c0 (m ++ [(c, r)]) = Some r0.
Proof. intros H. rewrite lookup_app, H. reflexivity. Qed.

Lemma lookup_snoc_inv {A} c0 c (r r0 : A) m :
  lookup c0 (m ++ [(c, r)]) = Some r0 -> lookup c0 m = Some r0 \/ (lookup c0 m = None /\ c0 = c /\ r0 = r).
Proof.
  rewrite lookup_app. destruct (lookup c0 m); [auto|]. cbn. destruct (Z.eqb_spec c0 c); [|discriminate].
  intros H. inversion H. auto.
Qed.

(* a call that holds no tag is recorded *)
Lemma SInv_add_call cf s c r :
  SInv cf s -> lookup c (calls s) = None -> c_conn r = conn s -> c_tagkey r = None ->
  SInv cf (set_calls s (calls s ++ [(c, r)])).
Proof.
  intros I El Ecn Ek. destruct I. constructor; simp_state; try assumption.
  - intros Hc c0 r0 t0 Hl Hcn Htk. apply lookup_snoc_inv in Hl as [Hl|(_ & _ & E)]; [|congruence].
    eapply i_key0; eassumption.
  - intros t c0 Hq. destruct (i_qknown0 _ _ Hq) as (r0 & Hl & Hcn). exists r0. split; [|assumption].
    apply lookup_snoc_old. assumption.
  - intros t c0 r0 t' Hq Hl Htk. destruct (i_qknown0 _ _ Hq) as (r1 & Hl1 & _).
    rewrite (lookup_snoc_old _ _ _ _ _ Hl1) in Hl. inversion Hl; subst r1. eapply i_qkey0; eassumption.
  - intros t c0 Hm. pose proof (i_mknown0 _ _ Hm) as H. rewrite lookup_app. destruct (lookup c0 (calls s)); congruence.
  - intros c0 r0 Hl. apply lookup_snoc_inv in Hl as [Hl|(_ & _ & E)]; [eapply i_conn0; eassumption | subst; lia].
Qed.

(* AsyncProcessRequest obtained tag t: generic part *)
Lemma SInv_enqueue cf s c r t p' :
  SInv cf s -> closed s = false -> lookup c (calls s) = None -> c_conn r = conn s -> c_tagkey r = Some t ->
  base cf <= p_next p' <= max_tag cf - 1 -> p_next (pl s) <= p_next p' ->
  (forall x, In x (p_free p' ++ keys (tmap s) ++ [t]) -> base cf + 1 <= x <= p_next p') ->
  NoDup (p_free p' ++ keys (tmap s) ++ [t]) ->
  (forall x, base cf + 1 <= x <= p_next p' -> In x (p_free p' ++ keys (tmap s) ++ [t])) ->
  Z.of_nat (length (p_free p' ++ keys (tmap s) ++ [t])) = p_next p' - base cf ->
  SInv cf {| pl := p'; tmap := tmap s ++ [(t, c)]; sendq := sendq s ++ [QReq t c]; calls := calls s ++ [(c, r)];
             closed := false; conn := conn s |}.
Proof.
  intros I Hop El Ecn Ek H1 H2 H3 H4 H5 H6.
  assert (Q : qreqs (sendq s ++ [QReq t c]) = qreqs (sendq s) ++ [(t, c)]) by (rewrite qreqs_app; reflexivity).
  assert (K : keys (tmap s ++ [(t, c)]) = keys (tmap s) ++ [t]) by (apply keys_app).
  destruct I. constructor; simp_state; try rewrite K; try rewrite Q; try assumption; try (intros; assumption).
  - intros _ x Hx. apply H5. assumption.
  - intros t0 c0 Hq. apply in_app_or in Hq as [Hq|[E|[]]].
    + pose proof (i_qrange0 _ _ Hq). lia.
    + inversion E; subst. apply H3. apply in_or_app. right. apply in_or_app. right. left. reflexivity.
  - intros _ c0 r0 t0 Hl Hcn Htk. apply in_or_app. apply lookup_snoc_inv in Hl as [Hl|(_ & E1 & E2)].
    + left. eapply i_key0; eassumption.
    + right. subst. left. congruence.
  - intros t0 c0 Hq. apply in_app_or in Hq as [Hq|[E|[]]].
    + destruct (i_qknown0 _ _ Hq) as (r0 & Hl & Hcn). exists r0. split; [apply lookup_snoc_old|]; assumption.
    + inversion E; subst. exists r. split; [apply lookup_snoc_new|]; assumption.
  - intros t0 c0 r0 t' Hq Hl Htk. apply in_app_or in Hq as [Hq|[E|[]]].
    + destruct (i_qknown0 _ _ Hq) as (r1 & Hl1 & _).
      rewrite (lookup_snoc_old _ _ _ _ _ Hl1) in Hl. inversion Hl; subst r1. eapply i_qkey0; eassumption.
    + inversion E; subst. rewrite (lookup_snoc_new _ _ _ El) in Hl. inversion Hl; subst. congruence.
  - intros t0 c0 Hm. apply in_app_or in Hm as [Hm|[E|[]]].
    + pose proof (i_mknown0 _ _ Hm) as H. rewrite lookup_app. destruct (lookup c0 (calls s)); congruence.
    + inversion E; subst. rewrite (lookup_snoc_new _ _ _ El). discriminate.
  - intros; discriminate.
  - intros c0 r0 Hl. apply lookup_snoc_inv in Hl as [Hl|(_ & _ & E)]; [eapply i_conn0; eassumption | subst; lia].
  - rewrite map_app. cbn [map snd]. apply NoDup_snoc; [assumption|]. intros Hin.
    apply in_map_iff in Hin as ([t0 c0] & E & Hq). cbn in E. subst c0.
    destruct (i_qknown0 _ _ Hq) as (r0 & Hl & _). congruence.
Qed.

Lemma SInv_req cf s c dl pick : SInv cf s -> SInv cf (fst (do_req cf c dl pick s)).
Proof.
  intros I. unfold do_req. destruct (lookup c (calls s)) eqn:El; [assumption|].
  destruct (closed s) eqn:Ec.
  { cbn [fst]. apply SInv_add_call; auto. }
  unfold pool_get. destruct (p_free (pl s)) as [|f0 fr] eqn:Ef.
  - destruct (Z.eqb_spec (p_next (pl s)) (max_tag cf - 1)) as [E|N].
    { cbn [fst]. apply SInv_add_call; auto. }
    cbn [fst]. pose proof I as I'. destruct I'. unfold L in *. rewrite Ef in *. cbn [app] in *.
    apply SInv_enqueue; cbn [p_free p_next app]; auto; try lia.
    + intros x Hx. apply in_app_or in Hx as [Hx|[E|[]]]; [pose proof (i_range0 _ Hx); lia | lia].
    + apply NoDup_snoc; [assumption|]. intros Hx. pose proof (i_range0 _ Hx). lia.
    + intros x Hx. apply in_or_app. destruct (Z.eq_dec x (p_next (pl s) + 1)); [right; left; auto | left; apply i_cover0; auto; lia].
    + rewrite app_length. cbn [length]. specialize (i_count0 Ec). lia.
  - destruct (memz pick (p_free (pl s))) eqn:Em; rewrite Ef in Em; rewrite Em; [|assumption].
    cbn [fst]. rewrite <- Ef in *. apply memz_In in Em.
    assert (P : Permutation (remz pick (p_free (pl s)) ++ keys (tmap s) ++ [pick]) (L s)).
    { unfold L. rewrite app_assoc. eapply Permutation_trans; [apply Permutation_sym, Permutation_cons_append|].
      change (Permutation ((pick :: remz pick (p_free (pl s))) ++ keys (tmap s)) (p_free (pl s) ++ keys (tmap s))).
      apply Permutation_app_tail, Permutation_sym, perm_remz, Em. }
    pose proof I as I'. destruct I'.
    apply SInv_enqueue; cbn [p_free p_next]; auto; try lia.
    + intros x Hx. apply i_range0. eapply Permutation_in; eassumption.
    + eapply Permutation_NoDup; [apply Permutation_sym, P | assumption].
    + intros x Hx. eapply Permutation_in; [apply Permutation_sym, P | apply i_cover0; assumption].
    + rewrite <- (i_count0 Ec). f_equal. apply Permutation_length, P.
Qed.

Lemma SInv_write cf io s e : SInv cf s -> SInv cf (fst (do_write io s e)).
Proof. intros I. unfold do_write. destruct io; [assumption | apply SInv_shutdown; assumption]. Qed.

(* facts about the request at the head of the queue *)
Lemma head_facts cf s t c q :
  SInv cf s -> closed s = false -> sendq s = QReq t c :: q ->
  exists r, lookup c (calls s) = Some r /\ c_conn r = conn s /\
            (forall t', c_tagkey r = Some t' -> t' = t /\ lookup t (tmap s) = Some c).
Proof.
  intros I Hop E.
  assert (Hq : In (t, c) (qreqs (sendq s))) by (rewrite E, qreqs_req; left; reflexivity).
  destruct (i_qknown _ _ I _ _ Hq) as (r & Hl & Hcn). exists r. repeat split; try assumption.
  - eapply (i_qkey _ _ I); eassumption.
  - assert (t' = t) by (eapply (i_qkey _ _ I); eassumption). subst t'.
    apply In_lookup; [eapply nodup_keys; eassumption|]. eapply (i_key _ _ I); eassumption.
Qed.

Lemma SInv_send cf io s : SInv cf s -> SInv cf (fst (do_send io s)).
Proof.
  intros I. unfold do_send. destruct (closed s) eqn:Hop; [assumption|].
  destruct (sendq s) as [|[t c|w|] q] eqn:E; [assumption| | |].
  - pose proof (SInv_tail _ _ _ _ I E) as I1.
    destruct (head_facts _ _ _ _ _ I Hop E) as (r & Hl & Hcn & Hk).
    unfold get_call. replace (calls (set_sendq s q)) with (calls s) by reflexivity. rewrite Hl.
    destruct (c_ev r).
    + apply SInv_write. assumption.
    + apply SInv_write. apply (SInv_upd_tame _ _ c _ I1 tame_sub).
    + pose proof (SInv_upd_tame _ _ c _ I1 tame_clear) as I2.
      destruct (c_tagkey r) as [t'|] eqn:Ek; [|assumption].
      destruct (t' =? 0); [assumption|]. cbn [fst]. apply SInv_release; [assumption|].
      destruct (Hk t' eq_refl) as [Et Hlk]. subst t'.
      intros c' r' Hl' Hlc' _. simp_state. rewrite Hlk in Hl'. inversion Hl'; subst c'.
      rewrite lookup_upd, Hl, Z.eqb_refl in Hlc'. inversion Hlc'. reflexivity.
  - apply SInv_write. eapply SInv_tail; eassumption.
  - apply SInv_write. eapply SInv_tail; eassumption.
Qed.

Lemma SInv_fire cf c s : SInv cf s -> SInv cf (fst (do_fire c s)).
Proof.
  intros I. unfold do_fire. destruct (lookup c (calls s)) as [r|]; [|assumption].
  destruct ((c_conn r =? conn s) && _); [|assumption]. apply SInv_upd_tame; [assumption | apply tame_fired].
Qed.

Lemma SInv_notify cf c s : SInv cf s -> SInv cf (fst (do_notify cf c s)).
Proof.
  intros I. unfold do_notify. destruct (lookup c (calls s)) as [r|]; [|assumption].
  destruct ((c_conn r =? conn s) && c_notify r); [|assumption].
  pose proof (SInv_upd_tame _ _ c _ I tame_notified) as I1.
  destruct (c_sub r); [|assumption].
  pose proof (SInv_upd_tame _ _ c _ I1 tame_clear) as I2.
  destruct (c_tagkey r) as [t|]; [|assumption].
  destruct ((t =? 0) || kafka cf); [assumption|]. cbn [fst]. apply SInv_push_other; [assumption | reflexivity].
Qed.

Lemma SInv_tagged cf t s : SInv cf s -> SInv cf (fst (tagged_reply t s)).
Proof.
  intros I. unfold tagged_reply. destruct (release_tag t s) as [[c|] s1] eqn:Er; cbn [fst].
  - assert (Hl : lookup t (tmap s) = Some c).
    { unfold release_tag in Er. destruct (lookup t (tmap s)); inversion Er; reflexivity. }
    assert (E : set_calls s1 (upd_call c clear_tagkey (calls s1)) =
                snd (release_tag t (set_calls s (upd_call c clear_tagkey (calls s))))).
    { rewrite release_tag_calls, Er. cbn [snd fst]. f_equal. f_equal.
      unfold release_tag in Er. rewrite Hl in Er. inversion Er. reflexivity. }
    rewrite E. apply SInv_release; [apply SInv_upd_tame; [assumption | apply tame_clear]|].
    intros c' r' Hl' Hlc' _. simp_state. rewrite Hl in Hl'. inversion Hl'; subst c'.
    rewrite lookup_upd, Z.eqb_refl in Hlc'. destruct (lookup c (calls s)); inversion Hlc'. reflexivity.
  - unfold release_tag in Er. destruct (lookup t (tmap s)); inversion Er. subst. assumption.
Qed.

Lemma SInv_recv cf mt t s : SInv cf s -> SInv cf (fst (do_recv cf mt t s)).
Proof.
  intros I. unfold do_recv. destruct (kafka cf); [apply SInv_tagged; assumption|].
  destruct ((t =? 1) && (mt =? R_ping)); [assumption|].
  destruct (negb (t =? 0)); [apply SInv_tagged|]; assumption.
Qed.

Lemma SInv_ping cf s : SInv cf s -> SInv cf (fst (do_ping cf s)).
Proof.
  intros I. unfold do_ping. destruct (closed s || kafka cf); [assumption|]. cbn [fst].
  apply SInv_push_other; [assumption | reflexivity].
Qed.

Lemma SInv_step cf s l : SInv cf s -> SInv cf (fst (step cf s l)).
Proof.
  intros I. destruct l; cbn [step].
  - apply SInv_req; assumption.
  - apply SInv_send; assumption.
  - apply SInv_fire; assumption.
  - apply SInv_notify; assumption.
  - apply SInv_recv; assumption.
  - assumption.
  - apply SInv_ping; assumption.
  - apply SInv_shutdown; assumption.
  - apply SInv_reopen; assumption.
  - apply SInv_openagain; assumption.
Qed.

Lemma SInv_exec cf s ls : SInv cf s -> SInv cf (exec cf s ls).
Proof. revert s. induction ls as [|l ls IH]; intros s I; cbn; [assumption | apply IH, SInv_step, I]. Qed.

Lemma SInv_reach cf ls : base cf <= max_tag cf - 1 -> SInv cf (exec cf (start cf) ls).
Proof. intros H. apply SInv_exec, SInv_init, H. Qed.

(* ---- the trace invariant: what the observable events say about unanswered written requests --------- *)
Record TInv (s : state) (acc : list (Z * Z) * list Z) (wr : list Z) : Prop := {
  t_out : forall t c, In (t, c) (fst acc) -> In (t, c) (tmap s);
  t_q : forall t c, In (t, c) (qreqs (sendq s)) -> In (t, c) (tmap s) \/ In c (snd acc);
  t_uniq : NoDup (map fst (fst acc));
  t_qout : forall t c, In (t, c) (qreqs (sendq s)) -> ~ In c (map snd (fst acc));
  t_qwr : forall t c, In (t, c) (qreqs (sendq s)) -> ~ In c wr;
  t_wrknown : forall c, In c wr -> lookup c (calls s) <> None
}.

Lemma TInv_init cf : TInv (start cf) ([], []) [].
Proof. constructor; cbn; try (intros; contradiction). constructor. Qed.

Definition known_mono (s s' : state) : Prop := forall c, lookup c (calls s) <> None -> lookup c (calls s') <> None.

Lemma known_mono_refl s : known_mono s s. Proof. intros c H. assumption. Qed.
Lemma known_mono_upd s c f : known_mono s (set_calls s (upd_call c f (calls s))).
Proof. intros c0 H. simp_state. rewrite lookup_upd_none. assumption. Qed.
Lemma known_mono_snoc s c r : known_mono s (set_calls s (calls s ++ [(c, r)])).
Proof. intros c0 H. simp_state. rewrite lookup_app. destruct (lookup c0 (calls s)); congruence. Qed.
Lemma known_mono_sendq s q : known_mono s (set_sendq s q).
Proof. intros c H. exact H. Qed.
Lemma known_mono_trans a b c : known_mono a b -> known_mono b c -> known_mono a c.
Proof. intros H1 H2 x H. apply H2, H1, H. Qed.

Lemma TInv_weaken s s' acc wr :
  TInv s acc wr -> tmap s' = tmap s -> incl (qreqs (sendq s')) (qreqs (sendq s)) -> known_mono s s' -> TInv s' acc wr.
Proof.
  intros T Em Hi Hk. destruct T. constructor; try rewrite Em; try assumption.
  - intros t c H. apply t_q0, Hi, H.
  - intros t c H. eapply t_qout0, Hi, H.
  - intros t c H. eapply t_qwr0, Hi, H.
  - intros c H. apply Hk, t_wrknown0, H.
Qed.

Lemma NoDup_map_filter {A B} (f : A -> B) p l : NoDup (map f l) -> NoDup (map f (filter p l)).
Proof.
  induction l as [|x l IH]; cbn; intros H; [constructor|]. inversion H; subst.
  destruct (p x); cbn; [constructor|]; auto.
  intros Hin. apply H2. apply in_map_iff in Hin as (y & E & Hy). apply filter_In in Hy as [Hy _].
  rewrite <- E. apply in_map. assumption.
Qed.

Lemma In_map_filter {A B} (f : A -> B) p l x : In x (map f (filter p l)) -> In x (map f l).
Proof. intros H. apply in_map_iff in H as (y & E & Hy). apply filter_In in Hy as [Hy _]. rewrite <- E. apply in_map, Hy. Qed.

(* a call got its answer (or an error): it leaves [out] and joins [done] *)
Lemma TInv_answered s out done wr c :
  TInv s (out, done) wr -> TInv s (filter (fun p => negb (snd p =? c)) out, c :: done) wr.
Proof.
  intros T. destruct T. cbn [fst snd] in *. constructor; cbn [fst snd]; try assumption.
  - intros t0 c0 H. apply filter_In in H as [H _]. apply t_out0, H.
  - intros t0 c0 H. destruct (t_q0 _ _ H); [left | right; right]; assumption.
  - apply NoDup_map_filter. assumption.
  - intros t0 c0 H Hin. apply In_map_filter in Hin. eapply t_qout0; eassumption.
Qed.

Lemma empty_list {A} (l : list A) : (forall x, In x l -> False) -> l = [].
Proof. destruct l as [|x l]; [reflexivity|]. intros H. exfalso. apply (H x). left. reflexivity. Qed.

Lemma track_errors m : forall out done p,
  In p (fst (track_all (out, done) (map (fun tc : Z * Z => EError (snd tc) 1) m))) ->
  In p out /\ ~ In (snd p) (map snd m).
Proof.
  induction m as [|[t c] m IH]; intros out done p H; cbn in H; [tauto|].
  apply IH in H as [H1 H2]. apply filter_In in H1 as [H1 H3]. split; [assumption|].
  cbn. intros [E|Hin]; [|tauto]. rewrite <- E, Z.eqb_refl in H3. discriminate.
Qed.

Lemma written_errors m : written (map (fun tc : Z * Z => EError (snd tc) 1) m) = [].
Proof. induction m as [|x m IH]; [reflexivity | exact IH]. Qed.

Lemma TInv_shutdown cf s acc wr :
  SInv cf s -> TInv s acc wr ->
  TInv (fst (do_shutdown s)) (track_all acc (snd (do_shutdown s))) (wr ++ written (snd (do_shutdown s))).
Proof.
  intros I T. unfold do_shutdown. destruct (closed s) eqn:Ec; cbn [fst snd].
  { cbn. rewrite app_nil_r. assumption. }
  assert (W : written (EClosed :: map (fun tc : Z * Z => EError (snd tc) 1) (tmap s)) = []) by (apply written_errors).
  rewrite W, app_nil_r. destruct acc as [out done].
  assert (E : fst (track_all (out, done) (EClosed :: map (fun tc : Z * Z => EError (snd tc) 1) (tmap s))) = []).
  { apply empty_list. intros [t c] H. change (track_all (out, done) (EClosed :: ?l)) with (track_all (out, done) l) in H.
    apply track_errors in H as [H1 H2]. apply H2. change c with (snd (t, c)). apply in_map. apply (t_out _ _ _ T). exact H1. }
  destruct T. constructor; simp_state; try rewrite E; try rewrite qreqs_nil; try (intros; contradiction); try assumption.
  constructor.
Qed.

Lemma TInv_reopen cf s acc wr :
  SInv cf s -> TInv s acc wr -> TInv (fst (do_reopen cf s)) acc wr.
Proof.
  intros I T. unfold do_reopen. destruct (closed s) eqn:Ec; cbn [fst]; [|assumption].
  destruct (i_closed _ _ I Ec) as [Em _].
  assert (E : fst acc = []). { apply empty_list. intros [t c] H. apply (t_out _ _ _ T) in H. rewrite Em in H. destruct H. }
  destruct T. constructor; simp_state; try rewrite E; try rewrite qreqs_nil; try (intros; contradiction); try assumption.
  constructor.
Qed.

Lemma TInv_openagain cf s acc wr :
  SInv cf s -> TInv s acc wr ->
  TInv (fst (do_openagain cf s)) (track_all acc (snd (do_openagain cf s))) (wr ++ written (snd (do_openagain cf s))).
Proof.
  intros I T. unfold do_openagain. destruct (closed s) eqn:Ec; cbn [fst snd]; [|cbn; rewrite app_nil_r; assumption].
  destruct (i_closed _ _ I Ec) as [Em _].
  assert (E : fst acc = []). { apply empty_list. intros [t c] H. apply (t_out _ _ _ T) in H. rewrite Em in H. destruct H. }
  assert (Q : qreqs (if kafka cf then [] else [QPing]) = []) by (destruct (kafka cf); reflexivity).
  assert (A : track_all acc (if kafka cf then [] else [EEnq KPing 1 0]) = acc) by (destruct (kafka cf); destruct acc; reflexivity).
  assert (W : written (if kafka cf then [] else [EEnq KPing 1 0]) = []) by (destruct (kafka cf); reflexivity).
  rewrite A, W, app_nil_r.
  destruct T. constructor; simp_state; try rewrite E; try rewrite Q; try (intros; contradiction); try assumption.
  constructor.
Qed.

Lemma track_all_one acc e : track_all acc [e] = track acc e. Proof. reflexivity. Qed.

Lemma TInv_req cf s c dl pick acc wr :
  SInv cf s -> TInv s acc wr ->
  TInv (fst (do_req cf c dl pick s)) (track_all acc (snd (do_req cf c dl pick s))) (wr ++ written (snd (do_req cf c dl pick s))).
Proof.
  intros I T. unfold do_req. destruct (lookup c (calls s)) eqn:El.
  { cbn. rewrite app_nil_r. assumption. }
  destruct (closed s) eqn:Ec.
  { cbn [fst snd]. rewrite track_all_one. cbn [written flat_map app]. rewrite app_nil_r. destruct acc as [out done]. cbn [track].
    apply TInv_answered. eapply TInv_weaken; [eassumption | reflexivity | apply incl_refl | apply known_mono_snoc]. }
  destruct (pool_get (max_tag cf) pick (pl s)) as [t p'| |]; cbn [fst snd]; rewrite track_all_one; cbn [written flat_map app];
    rewrite app_nil_r.
  - assert (Hd : track acc (EEnq KReq t c) = acc) by (destruct acc; reflexivity). rewrite Hd.
    assert (Q : qreqs (sendq s ++ [QReq t c]) = qreqs (sendq s) ++ [(t, c)]) by (rewrite qreqs_app; reflexivity).
    destruct T. constructor; cbn [tmap sendq calls]; try rewrite Q; try assumption.
    + intros t0 c0 H. apply in_or_app. left. apply t_out0, H.
    + intros t0 c0 H. apply in_app_or in H as [H|[E|[]]].
      * destruct (t_q0 _ _ H); [left; apply in_or_app; left | right]; assumption.
      * inversion E; subst. left. apply in_or_app. right. left. reflexivity.
    + intros t0 c0 H. apply in_app_or in H as [H|[E|[]]]; [eapply t_qout0; eassumption|].
      inversion E; subst. intros Hin. apply in_map_iff in Hin as ([t1 c1] & E1 & H1). cbn in E1. subst c1.
      apply t_out0 in H1. apply (i_mknown _ _ I) in H1. congruence.
    + intros t0 c0 H. apply in_app_or in H as [H|[E|[]]]; [eapply t_qwr0; eassumption|].
      inversion E; subst. intros Hin. apply t_wrknown0 in Hin. congruence.
    + intros c0 H. apply t_wrknown0 in H. rewrite lookup_app. destruct (lookup c0 (calls s)); congruence.
  - assert (Hd : track acc (ERaise c) = acc) by (destruct acc; reflexivity). rewrite Hd.
    eapply TInv_weaken; [eassumption | reflexivity | apply incl_refl | apply known_mono_snoc].
  - assert (Hd : track acc EBadPick = acc) by (destruct acc; reflexivity). rewrite Hd. assumption.
Qed.

Lemma TInv_write_other cf io s acc wr e :
  SInv cf s -> TInv s acc wr -> track acc e = acc -> written [e] = [] ->
  TInv (fst (do_write io s e)) (track_all acc (snd (do_write io s e))) (wr ++ written (snd (do_write io s e))).
Proof.
  intros I T E W. unfold do_write. destruct io; [|apply (TInv_shutdown cf); assumption].
  cbn [fst snd]. rewrite track_all_one, E, W, app_nil_r. assumption.
Qed.

(* the request at the head of the queue is written *)
Lemma TInv_written cf s s1 t c q acc wr :
  SInv cf s -> TInv s acc wr -> sendq s = QReq t c :: q ->
  tmap s1 = tmap s -> sendq s1 = q -> known_mono s s1 ->
  TInv s1 (track acc (EWritten KReq t c)) (wr ++ [c]).
Proof.
  intros I T E Em Eq Hk.
  assert (Hq : In (t, c) (qreqs (sendq s))) by (rewrite E, qreqs_req; left; reflexivity).
  assert (Hi : incl (qreqs q) (qreqs (sendq s))) by (rewrite E; apply incl_qreqs_tail).
  assert (Hnc : ~ In c (map snd (qreqs q))).
  { pose proof (i_qnodup _ _ I) as H. rewrite E, qreqs_req in H. cbn [map snd] in H. inversion H. assumption. }
  assert (Hne : forall t1 c1, In (t1, c1) (qreqs q) -> c1 <> c).
  { intros t1 c1 H1 E1. subst c1. apply Hnc. change c with (snd (t1, c)). apply in_map. assumption. }
  destruct acc as [out done]. destruct T. cbn [fst snd] in *.
  assert (Hwk : forall c0, In c0 (wr ++ [c]) -> lookup c0 (calls s1) <> None).
  { intros c0 H. apply Hk. apply in_app_or in H as [H|[H|[]]]; [apply t_wrknown0, H|].
    subst c0. destruct (i_qknown _ _ I _ _ Hq) as (r & Hl & _). congruence. }
  assert (Hqw : forall t1 c1, In (t1, c1) (qreqs q) -> ~ In c1 (wr ++ [c])).
  { intros t1 c1 H1 H2. apply in_app_or in H2 as [H2|[H2|[]]]; [eapply t_qwr0; [apply Hi|]; eassumption|].
    symmetry in H2. eapply Hne; eassumption. }
  cbn [track]. destruct (memz c done) eqn:Ed.
  - constructor; cbn [fst snd]; try rewrite Em; try rewrite Eq; try assumption.
    + intros t1 c1 H. apply t_q0, Hi, H.
    + intros t1 c1 H. eapply t_qout0, Hi, H.
  - apply memz_false in Ed. destruct (t_q0 _ _ Hq) as [Hm|Hd]; [|contradiction].
    constructor; cbn [fst snd]; try rewrite Em; try rewrite Eq; try assumption.
    + intros t1 c1 H. apply in_app_or in H as [H|[H|[]]]; [apply t_out0, H | inversion H; subst; assumption].
    + intros t1 c1 H. apply t_q0, Hi, H.
    + rewrite map_app. cbn [map fst]. apply NoDup_snoc; [assumption|]. intros Hin.
      apply in_map_iff in Hin as ([t1 c1] & E1 & H1). cbn in E1. subst t1.
      pose proof (t_out0 _ _ H1) as H2. assert (c1 = c) by (eapply map_unique; eassumption). subst c1.
      apply (t_qout0 _ _ Hq). change c with (snd (t, c)). apply in_map. assumption.
    + intros t1 c1 H. rewrite map_app. cbn [map snd]. intros Hin. apply in_app_or in Hin as [Hin|[Hin|[]]].
      * eapply t_qout0; [apply Hi|]; eassumption.
      * symmetry in Hin. eapply Hne; eassumption.
Qed.

(* the tag of the unwritten request at the head of the queue is given back *)
Lemma TInv_pop_silent cf s s' t c q acc wr :
  SInv cf s -> TInv s acc wr -> sendq s = QReq t c :: q -> lookup t (tmap s) = Some c ->
  tmap s' = remove_key t (tmap s) -> sendq s' = q -> known_mono s s' -> TInv s' acc wr.
Proof.
  intros I T E Hl Em Eq Hk.
  assert (Hq : In (t, c) (qreqs (sendq s))) by (rewrite E, qreqs_req; left; reflexivity).
  assert (Hi : incl (qreqs q) (qreqs (sendq s))) by (rewrite E; apply incl_qreqs_tail).
  assert (Hnc : ~ In c (map snd (qreqs q))).
  { pose proof (i_qnodup _ _ I) as H. rewrite E, qreqs_req in H. cbn [map snd] in H. inversion H. assumption. }
  pose proof (lookup_In _ _ _ Hl) as Hin.
  destruct T. constructor; try rewrite Em; try rewrite Eq; try assumption.
  - intros t0 c0 H. pose proof (t_out0 _ _ H) as Hm. apply remove_key_In_other; [assumption|]. intros E0. subst t0.
    assert (c0 = c) by (eapply map_unique; eassumption). subst c0.
    apply (t_qout0 _ _ Hq). change c with (snd (t, c)). apply in_map. assumption.
  - intros t1 c1 H. destruct (t_q0 _ _ (Hi _ H)) as [Hm|Hd]; [left | right; assumption].
    apply remove_key_In_other; [assumption|]. intros E0. subst t1.
    assert (c1 = c) by (eapply map_unique; eassumption). subst c1.
    apply Hnc. change c with (snd (t, c)). apply in_map. assumption.
  - intros t1 c1 H. eapply t_qout0, Hi, H.
  - intros t1 c1 H. eapply t_qwr0, Hi, H.
  - intros c0 H. apply Hk, t_wrknown0, H.
Qed.

(* the peer names tag t, held by call c *)
Lemma TInv_pop_answer cf s s' t c out done wr :
  SInv cf s -> TInv s (out, done) wr -> lookup t (tmap s) = Some c ->
  tmap s' = remove_key t (tmap s) -> sendq s' = sendq s -> known_mono s s' ->
  TInv s' (filter (fun p => negb (snd p =? c)) out, c :: done) wr.
Proof.
  intros I T Hl Em Eq Hk. pose proof (lookup_In _ _ _ Hl) as Hin.
  destruct T. cbn [fst snd] in *. constructor; cbn [fst snd]; try rewrite Em; try rewrite Eq; try assumption.
  - intros t0 c0 H. apply filter_In in H as [H Hne]. cbn [snd] in Hne.
    pose proof (t_out0 _ _ H) as Hm. apply remove_key_In_other; [assumption|]. intros E0. subst t0.
    assert (c0 = c) by (eapply map_unique; eassumption). subst c0. rewrite Z.eqb_refl in Hne. discriminate.
  - intros t1 c1 H. destruct (t_q0 _ _ H) as [Hm|Hd]; [|right; right; assumption].
    destruct (Z.eq_dec t1 t) as [E0|N].
    + subst t1. assert (c1 = c) by (eapply map_unique; eassumption). subst c1. right. left. reflexivity.
    + left. apply remove_key_In_other; assumption.
  - apply NoDup_map_filter. assumption.
  - intros t1 c1 H Hi. apply In_map_filter in Hi. eapply t_qout0; eassumption.
  - intros c0 H. apply Hk, t_wrknown0, H.
Qed.

Lemma TInv_send cf io s acc wr :
  SInv cf s -> TInv s acc wr ->
  TInv (fst (do_send io s)) (track_all acc (snd (do_send io s))) (wr ++ written (snd (do_send io s))).
Proof.
  intros I T. unfold do_send. destruct (closed s) eqn:Hop.
  { cbn. rewrite app_nil_r. assumption. }
  destruct (sendq s) as [|[t c|w|] q] eqn:E.
  { cbn. rewrite app_nil_r. assumption. }
  - pose proof (SInv_tail _ _ _ _ I E) as I1.
    assert (Hi : incl (qreqs q) (qreqs (sendq s))) by (rewrite E; apply incl_qreqs_tail).
    assert (T1 : TInv (set_sendq s q) acc wr).
    { eapply TInv_weaken; [eassumption | reflexivity | exact Hi | apply known_mono_sendq]. }
    destruct (head_facts _ _ _ _ _ I Hop E) as (r & Hl & Hcn & Hk).
    unfold get_call. replace (calls (set_sendq s q)) with (calls s) by reflexivity. rewrite Hl.
    destruct (c_ev r).
    + unfold do_write. destruct io.
      * cbn [fst snd]. rewrite track_all_one. cbn [written flat_map app].
        apply (TInv_written cf s (set_sendq s q) t c q acc wr I T E eq_refl eq_refl). apply known_mono_sendq.
      * apply (TInv_shutdown cf); assumption.
    + unfold do_write. destruct io.
      * cbn [fst snd]. rewrite track_all_one. cbn [written flat_map app].
        apply (TInv_written cf s (set_calls (set_sendq s q) (upd_call c mark_sub (calls (set_sendq s q)))) t c q acc wr I T E eq_refl eq_refl).
        eapply known_mono_trans; [apply known_mono_sendq | exact (known_mono_upd (set_sendq s q) c _)].
      * apply (TInv_shutdown cf); [apply (SInv_upd_tame _ _ c _ I1 tame_sub)|].
        eapply TInv_weaken; [exact T1 | reflexivity | apply incl_refl | exact (known_mono_upd (set_sendq s q) c _)].
    + assert (T2 : TInv (set_calls (set_sendq s q) (upd_call c clear_tagkey (calls (set_sendq s q)))) acc wr).
      { eapply TInv_weaken; [exact T1 | reflexivity | apply incl_refl | exact (known_mono_upd (set_sendq s q) c _)]. }
      assert (Hd : track_all acc [EDropped t c] = acc) by (destruct acc; reflexivity).
      destruct (c_tagkey r) as [t'|] eqn:Ek.
      2:{ cbn [fst snd]. rewrite Hd. cbn. rewrite app_nil_r. assumption. }
      destruct (t' =? 0).
      { cbn [fst snd]. rewrite Hd. cbn. rewrite app_nil_r. assumption. }
      cbn [fst snd]. rewrite Hd. cbn [written flat_map app]. rewrite app_nil_r.
      destruct (Hk t' eq_refl) as [Et Hlk]. subst t'.
      eapply (TInv_pop_silent cf s _ t c q acc wr I T E Hlk).
      * unfold release_tag. simp_state. rewrite Hlk. reflexivity.
      * unfold release_tag. simp_state. rewrite Hlk. reflexivity.
      * unfold release_tag. simp_state. rewrite Hlk. cbn [snd]. intros c0 H. simp_state. rewrite lookup_upd_none. assumption.
  - apply (TInv_write_other cf); [eapply SInv_tail; eassumption | | destruct acc; reflexivity | reflexivity].
    eapply TInv_weaken; [eassumption | reflexivity | rewrite E; apply incl_qreqs_tail | apply known_mono_sendq].
  - apply (TInv_write_other cf); [eapply SInv_tail; eassumption | | destruct acc; reflexivity | reflexivity].
    eapply TInv_weaken; [eassumption | reflexivity | rewrite E; apply incl_qreqs_tail | apply known_mono_sendq].
Qed.

Lemma TInv_nil s acc wr : TInv s acc wr -> TInv s (track_all acc []) (wr ++ written []).
Proof. cbn. rewrite app_nil_r. auto. Qed.

Lemma TInv_fire c s acc wr :
  TInv s acc wr -> TInv (fst (do_fire c s)) (track_all acc (snd (do_fire c s))) (wr ++ written (snd (do_fire c s))).
Proof.
  intros T. unfold do_fire. destruct (lookup c (calls s)) as [r|]; [|apply TInv_nil, T].
  destruct ((c_conn r =? conn s) && _); [|apply TInv_nil, T]. cbn [fst snd]. apply TInv_nil.
  eapply TInv_weaken; [eassumption | reflexivity | apply incl_refl | apply known_mono_upd].
Qed.

Lemma TInv_notify cf c s acc wr :
  TInv s acc wr ->
  TInv (fst (do_notify cf c s)) (track_all acc (snd (do_notify cf c s))) (wr ++ written (snd (do_notify cf c s))).
Proof.
  intros T. unfold do_notify. destruct (lookup c (calls s)) as [r|]; [|apply TInv_nil, T].
  destruct ((c_conn r =? conn s) && c_notify r); [|apply TInv_nil, T].
  assert (T1 : TInv (set_calls s (upd_call c mark_notified (calls s))) acc wr).
  { eapply TInv_weaken; [eassumption | reflexivity | apply incl_refl | apply known_mono_upd]. }
  destruct (c_sub r); [|apply TInv_nil, T1].
  assert (T2 : TInv (set_calls (set_calls s (upd_call c mark_notified (calls s)))
                        (upd_call c clear_tagkey (calls (set_calls s (upd_call c mark_notified (calls s)))))) acc wr).
  { eapply TInv_weaken; [exact T1 | reflexivity | apply incl_refl | apply known_mono_upd]. }
  destruct (c_tagkey r) as [t|]; [|apply TInv_nil, T2].
  destruct ((t =? 0) || kafka cf); [apply TInv_nil, T2|].
  cbn [fst snd]. rewrite track_all_one. assert (Hd : track acc (EEnq KDiscard 0 t) = acc) by (destruct acc; reflexivity).
  rewrite Hd. cbn [written flat_map app]. rewrite app_nil_r.
  eapply TInv_weaken; [exact T2 | reflexivity | | intros c0 H; exact H].
  unfold set_sendq. cbn [sendq]. rewrite qreqs_app. cbn. rewrite app_nil_r. apply incl_refl.
Qed.

Lemma TInv_tagged cf t s acc wr :
  SInv cf s -> TInv s acc wr ->
  TInv (fst (tagged_reply t s)) (track_all acc (snd (tagged_reply t s))) (wr ++ written (snd (tagged_reply t s))).
Proof.
  intros I T. unfold tagged_reply, release_tag. destruct (lookup t (tmap s)) as [c|] eqn:Hl; cbn [fst snd]; [|apply TInv_nil, T].
  rewrite track_all_one. cbn [written flat_map app]. rewrite app_nil_r. destruct acc as [out done]. cbn [track].
  eapply (TInv_pop_answer cf s); try eassumption; try reflexivity.
  intros c0 H. simp_state. rewrite lookup_upd_none. assumption.
Qed.

Lemma TInv_recv cf mt t s acc wr :
  SInv cf s -> TInv s acc wr ->
  TInv (fst (do_recv cf mt t s)) (track_all acc (snd (do_recv cf mt t s))) (wr ++ written (snd (do_recv cf mt t s))).
Proof.
  intros I T. unfold do_recv. destruct (kafka cf); [apply (TInv_tagged cf); assumption|].
  destruct ((t =? 1) && (mt =? R_ping)); [apply TInv_nil, T|].
  destruct (negb (t =? 0)); [apply (TInv_tagged cf); assumption | apply TInv_nil, T].
Qed.

Lemma TInv_ping cf s acc wr :
  TInv s acc wr -> TInv (fst (do_ping cf s)) (track_all acc (snd (do_ping cf s))) (wr ++ written (snd (do_ping cf s))).
Proof.
  intros T. unfold do_ping. destruct (closed s || kafka cf); [apply TInv_nil, T|].
  cbn [fst snd]. rewrite track_all_one. assert (Hd : track acc (EEnq KPing 1 0) = acc) by (destruct acc; reflexivity).
  rewrite Hd. cbn [written flat_map app]. rewrite app_nil_r.
  eapply TInv_weaken; [exact T | reflexivity | | intros c0 H; exact H].
  unfold set_sendq. cbn [sendq]. rewrite qreqs_app. cbn. rewrite app_nil_r. apply incl_refl.
Qed.

Lemma TInv_step cf s l acc wr :
  SInv cf s -> TInv s acc wr ->
  TInv (fst (step cf s l)) (track_all acc (snd (step cf s l))) (wr ++ written (snd (step cf s l))).
Proof.
  intros I T. destruct l; cbn [step].
  - apply TInv_req; assumption.
  - apply (TInv_send cf); assumption.
  - apply TInv_fire; assumption.
  - apply TInv_notify; assumption.
  - apply TInv_recv; assumption.
  - apply TInv_nil, T.
  - apply TInv_ping; assumption.
  - apply (TInv_shutdown cf); assumption.
  - cbn. unfold do_reopen. destruct (closed s) eqn:Ec; cbn [fst snd]; apply TInv_nil.
    + pose proof (TInv_reopen cf s acc wr I T) as H. unfold do_reopen in H. rewrite Ec in H. exact H.
    + assumption.
  - apply TInv_openagain; assumption.
Qed.

Lemma trace_cons cf s l ls : trace cf s (l :: ls) = snd (step cf s l) ++ trace cf (fst (step cf s l)) ls.
Proof. reflexivity. Qed.

Lemma track_all_app acc a b : track_all acc (a ++ b) = track_all (track_all acc a) b.
Proof. apply fold_left_app. Qed.

Lemma TInv_exec cf ls : forall s acc wr,
  SInv cf s -> TInv s acc wr ->
  TInv (exec cf s ls) (track_all acc (trace cf s ls)) (wr ++ written (trace cf s ls)).
Proof.
  induction ls as [|l ls IH]; intros s acc wr I T.
  - cbn. rewrite app_nil_r. assumption.
  - rewrite trace_cons, track_all_app, written_app, app_assoc. cbn [exec].
    apply IH; [apply SInv_step, I | apply TInv_step; assumption].
Qed.

Lemma TInv_reach cf ls :
  base cf <= max_tag cf - 1 ->
  TInv (exec cf (start cf) ls) (track_all ([], []) (trace cf (start cf) ls)) (written (trace cf (start cf) ls)).
Proof.
  intros H. apply (TInv_exec cf ls (start cf) ([], []) []); [apply SInv_init, H | apply TInv_init].
Qed.

(* ---- what a step may write ------------------------------------------------------------------------ *)
Definition frame_ok (cf : cfg) (e : event) : Prop :=
  match e with
  | EWritten KReq t _ => 2 <= t <= max_tag cf - 1
  | EWritten KDiscard t _ => t = 0
  | EWritten KPing t _ => t = 1
  | _ => True
  end.

Lemma shutdown_frames cf s e : In e (snd (do_shutdown s)) -> frame_ok cf e.
Proof.
  unfold do_shutdown. destruct (closed s); cbn [snd]; [intros []|]. intros [E|H]; [subst; exact I|].
  apply in_map_iff in H as (x & E & _). subst. exact I.
Qed.

Lemma write_frames cf io s e0 e : frame_ok cf e0 -> In e (snd (do_write io s e0)) -> frame_ok cf e.
Proof.
  intros H0. unfold do_write. destruct io; [|apply shutdown_frames]. cbn. intros [E|[]]. subst. assumption.
Qed.

Lemma step_frames cf s l e : 1 <= base cf -> SInv cf s -> In e (snd (step cf s l)) -> frame_ok cf e.
Proof.
  intros Hb I. destruct l; cbn [step].
  - unfold do_req. destruct (lookup c (calls s)); [intros []|]. destruct (closed s); [intros [E|[]]; subst; exact Logic.I|].
    destruct (pool_get _ _ _); intros [E|[]]; subst; exact Logic.I.
  - unfold do_send. destruct (closed s) eqn:Hop; [intros []|]. destruct (sendq s) as [|[t c|w|] q] eqn:E; [intros []| | |].
    + assert (Hr : 2 <= t <= max_tag cf - 1).
      { assert (Hq : In (t, c) (qreqs (sendq s))) by (rewrite E, qreqs_req; left; reflexivity).
        pose proof (i_qrange _ _ I _ _ Hq). pose proof (i_next _ _ I). lia. }
      destruct (c_ev (get_call c (set_sendq s q))).
      * apply write_frames. exact Hr.
      * apply write_frames. exact Hr.
      * destruct (c_tagkey _) as [t'|]; [destruct (t' =? 0)|]; intros [E0|[]]; subst; exact Logic.I.
    + apply write_frames. reflexivity.
    + apply write_frames. reflexivity.
  - unfold do_fire. destruct (lookup c (calls s)) as [r|]; [|intros []]. destruct (_ && _); intros [].
  - unfold do_notify. destruct (lookup c (calls s)) as [r|]; [|intros []]. destruct (_ && _); [|intros []].
    destruct (c_sub r); [|intros []]. destruct (c_tagkey r) as [t|]; [|intros []].
    destruct (_ || _); [intros []|]. intros [E|[]]; subst; exact Logic.I.
  - assert (Ht : forall t, In e (snd (tagged_reply t s)) -> frame_ok cf e).
    { intros t. unfold tagged_reply. destruct (release_tag t s) as [[c|] s1]; [|intros []]. intros [E|[]]; subst; exact Logic.I. }
    unfold do_recv. destruct (kafka cf); [apply Ht|]. destruct (_ && _); [intros []|]. destruct (negb _); [apply Ht | intros []].
  - intros [].
  - unfold do_ping. destruct (_ || _); [intros []|]. intros [E|[]]; subst; exact Logic.I.
  - apply shutdown_frames.
  - unfold do_reopen. destruct (closed s); intros [].
  - unfold do_openagain. destruct (closed s); [|intros []]. destruct (kafka cf); [intros []|]. intros [E|[]]; subst; exact Logic.I.
Qed.

Lemma trace_frames cf ls : 1 <= base cf -> forall s e, SInv cf s -> In e (trace cf s ls) -> frame_ok cf e.
Proof.
  intros Hb. induction ls as [|l ls IH]; intros s e I H; [destruct H|].
  rewrite trace_cons in H. apply in_app_or in H as [H|H]; [eapply step_frames; eassumption|].
  eapply IH; [apply SInv_step, I | exact H].
Qed.

(* ---- where a tag can become free ------------------------------------------------------------------- *)
Lemma release_free t0 s t :
  In t (p_free (pl (snd (release_tag t0 s)))) -> In t (p_free (pl s)) \/ (t = t0 /\ lookup t0 (tmap s) <> None).
Proof.
  unfold release_tag. destruct (lookup t0 (tmap s)) as [c|]; cbn [snd pl]; [|auto].
  unfold pool_release. destruct (memz t0 (p_free (pl s))); cbn [snd p_free]; [auto|].
  intros [E|H]; [right; split; [auto | discriminate] | left; assumption].
Qed.

Lemma shutdown_pool s : pl (fst (do_shutdown s)) = pl s.
Proof. unfold do_shutdown. destruct (closed s); reflexivity. Qed.

Lemma write_pool io s e : pl (fst (do_write io s e)) = pl s.
Proof. unfold do_write. destruct io; [reflexivity | apply shutdown_pool]. Qed.

Lemma release_next t0 s : p_next (pl (snd (release_tag t0 s))) = p_next (pl s).
Proof.
  unfold release_tag. destruct (lookup t0 (tmap s)); cbn [snd pl]; [|reflexivity].
  unfold pool_release. destruct (memz _ _); reflexivity.
Qed.

Lemma tagged_free t0 s t :
  In t (p_free (pl (fst (tagged_reply t0 s)))) -> In t (p_free (pl s)) \/ (t = t0 /\ lookup t0 (tmap s) <> None).
Proof.
  unfold tagged_reply. pose proof (release_free t0 s t) as H. destruct (release_tag t0 s) as [[c|] s1]; cbn [fst snd] in *; exact H.
Qed.

Lemma tagged_next t0 s : p_next (pl (fst (tagged_reply t0 s))) = p_next (pl s).
Proof.
  unfold tagged_reply. pose proof (release_next t0 s) as H. destruct (release_tag t0 s) as [[c|] s1]; cbn [fst snd] in *; exact H.
Qed.

Lemma step_release_points cf s l t :
  SInv cf s ->
  In t (p_free (pl (fst (step cf s l)))) -> ~ In t (p_free (pl s)) ->
  (exists mt, l = Recv mt t /\ In t (keys (tmap s))) \/
  (exists io c q, l = SendStep io /\ sendq s = QReq t c :: q /\ c_ev (get_call c s) = Fired /\
                  lookup t (tmap s) = Some c /\ snd (step cf s l) = [EDropped t c]).
Proof.
  intros I H Hn. destruct l; cbn [step] in *.
  - exfalso. apply Hn. revert H. unfold do_req. destruct (lookup c (calls s)); [auto|]. destruct (closed s); [auto|].
    unfold pool_get. destruct (p_free (pl s)) as [|f0 fr] eqn:Ef.
    + destruct (_ =? _); cbn; rewrite ?Ef; tauto.
    + destruct (memz pick (f0 :: fr)); cbn [fst pl p_free]; [apply In_remz | rewrite ?Ef; auto].
  - right. revert H. unfold do_send. destruct (closed s) eqn:Hop; [contradiction|].
    destruct (sendq s) as [|[t0 c|w|] q] eqn:E; [contradiction| | |].
    + destruct (head_facts _ _ _ _ _ I Hop E) as (r & Hl & Hcn & Hk).
      unfold get_call. replace (calls (set_sendq s q)) with (calls s) by reflexivity. rewrite Hl.
      destruct (c_ev r) eqn:Eev.
      * rewrite write_pool. contradiction.
      * rewrite write_pool. contradiction.
      * destruct (c_tagkey r) as [t'|] eqn:Ek; [|contradiction]. destruct (t' =? 0); [contradiction|].
        cbn [fst snd]. intros H. apply release_free in H as [H|[Et _]]; [contradiction|].
        destruct (Hk t' eq_refl) as [Et' Hlk]. subst t' t0.
        exists io_ok, c, q. repeat split; try assumption. rewrite Hl. assumption.
    + rewrite write_pool. contradiction.
    + rewrite write_pool. contradiction.
  - exfalso. apply Hn. revert H. unfold do_fire. destruct (lookup c (calls s)); [|auto]. destruct (_ && _); auto.
  - exfalso. apply Hn. revert H. unfold do_notify. destruct (lookup c (calls s)) as [r|]; [|auto]. destruct (_ && _); [|auto].
    destruct (c_sub r); [|auto]. destruct (c_tagkey r); [|auto]. destruct (_ || _); auto.
  - left. exists mtype. revert H. unfold do_recv.
    assert (Ht : In t (p_free (pl (fst (tagged_reply tag s)))) -> Recv mtype tag = Recv mtype t /\ In t (keys (tmap s))).
    { intros H. apply tagged_free in H as [H|[Et Hl]]; [contradiction|]. subst tag. split; [reflexivity|].
      destruct (lookup t (tmap s)) eqn:El; [|congruence]. apply lookup_In in El. eapply In_keys; eassumption. }
    destruct (kafka cf); [exact Ht|]. destruct (_ && _); [contradiction|]. destruct (negb _); [exact Ht | contradiction].
  - contradiction.
  - exfalso. apply Hn. revert H. unfold do_ping. destruct (_ || _); auto.
  - rewrite shutdown_pool in H. contradiction.
  - exfalso. apply Hn. revert H. unfold do_reopen. destruct (closed s); cbn; tauto.
  - exfalso. apply Hn. revert H. unfold do_openagain. destruct (closed s); cbn; tauto.
Qed.

(* ---- when the high-water mark moves ---------------------------------------------------------------- *)
Lemma step_next cf s l :
  let s' := fst (step cf s l) in
  p_next (pl s') = p_next (pl s) \/
  (p_free (pl s) = [] /\ p_free (pl s') = [] /\ closed s = false /\ closed s' = false /\
   p_next (pl s') = p_next (pl s) + 1 /\ exists c dl pick, l = Req c dl pick) \/
  ((l = Reopen \/ l = OpenAgain) /\ p_next (pl s') = base cf).
Proof.
  destruct l; cbn [step].
  - unfold do_req. destruct (lookup c (calls s)); [auto|]. destruct (closed s) eqn:Ec; [auto|].
    unfold pool_get. destruct (p_free (pl s)) as [|f0 fr] eqn:Ef.
    + destruct (_ =? _); [auto|]. right. left. cbn. repeat split; eauto.
    + destruct (memz pick (f0 :: fr)); cbn; auto.
  - left. unfold do_send. destruct (closed s); [reflexivity|]. destruct (sendq s) as [|[t c|w|] q]; [reflexivity| | |].
    + destruct (c_ev _); try (rewrite write_pool; reflexivity).
      destruct (c_tagkey _) as [t'|]; [destruct (t' =? 0)|]; try reflexivity. cbn [fst]. rewrite release_next. reflexivity.
    + rewrite write_pool. reflexivity.
    + rewrite write_pool. reflexivity.
  - left. unfold do_fire. destruct (lookup c (calls s)); [|reflexivity]. destruct (_ && _); reflexivity.
  - left. unfold do_notify. destruct (lookup c (calls s)) as [r|]; [|reflexivity]. destruct (_ && _); [|reflexivity].
    destruct (c_sub r); [|reflexivity]. destruct (c_tagkey r); [|reflexivity]. destruct (_ || _); reflexivity.
  - left. unfold do_recv. destruct (kafka cf); [apply tagged_next|]. destruct (_ && _); [reflexivity|].
    destruct (negb _); [apply tagged_next | reflexivity].
  - auto.
  - left. unfold do_ping. destruct (_ || _); reflexivity.
  - left. rewrite shutdown_pool. reflexivity.
  - unfold do_reopen. destruct (closed s); cbn; auto.
  - unfold do_openagain. destruct (closed s); cbn; auto.
Qed.

Lemma peak_mono cf ls : forall s p, p <= peak cf s ls p.
Proof.
  induction ls as [|l ls IH]; intros s p; cbn; [lia|]. eapply Z.le_trans; [|apply IH]. lia.
Qed.

Lemma peak_next cf ls : forall s p,
  SInv cf s -> p_next (pl s) - base cf <= p -> p_next (pl (exec cf s ls)) - base cf <= peak cf s ls p.
Proof.
  induction ls as [|l ls IH]; intros s p I H; cbn [exec peak]; [assumption|].
  pose proof (SInv_step cf s l I) as I'. apply IH; [assumption|].
  destruct (step_next cf s l) as [E|[(_ & Ef & _ & Ec & En & _)|(_ & En)]].
  - lia.
  - pose proof (i_count _ _ I' Ec) as Hc. unfold L in Hc. rewrite Ef in Hc. cbn [app] in Hc.
    unfold keys in Hc. rewrite map_length in Hc. lia.
  - lia.
Qed.

(* ---- exhaustion -------------------------------------------------------------------------------------- *)
Lemma req_exhausted cf s c dl pick :
  lookup c (calls s) = None -> closed s = false -> p_free (pl s) = [] -> p_next (pl s) = max_tag cf - 1 ->
  exists r, step cf s (Req c dl pick) = (set_calls s (calls s ++ [(c, r)]), [ERaise c]) /\ c_tagkey r = None.
Proof.
  intros El Ec Ef En. cbn [step]. unfold do_req, pool_get. rewrite El, Ec, Ef, En, Z.eqb_refl. eexists. split; reflexivity.
Qed.

Lemma req_served cf s c dl pick :
  lookup c (calls s) = None -> closed s = false ->
  (p_free (pl s) = [] -> p_next (pl s) <> max_tag cf - 1) ->
  (p_free (pl s) <> [] -> In pick (p_free (pl s))) ->
  exists t, snd (step cf s (Req c dl pick)) = [EEnq KReq t c] /\
            (p_free (pl s) = [] -> t = p_next (pl s) + 1) /\ (p_free (pl s) <> [] -> t = pick).
Proof.
  intros El Ec Hf Hp. cbn [step]. unfold do_req, pool_get. rewrite El, Ec.
  destruct (p_free (pl s)) as [|f0 fr] eqn:Ef.
  - destruct (Z.eqb_spec (p_next (pl s)) (max_tag cf - 1)) as [E|N]; [exfalso; apply Hf; auto|].
    eexists. split; [reflexivity|]. split; [reflexivity | congruence].
  - assert (Hm : memz pick (f0 :: fr) = true) by (apply memz_In, Hp; discriminate).
    rewrite Hm. eexists. split; [reflexivity|]. split; [discriminate | reflexivity].
Qed.

(* n calls of get() on a pool with nothing released *)
Lemma get_many_spec mx n : forall r p,
  p_free p = [] -> p_next p <= mx - 1 ->
  iter_get mx n r p =
    (r || negb (Z.of_nat n <=? mx - 1 - p_next p), snd (get_many mx (Z.of_nat n) p)).
Proof.
  induction n as [|n IH]; intros r p Ef Hn.
  - cbn [iter_get]. unfold get_many. replace (Z.of_nat 0 <=? mx - 1 - p_next p) with true by (symmetry; apply Z.leb_le; lia).
    cbn [snd negb]. rewrite orb_false_r. f_equal. destruct p; cbn in *; subst. f_equal. lia.
  - cbn [iter_get]. unfold pool_get. rewrite Ef. destruct (Z.eqb_spec (p_next p) (mx - 1)) as [E|N].
    + rewrite IH by assumption. unfold get_many.
      replace (Z.of_nat (S n) <=? mx - 1 - p_next p) with false by (symmetry; apply Z.leb_gt; lia).
      cbn [negb snd]. rewrite orb_true_r. f_equal.
      destruct (Z.leb_spec (Z.of_nat n) (mx - 1 - p_next p)); cbn [snd]; f_equal; lia.
    + rewrite IH by (cbn; first [reflexivity | lia]). unfold get_many. cbn [p_next p_free].
      destruct (Z.leb_spec (Z.of_nat n) (mx - 1 - (p_next p + 1))); destruct (Z.leb_spec (Z.of_nat (S n)) (mx - 1 - p_next p));
        try lia; cbn [snd negb]; f_equal; f_equal; lia.
Qed.

Lemma exec_snoc cf ls l : forall s, exec cf s (ls ++ [l]) = fst (step cf (exec cf s ls) l).
Proof. induction ls as [|a ls IH]; intros s; cbn [app exec]; [reflexivity | apply IH]. Qed.
