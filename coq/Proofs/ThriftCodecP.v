(* Proofs for the framed-Thrift model (C14). *)
From Scales Require Import Model.Base Model.Bytes Model.ThriftCodec Proofs.BytesP.
From Coq Require Import ZifyBool.
Ltac Zify.zify_post_hook ::= Z.div_mod_to_equations.
Local Open Scope Z_scope.

(* ---- option-monad inversion ------------------------------------------------------------------- *)
Lemma obind_some {A B} (o : option A) (f : A -> option B) r :
  obind o f = Some r -> exists x, o = Some x /\ f x = Some r.
Proof. destruct o; cbn; intros H; [eauto|discriminate]. Qed.

Tactic Notation "inv_obind" hyp(H) "as" ident(x) ident(E) :=
  apply obind_some in H as (x & E & H).

(* ---- nested induction principle for tval ------------------------------------------------------- *)
Section TvalInd.
  Variable P : tval -> Prop.
  Hypothesis HBool : forall b, P (VBool b).
  Hypothesis HI16 : forall n, P (VI16 n).
  Hypothesis HI32 : forall n, P (VI32 n).
  Hypothesis HI64 : forall n, P (VI64 n).
  Hypothesis HStr : forall s, P (VStr s).
  Hypothesis HList : forall et vs, Forall P vs -> P (VList et vs).
  Hypothesis HStruct : forall fs, Forall (fun fv => P (snd fv)) fs -> P (VStruct fs).

  Fixpoint tval_ind2 (v : tval) : P v :=
    match v with
    | VBool b => HBool b
    | VI16 n => HI16 n
    | VI32 n => HI32 n
    | VI64 n => HI64 n
    | VStr s => HStr s
    | VList et vs =>
        HList et vs ((fix go (l : list tval) : Forall P l :=
                        match l with
                        | [] => Forall_nil _
                        | x :: r => Forall_cons _ (tval_ind2 x) (go r)
                        end) vs)
    | VStruct fs =>
        HStruct fs ((fix go (l : list (Z * tval)) : Forall (fun fv => P (snd fv)) l :=
                       match l with
                       | [] => Forall_nil _
                       | (i, x) :: r => Forall_cons (i, x) (tval_ind2 x) (go r)
                       end) fs)
    end.
End TvalInd.

(* ---- well-formed values and a size measure ------------------------------------------------------- *)
Section WfAux.
  Variable wf : tval -> Prop.
  Fixpoint wf_all (vs : list tval) : Prop :=
    match vs with [] => True | v :: r => wf v /\ wf_all r end.
  Fixpoint wf_fields (fs : list (Z * tval)) : Prop :=
    match fs with [] => True | (_, v) :: r => wf v /\ wf_fields r end.
End WfAux.

(* the only constraint beyond what the encoder itself checks: a list is homogeneous in its declared type *)
Fixpoint wf (v : tval) : Prop :=
  match v with
  | VList et vs => forallb (fun x => ttag x =? et) vs = true /\ wf_all wf vs
  | VStruct fs => wf_fields wf fs
  | _ => True
  end.

Section SizeAux.
  Variable size : tval -> nat.
  Fixpoint size_all (vs : list tval) : nat :=
    match vs with [] => O | v :: r => (size v + size_all r)%nat end.
  Fixpoint size_fields (fs : list (Z * tval)) : nat :=
    match fs with [] => O | (_, v) :: r => (size v + size_fields r)%nat end.
End SizeAux.

Fixpoint vsize (v : tval) : nat :=
  match v with
  | VList _ vs => S (size_all vsize vs)
  | VStruct fs => S (size_fields vsize fs)
  | _ => 1%nat
  end.

Lemma vsize_pos v : (1 <= vsize v)%nat.
Proof. destruct v; cbn; lia. Qed.

Lemma size_all_length vs : (length vs <= size_all vsize vs)%nat.
Proof. induction vs as [|v vs IH]; cbn; [lia|]. pose proof (vsize_pos v). lia. Qed.

Lemma size_fields_length fs : (length fs <= size_fields vsize fs)%nat.
Proof. induction fs as [|[i v] fs IH]; cbn; [lia|]. pose proof (vsize_pos v). lia. Qed.

(* ---- reading back fixed-width fields -------------------------------------------------------------- *)
Lemma read_be k n rest : read_n (Z.of_nat k) (be k n ++ rest) = Some (be k n, rest).
Proof. apply read_n_app. now rewrite len_be. Qed.

Lemma pack_read k n b rest : pack_s k n = Some b -> (0 < k)%nat ->
  read_n (Z.of_nat k) (b ++ rest) = Some (b, rest) /\ unpack_s k b = n.
Proof.
  intros H Hk. apply pack_s_some in H as [-> R]. split; [apply read_be|]. now apply unpack_s_be.
Qed.

Lemma ttag_range v : 0 < ttag v < 128.
Proof. destruct v; cbn; unfold T_BOOL, T_I16, T_I32, T_I64, T_STRING, T_LIST, T_STRUCT; lia. Qed.

Lemma ttag_not_stop v : (ttag v =? T_STOP) = false.
Proof. pose proof (ttag_range v). unfold T_STOP. lia. Qed.

Lemma unpack1 t : -128 <= t < 128 -> unpack_s 1 [t mod 256] = t.
Proof. intros H. change [t mod 256] with (be 1 t). apply unpack_s_be; [change (pow256 1 / 2) with 128; lia|lia]. Qed.

Lemma read1 (t : Z) rest : read_n 1 (t :: rest) = Some ([t], rest).
Proof. apply (read_n_app [t] rest 1). reflexivity. Qed.

(* ---- the decoder inverts the encoder ----------------------------------------------------------------- *)
Definition rt (v : tval) : Prop :=
  wf v -> forall b rest fuel, enc_val v = Some b -> (vsize v <= fuel)%nat ->
  dec_val fuel (ttag v) (b ++ rest) = Some (v, rest).

Lemma dec_elems_enc f et : forall vs, Forall rt vs -> wf_all wf vs ->
  forallb (fun x => ttag x =? et) vs = true ->
  forall n body rest, enc_elems enc_val vs = Some body ->
  (length vs <= n)%nat -> (size_all vsize vs <= f)%nat ->
  dec_elems (dec_val f) n et (Z.of_nat (length vs)) (body ++ rest) = Some (vs, rest).
Proof.
  induction vs as [|v vs IH]; intros HF Hwf Htag n body rest He Hn Hf.
  - cbn in He. inversion He; subst. destruct n; reflexivity.
  - inversion HF as [|? ? Hv HF']; subst. destruct Hwf as [Wv Wvs].
    cbn [forallb] in Htag. apply andb_true_iff in Htag as [Tv Tvs].
    cbn [enc_elems] in He. inv_obind He as a Ea. inv_obind He as b2 Eb. inversion He; subst; clear He.
    cbn [length size_all] in *. destruct n as [|n]; [lia|].
    cbn [dec_elems].
    replace (Z.of_nat (S (length vs)) <=? 0) with false by lia.
    rewrite <- app_assoc.
    assert (Et : et = ttag v) by lia. rewrite Et.
    rewrite (Hv Wv a (b2 ++ rest) f Ea) by lia. cbn [obind].
    replace (Z.of_nat (S (length vs)) - 1) with (Z.of_nat (length vs)) by lia.
    rewrite <- Et.
    rewrite (IH HF' Wvs Tvs n b2 rest Eb) by lia. reflexivity.
Qed.

Lemma dec_fields_enc f : forall fs, Forall (fun fv => rt (snd fv)) fs -> wf_fields wf fs ->
  forall n body rest, enc_fields enc_val fs = Some body ->
  (length fs < n)%nat -> (size_fields vsize fs <= f)%nat ->
  dec_fields (dec_val f) n (body ++ rest) = Some (fs, rest).
Proof.
  induction fs as [|[fid v] fs IH]; intros HF Hwf n body rest He Hn Hf.
  - cbn in He. inversion He; subst. destruct n as [|n]; [cbn in Hn; lia|].
    cbn [dec_fields app]. rewrite read1. cbn [obind]. reflexivity.
  - inversion HF as [|? ? Hv HF']; subst. cbn [snd] in Hv. destruct Hwf as [Wv Wfs].
    cbn [enc_fields] in He. inv_obind He as i Ei. inv_obind He as a Ea. inv_obind He as b2 Eb.
    inversion He; subst; clear He.
    cbn [length size_fields] in *. destruct n as [|n]; [lia|].
    cbn [dec_fields app]. rewrite read1. cbn [obind].
    pose proof (ttag_range v) as TR.
    replace (unpack_s 1 [ttag v]) with (ttag v)
      by (symmetry; rewrite <- (unpack1 (ttag v)) at 2 by lia; f_equal; f_equal; lia).
    rewrite ttag_not_stop.
    rewrite <- !app_assoc.
    destruct (pack_read 2 fid i (a ++ b2 ++ rest) Ei ltac:(lia)) as [R U].
    change (Z.of_nat 2) with 2 in R. rewrite R. cbn [obind].
    rewrite (Hv Wv a (b2 ++ rest) f Ea) by lia. cbn [obind].
    rewrite (IH HF' Wfs n b2 rest Eb) by lia. cbn [obind]. now rewrite U.
Qed.

Lemma dec_enc_val : forall v, rt v.
Proof.
  apply tval_ind2; unfold rt.
  - (* bool *) intros b _ bs rest fuel He Hf. cbn in He. inversion He; subst; clear He.
    destruct fuel as [|f]; [cbn in Hf; lia|]. cbn [dec_val ttag].
    change (T_BOOL =? T_BOOL) with true. cbn [app]. rewrite read1. cbn [obind].
    destruct b; reflexivity.
  - (* i16 *) intros n _ bs rest fuel He Hf. cbn [enc_val] in He.
    destruct fuel as [|f]; [cbn in Hf; lia|]. cbn [dec_val ttag].
    change (T_I16 =? T_BOOL) with false. change (T_I16 =? T_I16) with true. cbn [negb andb].
    destruct (pack_read 2 n bs rest He ltac:(lia)) as [R U]. change (Z.of_nat 2) with 2 in R.
    rewrite R. cbn [obind]. now rewrite U.
  - (* i32 *) intros n _ bs rest fuel He Hf. cbn [enc_val] in He.
    destruct fuel as [|f]; [cbn in Hf; lia|]. cbn [dec_val ttag].
    change (T_I32 =? T_BOOL) with false. change (T_I32 =? T_I16) with false. change (T_I32 =? T_I32) with true.
    destruct (pack_read 4 n bs rest He ltac:(lia)) as [R U]. change (Z.of_nat 4) with 4 in R.
    rewrite R. cbn [obind]. now rewrite U.
  - (* i64 *) intros n _ bs rest fuel He Hf. cbn [enc_val] in He.
    destruct fuel as [|f]; [cbn in Hf; lia|]. cbn [dec_val ttag].
    change (T_I64 =? T_BOOL) with false. change (T_I64 =? T_I16) with false. change (T_I64 =? T_I32) with false.
    change (T_I64 =? T_I64) with true.
    destruct (pack_read 8 n bs rest He ltac:(lia)) as [R U]. change (Z.of_nat 8) with 8 in R.
    rewrite R. cbn [obind]. now rewrite U.
  - (* string *) intros s _ bs rest fuel He Hf. cbn [enc_val] in He. inv_obind He as h Eh. inversion He; subst; clear He.
    destruct fuel as [|f]; [cbn in Hf; lia|]. cbn [dec_val ttag].
    change (T_STRING =? T_BOOL) with false. change (T_STRING =? T_I16) with false. change (T_STRING =? T_I32) with false.
    change (T_STRING =? T_I64) with false. change (T_STRING =? T_STRING) with true.
    rewrite <- app_assoc.
    destruct (pack_read 4 (len s) h (s ++ rest) Eh ltac:(lia)) as [R U]. change (Z.of_nat 4) with 4 in R.
    rewrite R. cbn [obind]. rewrite U. rewrite (read_n_app s rest) by reflexivity. reflexivity.
  - (* list *) intros et vs HF [Htag Hwf] bs rest fuel He Hf. cbn [enc_val] in He.
    inv_obind He as e Ee. inv_obind He as h Eh. inv_obind He as body Eb. inversion He; subst; clear He.
    cbn [vsize] in Hf. destruct fuel as [|f]; [lia|]. cbn [dec_val ttag].
    change (T_LIST =? T_BOOL) with false. change (T_LIST =? T_I16) with false. change (T_LIST =? T_I32) with false.
    change (T_LIST =? T_I64) with false. change (T_LIST =? T_STRING) with false. change (T_LIST =? T_LIST) with true.
    rewrite <- !app_assoc.
    destruct (pack_read 1 et e (h ++ body ++ rest) Ee ltac:(lia)) as [R1 U1]. change (Z.of_nat 1) with 1 in R1.
    rewrite R1. cbn [obind].
    destruct (pack_read 4 (Z.of_nat (length vs)) h (body ++ rest) Eh ltac:(lia)) as [R2 U2].
    change (Z.of_nat 4) with 4 in R2. rewrite R2. cbn [obind]. rewrite U1, U2.
    pose proof (size_all_length vs).
    rewrite (dec_elems_enc f et vs HF Hwf Htag f body rest Eb) by lia. reflexivity.
  - (* struct *) intros fs HF Hwf bs rest fuel He Hf. cbn [enc_val] in He. cbn [wf] in Hwf.
    cbn [vsize] in Hf. destruct fuel as [|f]; [lia|]. cbn [dec_val ttag].
    change (T_STRUCT =? T_BOOL) with false. change (T_STRUCT =? T_I16) with false. change (T_STRUCT =? T_I32) with false.
    change (T_STRUCT =? T_I64) with false. change (T_STRUCT =? T_STRING) with false. change (T_STRUCT =? T_LIST) with false.
    change (T_STRUCT =? T_STRUCT) with true.
    pose proof (size_fields_length fs).
    rewrite (dec_fields_enc f fs HF Hwf (S f) bs rest He) by lia. reflexivity.
Qed.

(* ---- enough fuel: the size measure is bounded by the encoded length ------------------------------------ *)
Lemma pack_s_length k n b : pack_s k n = Some b -> length b = k.
Proof. intros H. apply pack_s_some in H as [-> _]. apply be_length. Qed.

Lemma vsize_le_enc : forall v b, enc_val v = Some b -> (vsize v <= length b)%nat.
Proof.
  apply (tval_ind2 (fun v => forall b, enc_val v = Some b -> (vsize v <= length b)%nat)).
  - intros b bs H. cbn in H. inversion H. cbn. lia.
  - intros n bs H. cbn in H. apply pack_s_length in H. cbn. lia.
  - intros n bs H. cbn in H. apply pack_s_length in H. cbn. lia.
  - intros n bs H. cbn in H. apply pack_s_length in H. cbn. lia.
  - intros s bs H. cbn in H. inv_obind H as h Eh. inversion H; subst. apply pack_s_length in Eh.
    rewrite app_length. cbn. lia.
  - intros et vs HF bs H. cbn [enc_val] in H. inv_obind H as e Ee. inv_obind H as h Eh. inv_obind H as body Eb.
    inversion H; subst; clear H. apply pack_s_length in Ee, Eh. rewrite !app_length, Ee, Eh. cbn [vsize].
    enough (size_all vsize vs <= length body)%nat by lia. clear Ee Eh e h.
    revert body Eb. induction HF as [|v vs Hv HF IH]; intros body Eb; cbn in *.
    + lia.
    + inv_obind Eb as a Ea. inv_obind Eb as b2 E2. inversion Eb; subst. rewrite app_length.
      specialize (Hv _ Ea). specialize (IH _ E2). lia.
  - intros fs HF bs H. cbn [enc_val vsize] in *.
    enough (size_fields vsize fs < length bs)%nat by lia.
    revert bs H. induction HF as [|[fid v] fs Hv HF IH]; intros bs H; cbn [enc_fields size_fields] in *.
    + inversion H. cbn. lia.
    + cbn [snd] in Hv. inv_obind H as i Ei. inv_obind H as a Ea. inv_obind H as b2 E2. inversion H; subst.
      cbn [length]. rewrite !app_length. specialize (Hv _ Ea). specialize (IH _ E2). lia.
Qed.

Lemma dec_struct_enc fs body rest : wf (VStruct fs) -> enc_struct fs = Some body ->
  dec_struct (body ++ rest) = Some (fs, rest).
Proof.
  intros Hwf He. unfold dec_struct.
  pose proof (vsize_le_enc (VStruct fs) body He) as Hs.
  pose proof (dec_enc_val (VStruct fs) Hwf body rest (S (length (body ++ rest))) He) as D.
  cbn [ttag] in D. rewrite D; [reflexivity|]. rewrite app_length. lia.
Qed.

(* ---- message header: the version word, for every message type byte ------------------------------------- *)
Lemma range256 (P : Z -> bool) :
  forallb P (map Z.of_nat (seq 0 256)) = true -> forall t, 0 <= t < 256 -> P t = true.
Proof.
  intros H t Ht. rewrite forallb_forall in H. apply H.
  replace t with (Z.of_nat (Z.to_nat t)) by lia. apply in_map. apply in_seq. lia.
Qed.

Lemma version_word t : 0 <= t < 256 ->
  Z.lor VERSION_1 t = VERSION_1 + t /\
  Z.land (Z.lor VERSION_1 t) VERSION_MASK = VERSION_1 /\ Z.land (Z.lor VERSION_1 t) 255 = t.
Proof.
  intros Ht.
  pose proof (range256 (fun t => (Z.lor VERSION_1 t =? VERSION_1 + t)
                                 && (Z.land (Z.lor VERSION_1 t) VERSION_MASK =? VERSION_1)
                                 && (Z.land (Z.lor VERSION_1 t) 255 =? t)) ltac:(vm_compute; reflexivity) t Ht) as H.
  cbv beta in H. lia.
Qed.

Lemma enc_msg_some name mtype seq fs b : enc_msg name mtype seq fs = Some b -> 0 <= mtype < 256 ->
  exists body, enc_struct fs = Some body /\
    b = be 4 (VERSION_1 + mtype) ++ be 4 (len name) ++ name ++ be 4 seq ++ body /\
    len name < 2147483648 /\ -2147483648 <= seq < 2147483648.
Proof.
  intros H Ht. unfold enc_msg in H. inv_obind H as v Ev. inv_obind H as n En. inv_obind H as s Es.
  inv_obind H as body Eb. inversion H; subst; clear H.
  destruct (version_word mtype Ht) as (L & _ & _). rewrite L in Ev.
  apply pack_s_some in Ev as [-> _]. apply pack_s_some in En as [-> Rn]. apply pack_s_some in Es as [-> Rs].
  change (pow256 4 / 2) with 2147483648 in *.
  exists body. repeat split; try assumption; lia.
Qed.

Lemma dec_header_enc name mtype seq r :
  0 <= mtype < 256 -> len name < 2147483648 -> -2147483648 <= seq < 2147483648 ->
  dec_header (be 4 (VERSION_1 + mtype) ++ be 4 (len name) ++ name ++ be 4 seq ++ r) = Some (name, mtype, seq, r).
Proof.
  intros Ht Hn Hs. unfold dec_header. pose proof (len_nonneg name).
  change 4 with (Z.of_nat 4) at 1. rewrite read_be. cbn [obind].
  rewrite unpack_s_be by (change (pow256 4 / 2) with 2147483648; unfold VERSION_1; lia).
  destruct (version_word mtype Ht) as (L & M & T). rewrite <- L, M, T.
  replace (Z.lor VERSION_1 mtype <? 0) with true by (rewrite L; unfold VERSION_1; lia).
  rewrite Z.eqb_refl.
  change 4 with (Z.of_nat 4) at 1. rewrite read_be. cbn [obind].
  rewrite unpack_s_be by (change (pow256 4 / 2) with 2147483648; lia).
  rewrite (read_n_app name) by reflexivity. cbn [obind].
  change 4 with (Z.of_nat 4) at 1. rewrite read_be. cbn [obind].
  rewrite unpack_s_be by (change (pow256 4 / 2) with 2147483648; lia).
  reflexivity.
Qed.

Lemma dec_msg_enc name mtype seq fs b :
  enc_msg name mtype seq fs = Some b -> wf (VStruct fs) -> 0 <= mtype < 256 ->
  dec_msg b = Some (name, mtype, seq, VStruct fs).
Proof.
  intros H Hwf Ht. destruct (enc_msg_some _ _ _ _ _ H Ht) as (body & Eb & -> & Hn & Hs).
  unfold dec_msg, dec_msg_rest. rewrite dec_header_enc by assumption. cbn [obind].
  rewrite <- (app_nil_r body). rewrite (dec_struct_enc fs body [] Hwf Eb). reflexivity.
Qed.

(* ---- frame ------------------------------------------------------------------------------------------- *)
Lemma frame4_some p f : frame4 p = Some f -> f = be 4 (len p) ++ p /\ len p < 2147483648.
Proof.
  unfold frame4. intros H. inv_obind H as h Eh. inversion H; subst. apply pack_s_some in Eh as [-> R].
  change (pow256 4 / 2) with 2147483648 in R. split; [reflexivity|lia].
Qed.

Lemma frame4_total p : len p < 2147483648 -> frame4 p = Some (be 4 (len p) ++ p).
Proof.
  intros H. unfold frame4, pack_s. pose proof (len_nonneg p). change (pow256 4 / 2) with 2147483648.
  replace ((- (2147483648) <=? len p) && (len p <? 2147483648)) with true by lia. reflexivity.
Qed.

(* ---- chunked reads ----------------------------------------------------------------------------------- *)
Definition nonempty (c : bytes) : Prop := c <> [].

Lemma total_len_concat cs : total_len cs = len (concat cs).
Proof. induction cs as [|c cs IH]; cbn; [reflexivity|]. rewrite len_app. unfold total_len in IH. lia. Qed.

Lemma len_zero_nil (c : bytes) : len c = 0 -> c = [].
Proof. destruct c; cbn; [reflexivity|]. unfold len. cbn. lia. Qed.

Lemma take_app_ge (a b : bytes) n : len a <= n -> take n (a ++ b) = a ++ take (n - len a) b.
Proof.
  intros H. unfold take, len in *. rewrite firstn_app. rewrite firstn_all2 by lia.
  f_equal. f_equal. lia.
Qed.

Lemma take_app_le (a b : bytes) n : n <= len a -> take n (a ++ b) = take n a.
Proof.
  intros H. unfold take, len in *. rewrite firstn_app.
  replace (Z.to_nat n - length a)%nat with O by lia. cbn. apply app_nil_r.
Qed.

Lemma drop_app_ge (a b : bytes) n : len a <= n -> drop n (a ++ b) = drop (n - len a) b.
Proof.
  intros H. unfold drop, len in *. rewrite skipn_app. rewrite skipn_all2 by lia. cbn. f_equal. lia.
Qed.

Lemma drop_app_le (a b : bytes) n : n <= len a -> drop n (a ++ b) = drop n a ++ b.
Proof.
  intros H. unfold drop, len in *. rewrite skipn_app.
  replace (Z.to_nat n - length a)%nat with O by lia. reflexivity.
Qed.

Lemma take_zero (l : bytes) n : n <= 0 -> take n l = [].
Proof. intros H. unfold take. replace (Z.to_nat n) with O by lia. reflexivity. Qed.

Lemma drop_zero (l : bytes) n : n <= 0 -> drop n l = l.
Proof. intros H. unfold drop. replace (Z.to_nat n) with O by lia. reflexivity. Qed.

Lemma len_drop (l : bytes) n : 0 <= n <= len l -> len (drop n l) = len l - n.
Proof. intros H. unfold drop, len in *. rewrite skipn_length. lia. Qed.

Lemma read_loop_zero cs acc need : need <= 0 -> read_loop need acc cs = RDone acc cs.
Proof. intros H. destruct cs; cbn; replace (need <=? 0) with true by lia; reflexivity. Qed.

(* the loop returns exactly the first [need] bytes of the stream, whatever the chunking *)
Lemma read_loop_spec : forall pre post need acc,
  Forall nonempty pre -> 0 <= need <= total_len pre ->
  exists pre', read_loop need acc (pre ++ post) = RDone (acc ++ take need (concat pre)) (pre' ++ post)
    /\ concat pre' = drop need (concat pre) /\ Forall nonempty pre'.
Proof.
  induction pre as [|c r IH]; intros post need acc HF Hn.
  - cbn in Hn. exists []. cbn [app concat]. rewrite read_loop_zero by lia.
    rewrite take_zero by lia. rewrite drop_zero by lia. rewrite app_nil_r. repeat split. constructor.
  - inversion HF as [|? ? Hc HF']; subst. cbn [total_len fold_right] in Hn. fold (total_len r) in Hn.
    assert (Lc : 0 < len c). { pose proof (len_nonneg c). destruct (Z.eq_dec (len c) 0) as [E|E]; [|lia].
      apply len_zero_nil in E. contradiction. }
    cbn [app read_loop concat].
    destruct (Z.leb_spec need 0) as [Z0|Z0].
    + exists (c :: r). rewrite take_zero by lia. rewrite drop_zero by lia. rewrite app_nil_r.
      repeat split. assumption.
    + replace (len c =? 0) with false by lia.
      destruct (Z.leb_spec (len c) need) as [L|L].
      * destruct (IH post (need - len c) (acc ++ c) HF' ltac:(lia)) as (pre' & E & Cc & Fp).
        exists pre'. rewrite E. rewrite take_app_ge by lia. rewrite drop_app_ge by lia.
        rewrite <- app_assoc. repeat split; assumption.
      * exists (drop need c :: r). rewrite take_app_le by lia. rewrite drop_app_le by lia.
        cbn [concat app]. repeat split.
        constructor; [|assumption]. unfold nonempty. intros E.
        pose proof (len_drop c need ltac:(lia)) as LD. rewrite E in LD. cbn in LD. lia.
Qed.

(* a 0-byte read (or the end of the script) before [need] bytes have arrived is EOFError *)
Lemma read_loop_eof : forall pre need acc,
  Forall nonempty pre -> total_len pre < need ->
  read_loop need acc pre = REof /\ forall post, read_loop need acc (pre ++ [] :: post) = REof.
Proof.
  induction pre as [|c r IH]; intros need acc HF Hn.
  - cbn in Hn. cbn [app read_loop]. replace (need <=? 0) with false by lia. split; [reflexivity|intros; reflexivity].
  - inversion HF as [|? ? Hc HF']; subst. cbn [total_len fold_right] in Hn. fold (total_len r) in Hn.
    assert (Lc : 0 < len c). { pose proof (len_nonneg c). destruct (Z.eq_dec (len c) 0) as [E|E]; [|lia].
      apply len_zero_nil in E. contradiction. }
    assert (0 <= total_len r) by (rewrite total_len_concat; apply len_nonneg).
    cbn [app read_loop].
    replace (need <=? 0) with false by lia. replace (len c =? 0) with false by lia.
    replace (len c <=? need) with true by lia.
    apply IH; [assumption|lia].
Qed.

Lemma be4_unpack n : 0 <= n < 2147483648 -> unpack_s 4 (be 4 n) = n.
Proof. intros H. apply unpack_s_be; [change (pow256 4 / 2) with 2147483648; lia|lia]. Qed.

(* a whole frame, any chunking, anything behind it: the payload comes out and exactly 4+sz bytes are consumed *)
Lemma recv_frame_chunked varz p f extra cs :
  frame4 p = Some f -> Forall nonempty cs -> concat cs = f ++ extra ->
  exists cs', recv_frame varz cs = FPayload p cs' /\ concat cs' = extra /\ Forall nonempty cs'.
Proof.
  intros Hf HF Hc. apply frame4_some in Hf as [-> Lp]. pose proof (len_nonneg p) as Lp0.
  pose proof (len_nonneg extra) as Le0.
  assert (TL : total_len cs = 4 + len p + len extra).
  { rewrite total_len_concat, Hc, !len_app, len_be. lia. }
  unfold recv_frame, read_all.
  replace (varz && (4 <? 0)) with false by (destruct varz; reflexivity).
  destruct (read_loop_spec cs [] 4 [] HF ltac:(lia)) as (cs1 & E1 & C1 & F1).
  rewrite !app_nil_r in E1. rewrite E1. cbn [app].
  rewrite Hc in *. rewrite <- app_assoc in *.
  replace (take 4 (be 4 (len p) ++ p ++ extra)) with (be 4 (len p))
    by (symmetry; apply (take_app_exact (be 4 (len p)))).
  replace (drop 4 (be 4 (len p) ++ p ++ extra)) with (p ++ extra) in C1
    by (symmetry; apply (drop_app_exact (be 4 (len p)))).
  rewrite be4_unpack by lia.
  replace (varz && (len p <? 0)) with false by (destruct varz; cbn; lia).
  assert (TL1 : total_len cs1 = len p + len extra) by (rewrite total_len_concat, C1, len_app; lia).
  destruct (read_loop_spec cs1 [] (len p) [] F1 ltac:(lia)) as (cs2 & E2 & C2 & F2).
  rewrite !app_nil_r in E2. rewrite E2. cbn [app]. rewrite C1 in *.
  rewrite take_app_exact. rewrite drop_app_exact in C2.
  exists cs2. repeat split; assumption.
Qed.

(* the stream stops (0-byte read) strictly inside the frame: EOFError, never a payload *)
Lemma recv_frame_eof varz p f pre more post :
  frame4 p = Some f -> Forall nonempty pre -> concat pre ++ more = f -> more <> [] ->
  recv_frame varz (pre ++ [] :: post) = FEof /\ recv_frame varz pre = FEof.
Proof.
  intros Hf HF Hc Hm. apply frame4_some in Hf as [-> Lp]. pose proof (len_nonneg p) as Lp0.
  assert (Lm : 0 < len more).
  { pose proof (len_nonneg more). destruct (Z.eq_dec (len more) 0) as [E|E]; [|lia].
    apply len_zero_nil in E. contradiction. }
  assert (TL : total_len pre + len more = 4 + len p).
  { rewrite total_len_concat. rewrite <- len_app, Hc, len_app, len_be. lia. }
  unfold recv_frame, read_all.
  replace (varz && (4 <? 0)) with false by (destruct varz; reflexivity).
  destruct (Z.lt_ge_cases (total_len pre) 4) as [S4|G4].
  - destruct (read_loop_eof pre 4 [] HF S4) as [E1 E2]. rewrite E1, E2. split; reflexivity.
  - assert (H4 : take 4 (concat pre) = be 4 (len p)).
    { rewrite <- (take_app_le (concat pre) more) by (rewrite <- total_len_concat; lia).
      rewrite Hc. apply (take_app_exact (be 4 (len p))). }
    assert (TLd : len (drop 4 (concat pre)) < len p).
    { rewrite len_drop by (rewrite <- total_len_concat; lia). rewrite <- total_len_concat. lia. }
    split.
    + destruct (read_loop_spec pre ([] :: post) 4 [] HF ltac:(lia)) as (cs1 & E1 & C1 & F1).
      rewrite E1. cbn [app]. rewrite H4, be4_unpack by lia.
      replace (varz && (len p <? 0)) with false by (destruct varz; cbn; lia).
      destruct (read_loop_eof cs1 (len p) [] F1 ltac:(rewrite total_len_concat, C1; lia)) as [_ E2].
      rewrite E2. reflexivity.
    + destruct (read_loop_spec pre [] 4 [] HF ltac:(lia)) as (cs1 & E1 & C1 & F1).
      rewrite !app_nil_r in E1. rewrite E1. cbn [app]. rewrite H4, be4_unpack by lia.
      replace (varz && (len p <? 0)) with false by (destruct varz; cbn; lia).
      destruct (read_loop_eof cs1 (len p) [] F1 ltac:(rewrite total_len_concat, C1; lia)) as [E2 _].
      rewrite E2. reflexivity.
Qed.

(* ---- the decision ladder -------------------------------------------------------------------------- *)
Lemma lookup_nil fid ty : lookup fid ty [] = None.
Proof. reflexivity. Qed.

Lemma lookup_single fid ty i v :
  lookup fid ty [(i, v)] = if (i =? fid) && (ttag v =? ty) then Some v else None.
Proof. reflexivity. Qed.

Lemma lookup_in fid ty fs v : lookup fid ty fs = Some v -> In (fid, v) fs /\ ttag v = ty.
Proof.
  induction fs as [|[i x] fs IH]; cbn [lookup]; [discriminate|].
  destruct (lookup fid ty fs) as [y|] eqn:E.
  - intros H. inversion H; subst. destruct (IH eq_refl) as [A B]. split; [right; assumption|assumption].
  - destruct ((i =? fid) && (ttag x =? ty)) eqn:C; [|discriminate].
    intros H. inversion H; subst. apply andb_true_iff in C as [C1 C2].
    split; [left; f_equal; lia|lia].
Qed.

Lemma first_exc_nil excs : first_exc excs [] = FNone.
Proof. induction excs as [|[[fid ty]|] r IH]; cbn; assumption || reflexivity. Qed.

Lemma first_exc_single excs fid e : ttag e = T_STRUCT -> In (Some (fid, T_STRUCT)) excs ->
  first_exc excs [(fid, e)] = FFound fid e.
Proof.
  intros Ht. induction excs as [|[[f' t']|] r IH]; intros Hin; [contradiction| |].
  - cbn [first_exc]. rewrite lookup_single.
    destruct ((fid =? f') && (ttag e =? t')) eqn:C.
    + apply andb_true_iff in C as [C1 C2]. f_equal. lia.
    + apply IH. destruct Hin as [E|Hin]; [|assumption]. inversion E; subst. rewrite Ht, !Z.eqb_refl in C. discriminate.
  - cbn [first_exc]. apply IH. destruct Hin as [E|Hin]; [discriminate|assumption].
Qed.

Lemma classify_reply svc name mtype seq fs b rs :
  enc_msg name mtype seq fs = Some b -> wf (VStruct fs) -> 0 <= mtype < 256 -> mtype <> M_EXCEPTION ->
  find_result svc name = Some rs ->
  classify svc b = ladder rs name fs.
Proof.
  intros H Hwf Ht Hx Hr. destruct (enc_msg_some _ _ _ _ _ H Ht) as (body & Eb & -> & Hn & Hs).
  unfold classify. rewrite dec_header_enc by assumption.
  replace (mtype =? M_EXCEPTION) with false by lia. rewrite Hr.
  rewrite <- (app_nil_r body). rewrite (dec_struct_enc fs body [] Hwf Eb). reflexivity.
Qed.

Lemma classify_exception svc name seq fs b :
  enc_msg name M_EXCEPTION seq fs = Some b -> wf (VStruct fs) ->
  classify svc b = OError (app_of fs).
Proof.
  intros H Hwf. assert (Ht : 0 <= M_EXCEPTION < 256) by (unfold M_EXCEPTION; lia).
  destruct (enc_msg_some _ _ _ _ _ H Ht) as (body & Eb & -> & Hn & Hs).
  unfold classify. rewrite dec_header_enc by assumption. rewrite Z.eqb_refl.
  rewrite <- (app_nil_r body). rewrite (dec_struct_enc fs body [] Hwf Eb). reflexivity.
Qed.

(* whatever the payload: a value reaches the caller only as the success field of a non-EXCEPTION reply *)
Lemma classify_value_sound svc p v : classify svc p = OValue v ->
  exists name mtype seq r rs fs rest fid ty,
    dec_header p = Some (name, mtype, seq, r) /\ mtype <> M_EXCEPTION /\
    find_result svc name = Some rs /\ dec_struct r = Some (fs, rest) /\
    success_slot rs = Some (fid, ty) /\ lookup fid ty fs = Some v.
Proof.
  unfold classify. destruct (dec_header p) as [[[[name mtype] seq] r]|] eqn:Eh; [|discriminate].
  destruct (Z.eqb_spec mtype M_EXCEPTION) as [Ex|Nx].
  - destruct (dec_struct r) as [[fs rest]|]; discriminate.
  - destruct (find_result svc name) as [rs|] eqn:Er; [|discriminate].
    destruct (dec_struct r) as [[fs rest]|] eqn:Ed; [|discriminate].
    unfold ladder. destruct (success_slot rs) as [[fid ty]|] eqn:Es.
    + destruct (lookup fid ty fs) as [x|] eqn:El.
      * intros H. inversion H; subst. exists name, mtype, seq, r, rs, fs, rest, fid, ty. repeat split; assumption.
      * destruct (first_exc (tl rs) fs); discriminate.
    + destruct (first_exc (tl rs) fs); discriminate.
Qed.

Lemma wrap_return o v : wrap o = CReturn (Some v) -> o = OValue v.
Proof. destruct o as [x| |e]; cbn; intros H; try discriminate; [now inversion H|destruct e; discriminate]. Qed.

Lemma wrap_error_raises e : exists w, wrap_exn e = CRaise w e.
Proof. destruct e; cbn; eauto. Qed.
