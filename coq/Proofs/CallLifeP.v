(* Proofs about the call-life model (C01). *)
From Scales Require Import Model.Base Model.CallLife.
From Coq Require Import ZifyBool.
Ltac Zify.zify_post_hook ::= Z.div_mod_to_equations.
Local Open Scope Z_scope.

Lemma ceil_r_ge r d : 0 < r -> d <= ceil_r r d.
Proof. intros H. unfold ceil_r. lia. Qed.

Lemma ceil_r_lt r d : 0 < r -> ceil_r r d < d + r.
Proof. intros H. unfold ceil_r. lia. Qed.

Lemma ceil_r_multiple r d : 0 < r -> (ceil_r r d) mod r = 0.
Proof. intros H. unfold ceil_r. apply Z.mod_mul. lia. Qed.

(* ---- the fine-grained invariant ---------------------------------------------------------------- *)
Fixpoint nresp (k : list frame) : nat :=
  match k with [] => O | FResp :: k' => S (nresp k') | _ :: k' => nresp k' end.

Definition timeouts_late (s : st) : Prop :=
  forall t, In (t, MTimeout) (done s) -> deadline s <= t.

(* A call is "waited" when it was issued while the client was still opening: until the open result completes
   the wait is bounded by DispatchMethodCall's own (outer) timer; when the open result completes that timer is
   cancelled and the call is dispatched (unless the outer timer already completed it), from then on the
   timeout sink's timer bounds it like any other call. *)
Record Inv (r : Z) (s : st) : Prop := {
  inv_once : (nresp (stack s) + length (done s) <= 1)%nat;
  inv_idle : ph s <> Live -> stack s = [] /\ tmr s = TNone /\ (waited s = false -> done s = []);
  inv_fresh : ph s = NotIssued -> waited s = false /\ otmr s = TNone;
  inv_wopen : ph s = WaitOpen -> waited s = true;
  inv_arm : forall dl, tmr s = TArmed dl -> dl = ceil_r r (deadline s) /\ ph s = Live;
  inv_oarm : forall dl, otmr s = TArmed dl -> dl = ceil_r r (deadline s) /\ waited s = true /\ ph s = WaitOpen;
  inv_late : timeouts_late s;
  inv_past : forall t m, In (t, m) (done s) -> t <= now s;
}.

Lemma inv_len r s : Inv r s -> (length (done s) <= 1)%nat.
Proof. intros I. pose proof (inv_once r s I). lia. Qed.

Lemma inv_init r t : Inv r (init t).
Proof.
  constructor; cbn.
  - lia.
  - intros _. repeat split.
  - intros _. split; reflexivity.
  - intros X. discriminate X.
  - intros dl X. discriminate X.
  - intros dl X. discriminate X.
  - intros tt [].
  - intros tt mm [].
Qed.

Lemma enter_inv r s : 0 < r -> ph s = WaitOpen -> stack s = [] -> done s = [] -> tmr s = TNone ->
  (forall dl, otmr s <> TArmed dl) -> Inv r (enter r s).
Proof.
  intros Hr Hp Hs Hd Ht Ho. unfold enter.
  destruct (Z.ltb_spec (deadline s) (now s)) as [L|L].
  - constructor; unfold timeouts_late; cbn; rewrite ?Hd; cbn.
    + lia.
    + intros X. exfalso. apply X. reflexivity.
    + intros X. discriminate X.
    + intros X. discriminate X.
    + intros dl' X. discriminate X.
    + intros dl' X. exfalso. exact (Ho dl' X).
    + intros tt [].
    + intros tt mm [].
  - constructor; unfold timeouts_late; cbn; rewrite ?Hd; cbn.
    + lia.
    + intros X. exfalso. apply X. reflexivity.
    + intros X. discriminate X.
    + intros X. discriminate X.
    + intros dl' X. inversion X; subst. split; reflexivity.
    + intros dl' X. exfalso. exact (Ho dl' X).
    + intros tt [].
    + intros tt mm [].
Qed.

Lemma step_inv r s l s' : 0 < r -> Inv r s -> step r s l = Some s' -> Inv r s'.
Proof.
  intros Hr I H. destruct l as [T opened| |t| | | | |m]; cbn in H.
  - (* Issue *)
    destruct (ph s) eqn:P; try discriminate. destruct (Z.leb_spec T 0); [discriminate|].
    destruct opened; inversion H; subst; clear H.
    + apply enter_inv; cbn; try reflexivity; try assumption.
      intros dl X. discriminate X.
    + constructor; unfold timeouts_late, deadline; cbn.
      * lia.
      * intros _. split; [reflexivity|]. split; [reflexivity|]. intros X. discriminate X.
      * intros X. discriminate X.
      * intros _. reflexivity.
      * intros dl X. discriminate X.
      * intros dl X. inversion X; subst. split; [reflexivity|]. split; reflexivity.
      * intros tt [].
      * intros tt mm [].
  - (* OpenDone *)
    destruct (ph s) eqn:P; try discriminate.
    destruct (inv_idle r s I) as (A & B & C); [congruence|].
    pose proof (inv_once r s I) as O. rewrite A in O.
    pose proof (inv_late r s I) as La. pose proof (inv_past r s I) as Pa. unfold timeouts_late, deadline in La.
    destruct (done s) as [|y d] eqn:Ds; inversion H; subst; clear H.
    + (* dispatched, outer timer cancelled *)
      apply enter_inv; cbn; try reflexivity; try assumption.
      intros dl X. destruct (otmr s); discriminate X.
    + (* already completed by the outer timer while waiting for the open: not dispatched at all *)
      constructor; unfold timeouts_late, deadline; cbn.
      * exact O.
      * intros X. exfalso. apply X. reflexivity.
      * intros X. discriminate X.
      * intros X. discriminate X.
      * intros dl X. discriminate X.
      * intros dl X. destruct (otmr s); discriminate X.
      * exact La.
      * exact Pa.
  - (* Tick *)
    destruct (Z.ltb_spec t (now s)); [discriminate|]. inversion H; subst; clear H.
    destruct I as [I2 I3 I4 I5 I6 I7 I8 I9]. constructor; cbn; try assumption.
    intros t' m Hin. specialize (I9 _ _ Hin). lia.
  - (* Fire *)
    destruct (tmr s) as [|dl| |] eqn:Tm; try discriminate.
    2:{ (* spawned before the cancel: inert *)
        destruct (Z.ltb_spec (now s) (ceil_r r (deadline s))); [discriminate|]. inversion H; subst; clear H. exact I. }
    destruct (Z.ltb_spec (now s) dl); [discriminate|]. inversion H; subst; clear H.
    destruct I as [I2 I3 I4 I5 I6 I7 I8 I9]. constructor; cbn; try assumption.
    + intros X. destruct (I6 dl Tm) as [_ L]. congruence.
    + intros dl' X. discriminate X.
  - (* OFire: only while the call waits for the open *)
    destruct (otmr s) as [|dl| |] eqn:Om; try discriminate.
    destruct (Z.ltb_spec (now s) dl) as [L|L]; [discriminate|]. inversion H; subst; clear H.
    destruct I as [I2 I3 I4 I5 I6 I7 I8 I9]. destruct (I7 dl Om) as (Edl & W & Pw).
    destruct I3 as (A & B & _); [congruence|]. rewrite A in I2.
    constructor; unfold timeouts_late, deadline in *; cbn; rewrite ?A.
    + destruct (done s); cbn in *; lia.
    + intros X. split; [reflexivity|]. split; [exact B|]. intros Y. congruence.
    + intros X. congruence.
    + exact I5.
    + exact I6.
    + intros dl' X. discriminate X.
    + intros tt Hin. destruct (done s) as [|y d] eqn:Ds.
      * destruct Hin as [E|[]]. inversion E; subst. pose proof (ceil_r_ge r (t0 s + tmo s) Hr). lia.
      * apply I8. exact Hin.
    + intros tt mm Hin. destruct (done s) as [|y d] eqn:Ds.
      * destruct Hin as [E|[]]. inversion E; subst. lia.
      * apply (I9 tt mm). exact Hin.
  - (* Push *)
    destruct (ph s) eqn:P; try discriminate. inversion H; subst; clear H.
    destruct I as [I2 I3 I4 I5 I6 I7 I8 I9]. constructor; cbn; try assumption.
    all: intros X; congruence.
  - (* Unpush *)
    destruct (ph s) eqn:P; try discriminate. destruct (stack s) as [|f k] eqn:K; try discriminate.
    destruct f; try discriminate. inversion H; subst; clear H.
    destruct I as [I2 I3 I4 I5 I6 I7 I8 I9]. rewrite K in I2. constructor; cbn in *; try assumption.
    all: intros X; congruence.
  - (* Pop *)
    destruct (ph s) eqn:P; try discriminate.
    destruct (early m s) eqn:G; [discriminate|]. unfold early in G.
    destruct (stack s) as [|f k] eqn:K; [inversion H; subst; exact I|].
    destruct I as [I2 I3 I4 I5 I6 I7 I8 I9]. rewrite K in I2.
    destruct f.
    + (* FResp: completion *)
      destruct (waited s) eqn:W; inversion H; subst; clear H.
      * (* waited: the inner result completes the caller (the result is still open: the frame is on the stack) *)
        constructor; unfold timeouts_late, deadline in *; cbn in *.
        -- destruct (done s); cbn in *; lia.
        -- intros X. congruence.
        -- intros X. congruence.
        -- intros _. reflexivity.
        -- intros dl0 X0. destruct (I6 dl0 X0) as [Y Y2]. split; [exact Y|first [reflexivity|exact Y2|exact P]].
        -- intros dl0 X0. destruct (I7 dl0 X0) as (_ & _ & Y). congruence.
        -- intros tt Hin. destruct (done s) as [|y d] eqn:Ds.
           ++ destruct Hin as [E|[]]. inversion E; subst.
              destruct (Z.ltb_spec (now s) (t0 s + tmo s)); [discriminate|]. lia.
           ++ apply I8. exact Hin.
        -- intros tt mm Hin. destruct (done s) as [|y d] eqn:Ds.
           ++ destruct Hin as [E|[]]. inversion E; subst. lia.
           ++ apply (I9 tt mm). exact Hin.
      * constructor; unfold timeouts_late, deadline in *; cbn in *.
        -- lia.
        -- intros X. congruence.
        -- intros X. congruence.
        -- intros X. congruence.
        -- intros dl0 X0. destruct (I6 dl0 X0) as [Y Y2]. split; [exact Y|first [reflexivity|exact Y2|exact P]].
        -- intros dl0 X0. destruct (I7 dl0 X0) as (_ & _ & Y). congruence.
        -- intros t [E|Hin]; [|now apply I8].
           inversion E; subst. destruct (Z.ltb_spec (now s) (t0 s + tmo s)); [discriminate|]. lia.
        -- intros t m' [E|Hin]; [inversion E; lia|eauto].
    + (* FTimeout: cancel *)
      inversion H; subst; clear H.
      constructor; unfold timeouts_late, deadline in *; cbn in *; try assumption.
      * intros X. congruence.
      * intros X. congruence.
      * intros X. congruence.
      * intros dl X. destruct (tmr s); discriminate X.
      * intros dl X. destruct (I7 dl X) as (_ & _ & Y). congruence.
    + (* FLower *)
      inversion H; subst; clear H.
      constructor; unfold timeouts_late, deadline in *; cbn in *; try assumption.
      intros X. congruence.
Qed.

Lemma run_inv r : 0 < r -> forall ls s s', Inv r s -> run r s ls = Some s' -> Inv r s'.
Proof.
  intros Hr. induction ls as [|l ls IH]; intros s s' I H; cbn in H.
  - inversion H; subst. assumption.
  - destruct (step r s l) as [s1|] eqn:E; [|discriminate]. eapply IH; [|eassumption]. eapply step_inv; eassumption.
Qed.

Lemma run_app r ls1 : forall s ls2, run r s (ls1 ++ ls2) =
  match run r s ls1 with Some s1 => run r s1 ls2 | None => None end.
Proof. induction ls1 as [|l ls1 IH]; intros s ls2; cbn; [reflexivity|]. destruct (step r s l); [apply IH|reflexivity]. Qed.

(* ---- exactly once / late arrivals are inert ---------------------------------------------------- *)
Lemma at_most_once r t ls s : 0 < r -> run r (init t) ls = Some s -> (length (done s) <= 1)%nat.
Proof. intros Hr H. pose proof (run_inv r Hr ls _ _ (inv_init r t) H) as I. exact (inv_len r s I). Qed.

Lemma step_done_inert r s l s' x : Inv r s -> step r s l = Some s' -> done s = [x] -> done s' = [x].
Proof.
  intros I H D. destruct l as [T opened| |t| | | | |m]; cbn in H.
  - destruct (ph s) eqn:P; try discriminate. exfalso.
    destruct (inv_fresh r s I P) as [W _]. destruct (inv_idle r s I) as (_ & _ & B); [congruence|].
    rewrite (B W) in D. discriminate D.
  - destruct (ph s) eqn:P; try discriminate. rewrite D in H. inversion H; subst. reflexivity.
  - destruct (Z.ltb_spec t (now s)); [discriminate|]. inversion H; subst. assumption.
  - destruct (tmr s); try discriminate.
    + destruct (now s <? dl); [discriminate|]. inversion H; subst. assumption.
    + destruct (now s <? ceil_r r (deadline s)); [discriminate|]. inversion H; subst. assumption.
  - destruct (otmr s); try discriminate. destruct (now s <? dl); [discriminate|]. inversion H; subst. cbn.
    rewrite D. reflexivity.
  - destruct (ph s); try discriminate. inversion H; subst. assumption.
  - destruct (ph s); try discriminate. destruct (stack s) as [|f k]; try discriminate.
    destruct f; try discriminate. inversion H; subst. assumption.
  - destruct (ph s); try discriminate.
    destruct (early m s); [discriminate|].
    destruct (stack s) as [|f k] eqn:K; [inversion H; subst; assumption|].
    destruct f.
    + destruct (waited s) eqn:W; inversion H; subst; cbn.
      * rewrite D. reflexivity.
      * exfalso. pose proof (inv_once r s I) as O. rewrite K, D in O. cbn in O. lia.
    + inversion H; subst; cbn. assumption.
    + inversion H; subst; cbn. assumption.
Qed.

Lemma run_done_inert r : 0 < r -> forall ls s s' x, Inv r s -> run r s ls = Some s' -> done s = [x] -> done s' = [x].
Proof.
  intros Hr. induction ls as [|l ls IH]; intros s s' x I H D; cbn in H.
  - inversion H; subst. assumption.
  - destruct (step r s l) as [s1|] eqn:E; [|discriminate].
    eapply IH; [eapply step_inv; eassumption| eassumption |]. eapply step_done_inert; eassumption.
Qed.

Lemma done_single r s : Inv r s -> done s <> [] -> exists x, done s = [x].
Proof.
  intros I D. pose proof (inv_len r s I) as O. destruct (done s) as [|x d]; [congruence|].
  destruct d; [exists x; reflexivity|cbn in O; lia].
Qed.

Lemma run_done_nonempty r : 0 < r -> forall ls s s', Inv r s -> run r s ls = Some s' -> done s <> [] -> done s' <> [].
Proof.
  intros Hr ls s s' I H D. destruct (done_single r s I D) as [x Ds].
  rewrite (run_done_inert r Hr ls s s' x I H Ds). discriminate.
Qed.

(* ---- TimeoutError is never early; the timer paths satisfy the guard ------------------------------ *)
Lemma timeout_not_early r t ls s tc : 0 < r -> run r (init t) ls = Some s -> In (tc, MTimeout) (done s) -> t0 s + tmo s <= tc.
Proof. intros Hr H Hin. pose proof (run_inv r Hr ls _ _ (inv_init r t) H) as I. exact (inv_late r s I tc Hin). Qed.

Lemma fire_consistent r s s' : 0 < r -> Inv r s -> step r s Fire = Some s' -> deadline s' <= now s' /\ ph s' = Live.
Proof.
  intros Hr I H. cbn in H. destruct (tmr s) as [|dl| |] eqn:Tm; try discriminate.
  2:{ destruct (Z.ltb_spec (now s) (ceil_r r (deadline s))); [discriminate|]. inversion H; subst; clear H. split.
      - pose proof (ceil_r_ge r (deadline s') Hr). lia.
      - destruct (ph s') eqn:P; [| |reflexivity]; exfalso; destruct (inv_idle r s' I) as (_ & B & _); congruence. }
  destruct (Z.ltb_spec (now s) dl); [discriminate|]. inversion H; subst; clear H. cbn.
  destruct (inv_arm r s I dl Tm) as [E P]. split; [|assumption].
  pose proof (ceil_r_ge r (deadline s) Hr). unfold deadline in *. cbn. lia.
Qed.

Lemma ofire_consistent r s s' : 0 < r -> Inv r s -> step r s OFire = Some s' -> deadline s' <= now s' /\ ph s' = WaitOpen.
Proof.
  intros Hr I H. cbn in H. destruct (otmr s) as [|dl| |] eqn:Om; try discriminate.
  destruct (Z.ltb_spec (now s) dl); [discriminate|]. inversion H; subst; clear H. cbn.
  destruct (inv_oarm r s I dl Om) as (E & _ & P). split; [|assumption].
  pose proof (ceil_r_ge r (deadline s) Hr). unfold deadline in *. cbn. lia.
Qed.

(* when the open result completes, the outer timer is out of the game, and a call that was completed (by the
   outer timer) while it waited for the open is not dispatched any more *)
Lemma opendone_no_dispatch r s s' : ph s = WaitOpen -> done s <> [] -> step r s OpenDone = Some s' ->
  stack s' = [] /\ tmr s' = TNone /\ done s' = done s.
Proof.
  intros P D H. cbn in H. rewrite P in H. destruct (done s) as [|y d] eqn:Ds; [congruence|].
  inversion H; subst; clear H. cbn. repeat split.
Qed.

Lemma opendone_disarms_outer r s s' : step r s OpenDone = Some s' -> forall dl, otmr s' <> TArmed dl.
Proof.
  intros H dl X. cbn in H. destruct (ph s); try discriminate.
  destruct (done s); inversion H; subst; clear H.
  - unfold enter in X. cbn in X. destruct (_ <? _) in X; cbn in X; destruct (otmr s); discriminate X.
  - cbn in X. destruct (otmr s); discriminate X.
Qed.

(* ---- after Issue the call's identity (waited, t0, tmo) is frozen ------------------------------- *)
Lemma step_frozen r s l s' : ph s <> NotIssued -> step r s l = Some s' ->
  waited s' = waited s /\ t0 s' = t0 s /\ tmo s' = tmo s /\ ph s' <> NotIssued.
Proof.
  intros Pn H. destruct l as [T opened| |t| | | | |m]; cbn in H.
  - destruct (ph s); try discriminate. congruence.
  - destruct (ph s); try discriminate. destruct (done s); inversion H; subst.
    + unfold enter. cbn. destruct (_ <? _); cbn; repeat split; discriminate.
    + cbn. repeat split; discriminate.
  - destruct (t <? now s); [discriminate|]. inversion H; subst. cbn. repeat split; assumption.
  - destruct (tmr s); try discriminate.
    + destruct (now s <? dl); [discriminate|]. inversion H; subst. cbn. repeat split; assumption.
    + destruct (now s <? ceil_r r (deadline s)); [discriminate|]. inversion H; subst. repeat split; assumption.
  - destruct (otmr s); try discriminate. destruct (now s <? dl); [discriminate|]. inversion H; subst. cbn. repeat split; assumption.
  - destruct (ph s) eqn:P; try discriminate. inversion H; subst. cbn. repeat split; congruence.
  - destruct (ph s) eqn:P; try discriminate. destruct (stack s) as [|f k]; try discriminate.
    destruct f; try discriminate. inversion H; subst. cbn. repeat split; congruence.
  - destruct (ph s) eqn:P; try discriminate. destruct (early m s); [discriminate|].
    destruct (stack s) as [|f k]; [inversion H; subst; repeat split; congruence|].
    destruct f.
    + destruct (waited s) eqn:W; inversion H; subst; cbn; repeat split; congruence.
    + inversion H; subst; cbn; repeat split; congruence.
    + inversion H; subst; cbn; repeat split; congruence.
Qed.

Lemma run_frozen r : forall ls s s', ph s <> NotIssued -> run r s ls = Some s' ->
  waited s' = waited s /\ t0 s' = t0 s /\ tmo s' = tmo s /\ ph s' <> NotIssued.
Proof.
  induction ls as [|l ls IH]; intros s s' Pn H; cbn in H.
  - inversion H; subst. repeat split; assumption.
  - destruct (step r s l) as [s1|] eqn:E; [|discriminate].
    destruct (step_frozen r s l s1 Pn E) as (A & B & C & D).
    destruct (IH s1 s' D H) as (A' & B' & C' & D'). repeat split; congruence.
Qed.

(* ---- a call that waits for the open and has not completed has its outer timer armed at the rounded
        deadline: preserved by EVERY fine-grained step, from any state ------------------------------ *)
Definition WShape (r : Z) (s : st) : Prop :=
  ph s = WaitOpen -> done s <> [] \/ otmr s = TArmed (ceil_r r (deadline s)).

Lemma wshape_init r t : WShape r (init t).
Proof. intros W. cbn in W. discriminate W. Qed.

Lemma step_wshape r s l s' : WShape r s -> step r s l = Some s' -> WShape r s'.
Proof.
  intros Sh H. destruct l as [T opened| |t| | | | |m]; cbn in H.
  - destruct (ph s); try discriminate. destruct (T <=? 0); [discriminate|].
    destruct opened; inversion H; subst; clear H.
    + unfold enter. cbn. destruct (_ <? _); intros W; cbn in W; discriminate W.
    + intros _. right. reflexivity.
  - destruct (ph s); try discriminate. destruct (done s); inversion H; subst; clear H.
    + unfold enter. cbn. destruct (_ <? _); intros W; cbn in W; discriminate W.
    + intros W. cbn in W. discriminate W.
  - destruct (t <? now s); [discriminate|]. inversion H; subst; clear H.
    intros W; cbn in W; destruct (Sh W) as [D|O]; [left|right]; assumption.
  - destruct (tmr s); try discriminate.
    + destruct (now s <? dl); [discriminate|]. inversion H; subst; clear H.
      intros W; cbn in W; destruct (Sh W) as [D|O]; [left|right]; assumption.
    + destruct (now s <? ceil_r r (deadline s)); [discriminate|]. inversion H; subst; clear H. exact Sh.
  - destruct (otmr s); try discriminate. destruct (now s <? dl); [discriminate|]. inversion H; subst; clear H.
    intros _. left. cbn. destruct (done s); discriminate.
  - destruct (ph s) eqn:P; try discriminate. inversion H; subst; clear H.
    intros W. cbn in W. congruence.
  - destruct (ph s) eqn:P; try discriminate. destruct (stack s) as [|f k]; try discriminate.
    destruct f; try discriminate. inversion H; subst; clear H.
    intros W. cbn in W. congruence.
  - destruct (ph s) eqn:P; try discriminate. destruct (early m s); [discriminate|].
    destruct (stack s) as [|f k]; [inversion H; subst; exact Sh|].
    destruct f.
    + destruct (waited s) eqn:Ws; inversion H; subst; clear H; intros W; cbn in W; congruence.
    + inversion H; subst; clear H. intros W. cbn in W. congruence.
    + inversion H; subst; clear H. intros W. cbn in W. congruence.
Qed.

Lemma run_wshape r : forall ls s s', WShape r s -> run r s ls = Some s' -> WShape r s'.
Proof.
  induction ls as [|l ls IH]; intros s s' Sh H; cbn in H.
  - inversion H; subst. assumption.
  - destruct (step r s l) as [s1|] eqn:E; [|discriminate]. eapply IH; [|eassumption]. eapply step_wshape; eassumption.
Qed.

(* ---- coarse labels: responses are always drained completely (no handler raises or swallows) ---- *)
Inductive clabel :=
| CIssue (T : Z) (opened : bool) | COpenDone | CTick (t : Z) | CFire | COFire | CPush | CUnpush | CDrain (m : mkind).

Definition expired_entry (s : st) : bool := deadline s <? now s.
(* the caller's result is still open: only then does the open result's callback dispatch the call *)
Definition undone (s : st) : bool := match done s with [] => true | _ => false end.

Definition cstep (r : Z) (s : st) (c : clabel) : option st :=
  match c with
  | CIssue T opened =>
      match step r s (Issue T opened) with
      | Some s1 => if opened && expired_entry s1 then run r s1 (drain_all s1 MTimeout) else Some s1
      | None => None
      end
  | COpenDone =>
      match step r s OpenDone with
      | Some s1 => if undone s && expired_entry s1 then run r s1 (drain_all s1 MTimeout) else Some s1
      | None => None
      end
  | CTick t => step r s (Tick t)
  | CFire => match step r s Fire with Some s1 => run r s1 (drain_all s1 MTimeout) | None => None end
  | COFire => step r s OFire
  | CPush => step r s Push
  | CUnpush => step r s Unpush
  | CDrain m => match ph s with Live => run r s (drain_all s m) | _ => None end
  end.

Fixpoint crun (r : Z) (s : st) (cs : list clabel) : option st :=
  match cs with
  | [] => Some s
  | c :: cs' => match cstep r s c with Some s' => crun r s' cs' | None => None end
  end.

(* every coarse step is a sequence of fine steps, so all fine-grained theorems apply to coarse runs *)
Definition expand (r : Z) (s : st) (c : clabel) : list label :=
  match c with
  | CIssue T opened =>
      Issue T opened :: match step r s (Issue T opened) with
                        | Some s1 => if opened && expired_entry s1 then drain_all s1 MTimeout else []
                        | None => [] end
  | COpenDone => OpenDone :: match step r s OpenDone with
                             | Some s1 => if undone s && expired_entry s1 then drain_all s1 MTimeout else []
                             | None => [] end
  | CTick t => [Tick t]
  | CFire => Fire :: match step r s Fire with Some s1 => drain_all s1 MTimeout | None => [] end
  | COFire => [OFire]
  | CPush => [Push]
  | CUnpush => [Unpush]
  | CDrain m => drain_all s m
  end.

Lemma cstep_refines r s c s' : cstep r s c = Some s' -> run r s (expand r s c) = Some s'.
Proof.
  destruct c as [T opened| |t| | | | |m]; cbn [cstep expand]; intros H.
  - cbn [run]. destruct (step r s (Issue T opened)) as [s1|]; [|discriminate].
    destruct (opened && expired_entry s1); [assumption|]. cbn. assumption.
  - cbn [run]. destruct (step r s OpenDone) as [s1|]; [|discriminate].
    destruct (undone s && expired_entry s1); [assumption|]. cbn. assumption.
  - cbn [run]. destruct (step r s (Tick t)); [|discriminate]. cbn. assumption.
  - cbn [run]. destruct (step r s Fire) as [s1|]; [|discriminate]. assumption.
  - cbn [run]. destruct (step r s OFire); [|discriminate]. cbn. assumption.
  - cbn [run]. destruct (step r s Push); [|discriminate]. cbn. assumption.
  - cbn [run]. destruct (step r s Unpush); [|discriminate]. cbn. assumption.
  - destruct (ph s); try discriminate. assumption.
Qed.

Lemma cstep_inv r s c s' : 0 < r -> Inv r s -> cstep r s c = Some s' -> Inv r s'.
Proof. intros Hr I H. apply cstep_refines in H. eapply run_inv; eassumption. Qed.

Lemma crun_inv r : 0 < r -> forall cs s s', Inv r s -> crun r s cs = Some s' -> Inv r s'.
Proof.
  intros Hr. induction cs as [|c cs IH]; intros s s' I H; cbn in H.
  - inversion H; subst. assumption.
  - destruct (cstep r s c) as [s1|] eqn:E; [|discriminate]. eapply IH; [|eassumption]. eapply cstep_inv; eassumption.
Qed.

Lemma cstep_wshape r s c s' : WShape r s -> cstep r s c = Some s' -> WShape r s'.
Proof. intros Sh H. apply cstep_refines in H. eapply run_wshape; eassumption. Qed.

Lemma crun_wshape r : forall cs s s', WShape r s -> crun r s cs = Some s' -> WShape r s'.
Proof.
  induction cs as [|c cs IH]; intros s s' Sh H; cbn in H.
  - inversion H; subst. assumption.
  - destruct (cstep r s c) as [s1|] eqn:E; [|discriminate]. eapply IH; [|eassumption]. eapply cstep_wshape; eassumption.
Qed.

Lemma cstep_frozen r s c s' : ph s <> NotIssued -> cstep r s c = Some s' ->
  waited s' = waited s /\ t0 s' = t0 s /\ tmo s' = tmo s /\ ph s' <> NotIssued.
Proof. intros Pn H. apply cstep_refines in H. eapply run_frozen; eassumption. Qed.

(* draining a stack of lower frames on top of [FTimeout; FResp] or [FResp] completes the call *)
Definition lowers (n : nat) : list frame := repeat FLower n.

Lemma drain_lowers r m n : forall s k,
  ph s = Live -> stack s = lowers n ++ k ->
  (early m s) = false ->
  run r s (drain m n) = Some (set_stack s k).
Proof.
  induction n as [|n IH]; intros s k P K G; cbn [drain run].
  - cbn in K. destruct s; cbn in *; subst. reflexivity.
  - cbn [lowers repeat app] in K.
    assert (E : step r s (Pop m) = Some (set_stack s (lowers n ++ k))).
    { cbn [step]. rewrite P, G, K. reflexivity. }
    rewrite E. rewrite (IH (set_stack s (lowers n ++ k)) k); try reflexivity; cbn; assumption.
Qed.

Lemma length_lowers n k : length (lowers n ++ k) = (n + length k)%nat.
Proof. unfold lowers. now rewrite app_length, repeat_length. Qed.

Lemma drain_add m a b : drain m (a + b) = drain m a ++ drain m b.
Proof. induction a as [|a IH]; cbn; [reflexivity|]. now rewrite IH. Qed.

(* Shape invariant of coarse runs: a live, uncompleted call (dispatched at Issue on an open client, or at
   OpenDone for a call that waited for the open) still has its timer armed and both frames.  The shape of a
   call that still waits for the open is WShape above. *)
Definition Shape (r : Z) (s : st) : Prop :=
  ph s = Live ->
  done s <> [] \/ (exists n, stack s = lowers n ++ [FTimeout; FResp]) /\ tmr s = TArmed (ceil_r r (deadline s)).

Lemma early_same m s s' : now s' = now s -> t0 s' = t0 s -> tmo s' = tmo s -> early m s' = early m s.
Proof. intros A B C. unfold early, deadline. now rewrite A, B, C. Qed.

Lemma pop_two r s m : ph s = Live -> stack s = [FTimeout; FResp] -> early m s = false ->
  exists s', run r s [Pop m; Pop m] = Some s' /\ done s' <> [] /\ (waited s = false -> done s' = (now s, m) :: done s) /\
             ph s' = Live /\ now s' = now s /\ t0 s' = t0 s /\ tmo s' = tmo s.
Proof.
  intros P K G. cbn [run step]. rewrite P, G, K. cbn [ph stack now t0 tmo tmr done waited otmr].
  rewrite (early_same m s) by reflexivity. rewrite G.
  destruct (waited s) eqn:W.
  - eexists. split; [reflexivity|]. cbn. split; [destruct (done s); discriminate|].
    split; [intros X; discriminate X|]. repeat split; assumption.
  - eexists. split; [reflexivity|]. cbn. split; [discriminate|].
    split; [intros _; reflexivity|]. repeat split; assumption.
Qed.

Lemma drain_all_complete r s m n :
  ph s = Live -> stack s = lowers n ++ [FTimeout; FResp] -> early m s = false ->
  exists s', run r s (drain_all s m) = Some s' /\ done s' <> [] /\ (waited s = false -> done s' = (now s, m) :: done s) /\
             ph s' = Live /\ now s' = now s /\ t0 s' = t0 s /\ tmo s' = tmo s.
Proof.
  intros P K G. unfold drain_all. rewrite K, length_lowers. cbn [length].
  rewrite drain_add, run_app. rewrite (drain_lowers r m n s [FTimeout; FResp] P K G).
  apply (pop_two r (set_stack s [FTimeout; FResp]) m); [exact P|reflexivity|].
  rewrite (early_same m s) by reflexivity. exact G.
Qed.

(* _DispatchMethod on a call that is not yet past its deadline: both frames, timer armed *)
Lemma enter_shape r s : expired_entry (enter r s) = false -> Shape r (enter r s).
Proof.
  unfold Shape, expired_entry, enter. cbv zeta. unfold deadline.
  destruct (Z.ltb_spec (t0 s + tmo s) (now s)) as [L|L]; cbn; intros X _.
  - destruct (Z.ltb_spec (t0 s + tmo s) (now s)); [discriminate|lia].
  - right. split; [exists O; reflexivity|reflexivity].
Qed.

(* ... and on one that is: the TimeoutError posted on entry completes the call when it is drained *)
Lemma enter_expired_drain r s s' : expired_entry (enter r s) = true ->
  run r (enter r s) (drain_all (enter r s) MTimeout) = Some s' -> done s' <> [].
Proof.
  unfold expired_entry, enter. cbv zeta. unfold deadline, drain_all.
  destruct (Z.ltb_spec (t0 s + tmo s) (now s)) as [L|L]; cbn [now t0 tmo stack length drain]; intros X H.
  - cbn [run step ph stack] in H. unfold early, deadline in H. cbn [now t0 tmo waited done] in H.
    destruct (Z.ltb_spec (now s) (t0 s + tmo s)); [lia|].
    destruct (waited s); inversion H; subst; cbn; [destruct (done s); discriminate|discriminate].
  - destruct (Z.ltb_spec (t0 s + tmo s) (now s)); [lia|discriminate].
Qed.

Lemma cstep_shape r s c s' : 0 < r -> Inv r s -> Shape r s -> cstep r s c = Some s' -> Shape r s'.
Proof.
  intros Hr I Sh H. destruct c as [T opened| |t| | | | |m].
  - (* CIssue *)
    cbn [cstep step] in H. destruct (ph s) eqn:P; try discriminate.
    destruct (Z.leb_spec T 0); [discriminate|].
    destruct opened.
    + set (s1 := {| now := now s; ph := WaitOpen; t0 := now s; tmo := T; stack := []; tmr := TNone;
                    waited := false; otmr := TNone; done := [] |}) in *.
      assert (X : expired_entry (enter r s1) = false).
      { unfold expired_entry, enter, deadline. cbn. destruct (Z.ltb_spec (now s + T) (now s)); cbn; lia. }
      rewrite X in H. cbn in H. inversion H; subst; clear H.
      apply enter_shape. exact X.
    + cbn in H. inversion H; subst; clear H. intros W. cbn in W. discriminate W.
  - (* COpenDone: dispatched now unless the outer timer completed the call while it waited *)
    cbn [cstep] in H. destruct (step r s OpenDone) as [s1|] eqn:E; [|discriminate].
    cbn in E. destruct (ph s) eqn:P; try discriminate. unfold undone in H.
    destruct (done s) as [|y d] eqn:Ds; inversion E; subst s1; clear E; cbn [andb] in H.
    + destruct (expired_entry (enter r _)) eqn:X in H.
      * intros _. left. eapply enter_expired_drain; eassumption.
      * inversion H; subst; clear H. apply enter_shape. exact X.
    + inversion H; subst; clear H. intros _. left. cbn. discriminate.
  - (* CTick *)
    cbn in H. destruct (Z.ltb_spec t (now s)); [discriminate|]. inversion H; subst; clear H.
    intros P. cbn in P. destruct (Sh P) as [D|[[n K] Tm]]; [left; exact D|right]. cbn. split; [exists n; exact K|exact Tm].
  - (* CFire *)
    cbn [cstep] in H. destruct (step r s Fire) as [s1|] eqn:E; [|discriminate].
    destruct (fire_consistent r s s1 Hr I E) as [G P1].
    pose proof (step_inv r s Fire s1 Hr I E) as I1.
    assert (F : done s1 = done s /\ stack s1 = stack s /\ ph s1 = ph s).
    { cbn in E. destruct (tmr s); try discriminate.
      - destruct (now s <? dl); [discriminate|]. inversion E; subst. cbn. auto.
      - destruct (now s <? ceil_r r (deadline s)); [discriminate|]. inversion E; subst. auto. }
    destruct F as (Fd & Fs & Fp). rewrite Fp in P1.
    intros _. left.
    destruct (Sh P1) as [D|[[n K] _]].
    + apply (run_done_nonempty r Hr _ s1 s' I1 H). now rewrite Fd.
    + destruct (drain_all_complete r s1 MTimeout n) as (s2 & R & D & _).
      * now rewrite Fp.
      * now rewrite Fs.
      * unfold early. destruct (Z.ltb_spec (now s1) (deadline s1)); [lia|reflexivity].
      * rewrite R in H. inversion H; subst. exact D.
  - (* COFire: the caller's result is complete afterwards *)
    cbn in H. destruct (otmr s); try discriminate. destruct (now s <? dl); [discriminate|]. inversion H; subst; clear H.
    intros _. left. cbn. destruct (done s); discriminate.
  - (* CPush *)
    cbn in H. destruct (ph s) eqn:P; try discriminate. inversion H; subst; clear H.
    intros _. cbn. destruct (Sh P) as [D|[[n K] Tm]]; [left; exact D|right].
    split; [exists (S n); cbn; now rewrite K|exact Tm].
  - (* CUnpush *)
    cbn in H. destruct (ph s) eqn:P; try discriminate. destruct (stack s) as [|f k] eqn:K0; try discriminate.
    destruct f; try discriminate. inversion H; subst; clear H.
    intros _. cbn. destruct (Sh P) as [D|[[n K] Tm]]; [left; exact D|right].
    split; [|exact Tm]. rewrite K0 in K. destruct n as [|n]; unfold lowers in K; cbn in K; [discriminate|]. inversion K; subst. exists n. reflexivity.
  - (* CDrain *)
    cbn [cstep] in H. destruct (ph s) eqn:P; try discriminate.
    intros _. left.
    destruct (Sh P) as [D|[[n K] Tm]].
    + apply (run_done_nonempty r Hr _ s s' I H D).
    + (* the drain is only enabled when its guard holds at the first Pop; then it completes *)
      destruct (early m s) eqn:G.
      * exfalso. unfold drain_all in H. rewrite K, length_lowers in H. cbn [length] in H.
        replace (n + 2)%nat with (S (n + 1)) in H by lia. cbn [drain run step] in H. rewrite P, G in H. discriminate.
      * destruct (drain_all_complete r s m n P K G) as (s2 & R & D & _).
        rewrite R in H. inversion H; subst. exact D.
Qed.

Lemma crun_shape r : 0 < r -> forall cs s s', Inv r s -> Shape r s -> crun r s cs = Some s' -> Shape r s'.
Proof.
  intros Hr. induction cs as [|c cs IH]; intros s s' I Sh H; cbn in H.
  - inversion H; subst. assumption.
  - destruct (cstep r s c) as [s1|] eqn:E; [|discriminate].
    eapply (IH s1); [eapply cstep_inv; eassumption|eapply cstep_shape; eassumption|exact H].
Qed.

Lemma shape_init r t : Shape r (init t).
Proof. intros P. cbn in P. discriminate. Qed.

(* the deadline guarantee: any issued call, whether or not the client was open when it was issued *)
Lemma deadline_met r t cs s : 0 < r -> crun r (init t) cs = Some s ->
  ph s <> NotIssued -> ceil_r r (t0 s + tmo s) <= now s -> fire_enabled s = false -> ofire_enabled s = false ->
  done s <> [].
Proof.
  intros Hr H Pn L F OF.
  destruct (ph s) eqn:P; [congruence| |].
  - (* still waiting for the open: the outer timer *)
    pose proof (crun_wshape r cs _ _ (wshape_init r t) H) as Sh.
    destruct (Sh P) as [D|Om]; [exact D|].
    unfold ofire_enabled in OF. rewrite Om in OF. unfold deadline in OF. lia.
  - (* dispatched: the timeout sink's timer *)
    pose proof (crun_shape r Hr cs _ _ (inv_init r t) (shape_init r t) H) as Sh.
    destruct (Sh P) as [D|[_ Tm]]; [exact D|].
    unfold fire_enabled in F. rewrite Tm in F. unfold deadline in F. lia.
Qed.

(* ---- completion time under prompt timer service ---------------------------------------------- *)
(* a coarse trace is prompt when the clock never moves past an armed timer's rounded deadline (the timeout
   sink's timer or, while a call waits for the open, DispatchMethodCall's outer timer),
   i.e. the timer queue runs due actions before time advances further (its C10 guarantee) *)
Definition prompt_step (s : st) (c : clabel) : Prop :=
  match c with
  | CTick t => match tmr s with TArmed dl => t <= dl | _ => True end /\
               match otmr s with TArmed dl => t <= dl | _ => True end
  | _ => True
  end.

Fixpoint prompt (r : Z) (s : st) (cs : list clabel) : Prop :=
  match cs with
  | [] => True
  | c :: cs' => prompt_step s c /\ match cstep r s c with Some s' => prompt r s' cs' | None => True end
  end.

Definition OnTime (r : Z) (s : st) : Prop :=
  (forall dl, tmr s = TArmed dl -> now s <= dl) /\
  (forall dl, otmr s = TArmed dl -> now s <= dl) /\
  (forall tc m, In (tc, m) (done s) -> tc <= ceil_r r (deadline s)).

Lemma ontime_init r t : OnTime r (init t).
Proof. split; [|split]; cbn; intros; try discriminate; contradiction. Qed.

Lemma run_drain_facts r m : forall n s s', run r s (drain m n) = Some s' ->
  now s' = now s /\ t0 s' = t0 s /\ tmo s' = tmo s /\ ph s' = ph s /\ waited s' = waited s /\
  (forall x, In x (done s') -> In x (done s) \/ x = (now s, m)) /\
  (tmr s' = tmr s \/ tmr s' = TCancelled) /\
  (otmr s' = otmr s \/ otmr s' = TCancelled).
Proof.
  induction n as [|n IH]; intros s s' H; cbn [drain run] in H.
  - inversion H; subst. repeat split; auto.
  - destruct (step r s (Pop m)) as [s1|] eqn:E; [|discriminate].
    destruct (IH _ _ H) as (A & B & C & D & W & F & G & O).
    cbn in E. destruct (ph s) eqn:P; try discriminate.
    destruct (early m s); [discriminate|].
    destruct (stack s) as [|f k].
    + inversion E; subst. repeat split; auto; congruence.
    + destruct f.
      * destruct (waited s) eqn:Ws; inversion E; subst; clear E; cbn in *.
        -- repeat split; auto; try congruence.
           intros x Hx. destruct (F x Hx) as [X|X]; auto.
           destruct (done s); [destruct X as [X|[]]; auto|auto].
        -- repeat split; auto; try congruence.
           intros x Hx. destruct (F x Hx) as [[X|X]|X]; auto.
      * inversion E; subst; clear E; cbn in *. repeat split; auto; try congruence.
        destruct G as [G|G]; rewrite G; destruct (tmr s); auto.
      * inversion E; subst; clear E; cbn in *. repeat split; auto; congruence.
Qed.

(* a complete or partial drain keeps the run on time as long as an uncompleted call is still before its
   rounded deadline *)
Lemma drain_ontime r m n s s' : 0 < r -> Inv r s -> OnTime r s ->
  (done s = [] -> now s <= ceil_r r (deadline s)) ->
  run r s (drain m n) = Some s' -> OnTime r s'.
Proof.
  intros Hr I (A & A' & B) Bd H.
  destruct (run_drain_facts r m _ _ _ H) as (N & T0 & TM & PH & WT & DN & TMR & OTMR).
  split; [|split].
  - intros dl E. rewrite N. destruct TMR as [X|X]; rewrite X in E; [auto|discriminate].
  - intros dl E. rewrite N. destruct OTMR as [X|X]; rewrite X in E; [auto|discriminate].
  - intros tc m' Hin. unfold deadline. rewrite T0, TM. fold (deadline s).
    destruct (done s) as [|y d] eqn:Ds.
    + destruct (DN _ Hin) as [[]|X]. injection X as Xa Xb. subst tc. apply Bd. reflexivity.
    + assert (D : done s <> []) by (rewrite Ds; discriminate).
      destruct (done_single r s I D) as [x Dx].
      rewrite (run_done_inert r Hr _ s s' x I H Dx) in Hin. rewrite <- Dx in Hin. rewrite <- Ds in B.
      exact (B tc m' Hin).
Qed.

Lemma cstep_ontime r s c s' : 0 < r -> Inv r s -> Shape r s -> WShape r s -> OnTime r s ->
  prompt_step s c -> cstep r s c = Some s' -> OnTime r s'.
Proof.
  intros Hr I Sh WSh OT Pr H. pose proof OT as (A & A' & B).
  destruct c as [T opened| |t| | | | |m].
  - (* CIssue *)
    cbn [cstep step] in H. destruct (ph s) eqn:P; try discriminate. destruct (Z.leb_spec T 0); [discriminate|].
    destruct opened.
    + set (s1 := {| now := now s; ph := WaitOpen; t0 := now s; tmo := T; stack := []; tmr := TNone;
                    waited := false; otmr := TNone; done := [] |}) in *.
      assert (X : expired_entry (enter r s1) = false).
      { unfold expired_entry, enter, deadline. cbn. destruct (Z.ltb_spec (now s + T) (now s)); cbn; lia. }
      rewrite X in H. cbn in H. inversion H; subst; clear H.
      unfold enter, deadline. cbn. destruct (Z.ltb_spec (now s + T) (now s)); [lia|]. cbn.
      split; [|split]; cbn.
      * intros dl0 E. inversion E; subst. pose proof (ceil_r_ge r (now s + T) Hr). lia.
      * intros dl0 E. discriminate E.
      * intros tc m [].
    + cbn in H. inversion H; subst; clear H.
      split; [|split]; cbn.
      * intros dl0 E. discriminate E.
      * intros dl0 E. inversion E; subst. pose proof (ceil_r_ge r (now s + T) Hr). lia.
      * intros tc m [].
  - (* COpenDone: the outer timer bounded the wait so far; from here on the timeout sink's timer does *)
    cbn [cstep] in H. destruct (step r s OpenDone) as [s1|] eqn:E; [|discriminate].
    pose proof (step_inv r s OpenDone s1 Hr I E) as I1.
    pose proof (opendone_disarms_outer r s s1 E) as NoO.
    assert (F : ph s = WaitOpen /\ now s1 = now s /\ deadline s1 = deadline s /\ done s1 = done s /\
                (forall dl, tmr s1 = TArmed dl -> now s1 <= dl)).
    { cbn in E. destruct (ph s) eqn:P; try discriminate. split; [reflexivity|].
      destruct (done s) as [|y d] eqn:Ds; inversion E; subst; clear E.
      - unfold enter. cbv zeta. unfold deadline. cbn [now t0 tmo].
        destruct (Z.ltb_spec (t0 s + tmo s) (now s)) as [L|L]; cbn; repeat split; try reflexivity.
        + intros dl0 X. discriminate X.
        + intros dl0 X. inversion X; subst. pose proof (ceil_r_ge r (t0 s + tmo s) Hr). lia.
      - cbn. repeat split; try reflexivity. intros dl0 X. discriminate X. }
    destruct F as (Pw & N1 & DL1 & D1 & T1).
    assert (OT1 : OnTime r s1).
    { split; [exact T1|]. split.
      - intros dl0 X. exfalso. exact (NoO dl0 X).
      - intros tc m Hin. rewrite D1 in Hin. rewrite DL1. exact (B tc m Hin). }
    destruct (undone s && expired_entry s1); [|inversion H; subst; exact OT1].
    apply (drain_ontime r MTimeout (length (stack s1)) s1 s' Hr I1 OT1); [|exact H].
    intros D. rewrite D1 in D. rewrite N1, DL1.
    destruct (WSh Pw) as [D'|Om]; [congruence|]. exact (A' _ Om).
  - (* CTick *)
    cbn in H. destruct (Z.ltb_spec t (now s)); [discriminate|]. inversion H; subst; clear H.
    cbn [prompt_step] in Pr. destruct Pr as [Pr1 Pr2].
    split; [|split]; cbn.
    + intros dl0 E. rewrite E in Pr1. exact Pr1.
    + intros dl0 E. rewrite E in Pr2. exact Pr2.
    + exact B.
  - (* CFire *)
    cbn [cstep] in H. destruct (step r s Fire) as [s1|] eqn:E; [|discriminate].
    pose proof (step_inv r s Fire s1 Hr I E) as I1.
    assert (TC : tmr s = TCancelled \/ exists dl0, tmr s = TArmed dl0).
    { cbn in E. destruct (tmr s) as [|dlc| |]; try discriminate; [right; exists dlc; reflexivity|left; reflexivity]. }
    destruct TC as [Tmc|[dlc Tmc]].
    { (* the action had been handed to its greenlet before context() cancelled it: the call is already complete *)
      cbn in E. rewrite Tmc in E. destruct (Z.ltb_spec (now s) (ceil_r r (deadline s))); [discriminate|].
      inversion E; subst s1; clear E.
      assert (P : ph s = Live).
      { destruct (ph s) eqn:P; [| |reflexivity]; exfalso; destruct (inv_idle r s I) as (_ & Bq & _); congruence. }
      destruct (Sh P) as [D|[_ Tm2]]; [|congruence].
      apply (drain_ontime r MTimeout (length (stack s)) s s' Hr I OT); [|exact H].
      intros D0. congruence. }
    assert (F : exists dl0, tmr s = TArmed dl0 /\ done s1 = done s /\ now s1 = now s /\ t0 s1 = t0 s /\
                tmo s1 = tmo s /\ tmr s1 = TFired /\ otmr s1 = otmr s).
    { cbn in E. rewrite Tmc in E. destruct (Z.ltb_spec (now s) dlc); [discriminate|].
      inversion E; subst. cbn. exists dlc. repeat split; auto. }
    destruct F as (dl0 & Tm & Fd & Fn & F0 & FT & Ftm & Fo).
    destruct (inv_arm r s I dl0 Tm) as [Edl P].
    assert (DL : deadline s1 = deadline s) by (unfold deadline; congruence).
    apply (drain_ontime r MTimeout (length (stack s1)) s1 s' Hr I1); [| |exact H].
    + split; [|split].
      * intros dl1 X. rewrite Ftm in X. discriminate X.
      * intros dl1 X. rewrite Fo in X. rewrite Fn. exact (A' _ X).
      * intros tc m Hin. rewrite Fd in Hin. rewrite DL. exact (B tc m Hin).
    + intros _. rewrite Fn, DL, <- Edl. exact (A _ Tm).
  - (* COFire *)
    cbn in H. destruct (otmr s) as [|dl0| |] eqn:Om; try discriminate.
    destruct (Z.ltb_spec (now s) dl0); [discriminate|]. inversion H; subst; clear H.
    destruct (inv_oarm r s I dl0 Om) as (Edl & _). subst dl0.
    split; [|split]; cbn.
    + exact A.
    + intros dl1 X. discriminate X.
    + intros tc m Hin. change (tc <= ceil_r r (deadline s)). destruct (done s) as [|y d] eqn:Ds.
      * destruct Hin as [X|[]]. inversion X; subst. exact (A' _ eq_refl).
      * exact (B tc m Hin).
  - (* CPush *)
    cbn in H. destruct (ph s) eqn:P; try discriminate. inversion H; subst; clear H. exact OT.
  - (* CUnpush *)
    cbn in H. destruct (ph s) eqn:P; try discriminate. destruct (stack s) as [|f k]; try discriminate.
    destruct f; try discriminate. inversion H; subst; clear H. exact OT.
  - (* CDrain *)
    cbn [cstep] in H. destruct (ph s) eqn:P; try discriminate.
    apply (drain_ontime r m (length (stack s)) s s' Hr I OT); [|exact H].
    intros D. destruct (Sh P) as [D'|[_ Tm]]; [congruence|]. exact (A _ Tm).
Qed.

Lemma crun_ontime r : 0 < r -> forall cs s s', Inv r s -> Shape r s -> WShape r s -> OnTime r s ->
  prompt r s cs -> crun r s cs = Some s' -> OnTime r s'.
Proof.
  intros Hr. induction cs as [|c cs IH]; intros s s' I Sh WSh OT Pr H; cbn in H.
  - inversion H; subst. assumption.
  - destruct (cstep r s c) as [s1|] eqn:E; [|discriminate].
    cbn [prompt] in Pr. destruct Pr as [P1 P2]. rewrite E in P2.
    eapply (IH s1); [eapply cstep_inv; eassumption|eapply cstep_shape; eassumption|eapply cstep_wshape; eassumption|
                     eapply cstep_ontime; eassumption|exact P2|exact H].
Qed.

(* completion happens by the rounded deadline when the timer queue is served promptly *)
Lemma completes_on_time r t cs s tc m : 0 < r -> prompt r (init t) cs ->
  crun r (init t) cs = Some s -> In (tc, m) (done s) -> tc <= ceil_r r (t0 s + tmo s).
Proof.
  intros Hr Pr H Hin.
  pose proof (crun_ontime r Hr cs _ _ (inv_init r t) (shape_init r t) (wshape_init r t) (ontime_init r t) Pr H)
    as (_ & _ & B).
  exact (B tc m Hin).
Qed.

(* coarse runs are fine-grained runs: the fine theorems transfer *)
Fixpoint expand_all (r : Z) (s : st) (cs : list clabel) : list label :=
  match cs with
  | [] => []
  | c :: cs' => expand r s c ++ match cstep r s c with Some s' => expand_all r s' cs' | None => [] end
  end.

Lemma crun_refines r : forall cs s s', crun r s cs = Some s' -> run r s (expand_all r s cs) = Some s'.
Proof.
  induction cs as [|c cs IH]; intros s s' H; cbn in *; [assumption|].
  destruct (cstep r s c) as [s1|] eqn:E; [|discriminate].
  rewrite run_app, (cstep_refines r s c s1 E). now apply IH.
Qed.
