(* Proofs about the call-life model (C01). *)
From Scales Require Import Model.Base Model.CallLife.
From Coq Require Import ZifyBool.
Ltac Zify.zify_post_hook ::= Z.div_mod_to_equations.
Local Open Scope Z_scope.

Lemma ceil_r_ge r d : 0 < r -> d <= ceil_r r d.
Proof. intros H. unfold ceil_r. lia. Qed.

Lemma ceil_r_lt r d : 0 < r -> ceil_r r d < d + r.
Proof. intros H. unfold ceil_r. lia. Qed.

Lemma ceil_r_multiple r d : 0 < r -> (ceil_r r d) mod r = 0.
Proof. intros H. unfold ceil_r. apply Z.mod_mul. lia. Qed.

(* ---- the fine-grained invariant ---------------------------------------------------------------- *)
Fixpoint nresp (k : list frame) : nat :=
  match k with [] => O | FResp :: k' => S (nresp k') | _ :: k' => nresp k' end.

Definition timeouts_late (s : st) : Prop :=
  forall t, In (t, MTimeout) (done s) -> deadline s <= t.

Record Inv (r : Z) (s : st) : Prop := {
  inv_once : (nresp (stack s) + length (done s) <= 1)%nat;
  inv_idle : ph s <> Live -> stack s = [] /\ done s = [] /\ tmr s = TNone;
  inv_arm : forall dl, tmr s = TArmed dl -> dl = ceil_r r (deadline s) /\ ph s = Live;
  inv_late : timeouts_late s;
  inv_past : forall t m, In (t, m) (done s) -> t <= now s;
}.

Lemma inv_init r t : Inv r (init t).
Proof.
  constructor; cbn; try lia; try (intros; discriminate); try (intros ? []); try (intros ? ? []).
  - intros _. repeat split.
Qed.

Lemma enter_inv r s : 0 < r -> ph s = WaitOpen -> stack s = [] -> done s = [] -> tmr s = TNone -> Inv r (enter r s).
Proof.
  intros Hr Hp Hs Hd Ht. unfold enter.
  destruct (Z.ltb_spec (deadline s) (now s)) as [L|L].
  - constructor; cbn; rewrite ?Hd; cbn.
    + lia.
    + intros X. exfalso. apply X. reflexivity.
    + intros dl' X. discriminate X.
    + intros tt [].
    + intros tt mm [].
  - constructor; cbn; rewrite ?Hd; cbn.
    + lia.
    + intros X. exfalso. apply X. reflexivity.
    + intros dl' X. inversion X; subst. split; reflexivity.
    + intros tt [].
    + intros tt mm [].
Qed.

Lemma step_inv r s l s' : 0 < r -> Inv r s -> step r s l = Some s' -> Inv r s'.
Proof.
  intros Hr I H. destruct l as [T opened| |t| | | |m]; cbn in H.
  - (* Issue *)
    destruct (ph s) eqn:P; try discriminate. destruct (Z.leb_spec T 0); [discriminate|].
    inversion H; subst; clear H. destruct opened.
    + apply enter_inv; try reflexivity; assumption.
    + constructor; cbn.
      * lia.
      * intros _. repeat split.
      * intros dl X. discriminate X.
      * intros tt [].
      * intros tt mm [].
  - (* OpenDone *)
    destruct (ph s) eqn:P; try discriminate. inversion H; subst; clear H.
    destruct (inv_idle r s I) as (A & B & C); [congruence|]. apply enter_inv; assumption.
  - (* Tick *)
    destruct (Z.ltb_spec t (now s)); [discriminate|]. inversion H; subst; clear H.
    destruct I as [I1 I2 I3 I4 I5]. constructor; cbn; try assumption.
    intros t' m Hin. specialize (I5 _ _ Hin). lia.
  - (* Fire *)
    destruct (tmr s) as [|dl| |] eqn:Tm; try discriminate.
    destruct (Z.ltb_spec (now s) dl); [discriminate|]. inversion H; subst; clear H.
    destruct I as [I1 I2 I3 I4 I5]. constructor; cbn; try assumption.
    + intros X. destruct (I3 dl Tm) as [_ L]. congruence.
    + intros dl' X. discriminate X.
  - (* Push *)
    destruct (ph s) eqn:P; try discriminate. inversion H; subst; clear H.
    destruct I as [I1 I2 I3 I4 I5]. constructor; cbn; try assumption.
    intros X. congruence.
  - (* Unpush *)
    destruct (ph s) eqn:P; try discriminate. destruct (stack s) as [|f k] eqn:K; try discriminate.
    destruct f; try discriminate. inversion H; subst; clear H.
    destruct I as [I1 I2 I3 I4 I5]. rewrite K in I1. constructor; cbn in *; try assumption.
    intros X. congruence.
  - (* Pop *)
    destruct (ph s) eqn:P; try discriminate.
    destruct (early m s) eqn:G; [discriminate|]. unfold early in G.
    destruct (stack s) as [|f k] eqn:K; [inversion H; subst; exact I|].
    destruct I as [I1 I2 I3 I4 I5]. rewrite K in I1.
    destruct f; inversion H; subst; clear H.
    + (* FResp: completion *)
      constructor; unfold timeouts_late, deadline in *; cbn in *.
      * lia.
      * intros X. congruence.
      * intros dl0 X0. destruct (I3 dl0 X0) as [Y Y2]. split; [exact Y|first [reflexivity|exact Y2|exact P]].
      * intros t [E|Hin]; [|now apply I4].
        inversion E; subst. destruct (Z.ltb_spec (now s) (t0 s + tmo s)); [discriminate|]. lia.
      * intros t m' [E|Hin]; [inversion E; lia|eauto].
    + (* FTimeout: cancel *)
      constructor; unfold timeouts_late, deadline in *; cbn in *.
      * lia.
      * intros X. congruence.
      * intros dl X. destruct (tmr s); discriminate X.
      * exact I4.
      * exact I5.
    + (* FLower *)
      constructor; unfold timeouts_late, deadline in *; cbn in *.
      * lia.
      * intros X. congruence.
      * intros dl0 X0. destruct (I3 dl0 X0) as [Y Y2]. split; [exact Y|first [reflexivity|exact Y2|exact P]].
      * exact I4.
      * exact I5.
Qed.

Lemma run_inv r : 0 < r -> forall ls s s', Inv r s -> run r s ls = Some s' -> Inv r s'.
Proof.
  intros Hr. induction ls as [|l ls IH]; intros s s' I H; cbn in H.
  - inversion H; subst. assumption.
  - destruct (step r s l) as [s1|] eqn:E; [|discriminate]. eapply IH; [|eassumption]. eapply step_inv; eassumption.
Qed.

Lemma run_app r ls1 : forall s ls2, run r s (ls1 ++ ls2) =
  match run r s ls1 with Some s1 => run r s1 ls2 | None => None end.
Proof. induction ls1 as [|l ls1 IH]; intros s ls2; cbn; [reflexivity|]. destruct (step r s l); [apply IH|reflexivity]. Qed.

(* ---- exactly once / late arrivals are inert ---------------------------------------------------- *)
Lemma at_most_once r t ls s : 0 < r -> run r (init t) ls = Some s -> (length (done s) <= 1)%nat.
Proof. intros Hr H. pose proof (run_inv r Hr ls _ _ (inv_init r t) H) as I. pose proof (inv_once r s I). lia. Qed.

Lemma step_done_inert r s l s' x : Inv r s -> step r s l = Some s' -> done s = [x] -> done s' = [x].
Proof.
  intros I H D. destruct l as [T opened| |t| | | |m]; cbn in H.
  - destruct (ph s) eqn:P; try discriminate. destruct (inv_idle r s I) as (_ & B & _); congruence.
  - destruct (ph s) eqn:P; try discriminate. destruct (inv_idle r s I) as (_ & B & _); congruence.
  - destruct (Z.ltb_spec t (now s)); [discriminate|]. inversion H; subst. assumption.
  - destruct (tmr s); try discriminate. destruct (now s <? dl); [discriminate|]. inversion H; subst. assumption.
  - destruct (ph s); try discriminate. inversion H; subst. assumption.
  - destruct (ph s); try discriminate. destruct (stack s) as [|f k]; try discriminate.
    destruct f; try discriminate. inversion H; subst. assumption.
  - destruct (ph s); try discriminate.
    destruct (early m s); [discriminate|].
    pose proof (inv_once r s I) as O. rewrite D in O. cbn in O.
    destruct (stack s) as [|f k] eqn:K; [inversion H; subst; assumption|].
    destruct f; inversion H; subst; cbn in *; try assumption. lia.
Qed.

Lemma run_done_inert r : 0 < r -> forall ls s s' x, Inv r s -> run r s ls = Some s' -> done s = [x] -> done s' = [x].
Proof.
  intros Hr. induction ls as [|l ls IH]; intros s s' x I H D; cbn in H.
  - inversion H; subst. assumption.
  - destruct (step r s l) as [s1|] eqn:E; [|discriminate].
    eapply IH; [eapply step_inv; eassumption| eassumption |]. eapply step_done_inert; eassumption.
Qed.

Lemma run_done_nonempty r : 0 < r -> forall ls s s', Inv r s -> run r s ls = Some s' -> done s <> [] -> done s' <> [].
Proof.
  intros Hr ls s s' I H D. destruct (done s) as [|x d] eqn:Ds; [congruence|].
  assert (d = []).
  { pose proof (inv_once r s I) as O. rewrite Ds in O. cbn in O. destruct d; [reflexivity|cbn in O; lia]. }
  subst d. rewrite (run_done_inert r Hr ls s s' x I H Ds). discriminate.
Qed.

(* ---- TimeoutError is never early; the timer path satisfies the guard ----------------------------- *)
Lemma timeout_not_early r t ls s tc : 0 < r -> run r (init t) ls = Some s -> In (tc, MTimeout) (done s) -> t0 s + tmo s <= tc.
Proof. intros Hr H Hin. pose proof (run_inv r Hr ls _ _ (inv_init r t) H) as I. exact (inv_late r s I tc Hin). Qed.

Lemma fire_consistent r s s' : 0 < r -> Inv r s -> step r s Fire = Some s' -> deadline s' <= now s' /\ ph s' = Live.
Proof.
  intros Hr I H. cbn in H. destruct (tmr s) as [|dl| |] eqn:Tm; try discriminate.
  destruct (Z.ltb_spec (now s) dl); [discriminate|]. inversion H; subst; clear H. cbn.
  destruct (inv_arm r s I dl Tm) as [E P]. split; [|assumption].
  pose proof (ceil_r_ge r (deadline s) Hr). unfold deadline in *. cbn. lia.
Qed.

(* ---- coarse labels: responses are always drained completely (no handler raises or swallows) ---- *)
Inductive clabel :=
| CIssue (T : Z) (opened : bool) | COpenDone | CTick (t : Z) | CFire | CPush | CUnpush | CDrain (m : mkind).

Definition expired_entry (s : st) : bool := deadline s <? now s.

Definition cstep (r : Z) (s : st) (c : clabel) : option st :=
  match c with
  | CIssue T opened =>
      match step r s (Issue T opened) with
      | Some s1 => if opened && expired_entry s1 then run r s1 (drain_all s1 MTimeout) else Some s1
      | None => None
      end
  | COpenDone =>
      match step r s OpenDone with
      | Some s1 => if expired_entry s1 then run r s1 (drain_all s1 MTimeout) else Some s1
      | None => None
      end
  | CTick t => step r s (Tick t)
  | CFire => match step r s Fire with Some s1 => run r s1 (drain_all s1 MTimeout) | None => None end
  | CPush => step r s Push
  | CUnpush => step r s Unpush
  | CDrain m => match ph s with Live => run r s (drain_all s m) | _ => None end
  end.

Fixpoint crun (r : Z) (s : st) (cs : list clabel) : option st :=
  match cs with
  | [] => Some s
  | c :: cs' => match cstep r s c with Some s' => crun r s' cs' | None => None end
  end.

(* every coarse step is a sequence of fine steps, so all fine-grained theorems apply to coarse runs *)
Definition expand (r : Z) (s : st) (c : clabel) : list label :=
  match c with
  | CIssue T opened =>
      Issue T opened :: match step r s (Issue T opened) with
                        | Some s1 => if opened && expired_entry s1 then drain_all s1 MTimeout else []
                        | None => [] end
  | COpenDone => OpenDone :: match step r s OpenDone with
                             | Some s1 => if expired_entry s1 then drain_all s1 MTimeout else []
                             | None => [] end
  | CTick t => [Tick t]
  | CFire => Fire :: match step r s Fire with Some s1 => drain_all s1 MTimeout | None => [] end
  | CPush => [Push]
  | CUnpush => [Unpush]
  | CDrain m => drain_all s m
  end.

Lemma cstep_refines r s c s' : cstep r s c = Some s' -> run r s (expand r s c) = Some s'.
Proof.
  destruct c as [T opened| |t| | | |m]; cbn [cstep expand]; intros H.
  - cbn [run]. destruct (step r s (Issue T opened)) as [s1|]; [|discriminate].
    destruct (opened && expired_entry s1); [assumption|]. cbn. assumption.
  - cbn [run]. destruct (step r s OpenDone) as [s1|]; [|discriminate].
    destruct (expired_entry s1); [assumption|]. cbn. assumption.
  - cbn [run]. destruct (step r s (Tick t)); [|discriminate]. cbn. assumption.
  - cbn [run]. destruct (step r s Fire) as [s1|]; [|discriminate]. assumption.
  - cbn [run]. destruct (step r s Push); [|discriminate]. cbn. assumption.
  - cbn [run]. destruct (step r s Unpush); [|discriminate]. cbn. assumption.
  - destruct (ph s); try discriminate. assumption.
Qed.

Lemma cstep_inv r s c s' : 0 < r -> Inv r s -> cstep r s c = Some s' -> Inv r s'.
Proof. intros Hr I H. apply cstep_refines in H. eapply run_inv; eassumption. Qed.

Lemma crun_inv r : 0 < r -> forall cs s s', Inv r s -> crun r s cs = Some s' -> Inv r s'.
Proof.
  intros Hr. induction cs as [|c cs IH]; intros s s' I H; cbn in H.
  - inversion H; subst. assumption.
  - destruct (cstep r s c) as [s1|] eqn:E; [|discriminate]. eapply IH; [|eassumption]. eapply cstep_inv; eassumption.
Qed.

(* draining a stack of lower frames on top of [FTimeout; FResp] or [FResp] completes the call *)
Definition lowers (n : nat) : list frame := repeat FLower n.

Lemma drain_lowers r m n : forall s k,
  ph s = Live -> stack s = lowers n ++ k ->
  (early m s) = false ->
  run r s (drain m n) = Some (set_stack s k).
Proof.
  induction n as [|n IH]; intros s k P K G; cbn [drain run].
  - cbn in K. destruct s; cbn in *; subst. reflexivity.
  - cbn [lowers repeat app] in K.
    assert (E : step r s (Pop m) = Some (set_stack s (lowers n ++ k))).
    { cbn [step]. rewrite P, G, K. reflexivity. }
    rewrite E. rewrite (IH (set_stack s (lowers n ++ k)) k); try reflexivity; cbn; assumption.
Qed.

Lemma length_lowers n k : length (lowers n ++ k) = (n + length k)%nat.
Proof. unfold lowers. now rewrite app_length, repeat_length. Qed.

Lemma drain_add m a b : drain m (a + b) = drain m a ++ drain m b.
Proof. induction a as [|a IH]; cbn; [reflexivity|]. now rewrite IH. Qed.

(* Shape invariant of coarse runs: a live, uncompleted call still has its timer armed and both frames. *)
Definition Shape (r : Z) (s : st) : Prop :=
  ph s = Live ->
  done s <> [] \/ (exists n, stack s = lowers n ++ [FTimeout; FResp]) /\ tmr s = TArmed (ceil_r r (deadline s)).

Lemma early_same m s s' : now s' = now s -> t0 s' = t0 s -> tmo s' = tmo s -> early m s' = early m s.
Proof. intros A B C. unfold early, deadline. now rewrite A, B, C. Qed.

Lemma pop_two r s m : ph s = Live -> stack s = [FTimeout; FResp] -> early m s = false ->
  exists s', run r s [Pop m; Pop m] = Some s' /\ done s' = (now s, m) :: done s /\ ph s' = Live /\
             now s' = now s /\ t0 s' = t0 s /\ tmo s' = tmo s.
Proof.
  intros P K G. cbn [run step]. rewrite P, G, K. cbn [ph stack now t0 tmo tmr done].
  rewrite (early_same m s) by reflexivity. rewrite G.
  eexists. split; [reflexivity|]. cbn. repeat split; assumption.
Qed.

Lemma drain_all_complete r s m n :
  ph s = Live -> stack s = lowers n ++ [FTimeout; FResp] -> early m s = false ->
  exists s', run r s (drain_all s m) = Some s' /\ done s' = (now s, m) :: done s /\ ph s' = Live /\
             now s' = now s /\ t0 s' = t0 s /\ tmo s' = tmo s.
Proof.
  intros P K G. unfold drain_all. rewrite K, length_lowers. cbn [length].
  rewrite drain_add, run_app. rewrite (drain_lowers r m n s [FTimeout; FResp] P K G).
  apply (pop_two r (set_stack s [FTimeout; FResp]) m); [exact P|reflexivity|].
  rewrite (early_same m s) by reflexivity. exact G.
Qed.

Lemma cstep_shape r s c s' : 0 < r -> Inv r s -> Shape r s ->
  (forall T, c <> CIssue T false) -> c <> COpenDone ->
  cstep r s c = Some s' -> Shape r s'.
Proof.
  intros Hr I Sh Hno1 Hno2 H. destruct c as [T opened| |t| | | |m]; cbn [cstep] in H.
  - destruct opened; [|exfalso; eapply Hno1; reflexivity].
    cbn [step] in H. destruct (ph s) eqn:P; try discriminate.
    destruct (Z.leb_spec T 0); [discriminate|].
    set (s1 := {| now := now s; ph := WaitOpen; t0 := now s; tmo := T; stack := []; tmr := TNone; done := [] |}) in *.
    assert (X : expired_entry (enter r s1) = false).
    { unfold expired_entry, enter, deadline. cbn. destruct (Z.ltb_spec (now s + T) (now s)); cbn; lia. }
    rewrite X in H. cbn in H. inversion H; subst; clear H.
    intros _. right. unfold enter, deadline. cbn. destruct (Z.ltb_spec (now s + T) (now s)); [lia|]. cbn.
    split; [exists O; reflexivity|reflexivity].
  - exfalso. apply Hno2. reflexivity.
  - cbn in H. destruct (Z.ltb_spec t (now s)); [discriminate|]. inversion H; subst; clear H.
    intros P. cbn in P. destruct (Sh P) as [D|[[n K] Tm]]; [left; exact D|right]. cbn. split; [exists n; exact K|exact Tm].
  - destruct (step r s Fire) as [s1|] eqn:E; [|discriminate].
    destruct (fire_consistent r s s1 Hr I E) as [G P1].
    pose proof (step_inv r s Fire s1 Hr I E) as I1.
    assert (F : done s1 = done s /\ stack s1 = stack s /\ ph s1 = ph s).
    { cbn in E. destruct (tmr s); try discriminate. destruct (now s <? dl); [discriminate|]. inversion E; subst. cbn. auto. }
    destruct F as (Fd & Fs & Fp). rewrite Fp in P1.
    intros _. left.
    destruct (Sh P1) as [D|[[n K] _]].
    + apply (run_done_nonempty r Hr _ s1 s' I1 H). now rewrite Fd.
    + destruct (drain_all_complete r s1 MTimeout n) as (s2 & R & D & _).
      * now rewrite Fp.
      * now rewrite Fs.
      * unfold early. destruct (Z.ltb_spec (now s1) (deadline s1)); [lia|reflexivity].
      * rewrite R in H. inversion H; subst. rewrite D. discriminate.
  - cbn in H. destruct (ph s) eqn:P; try discriminate. inversion H; subst; clear H.
    intros _. cbn. destruct (Sh P) as [D|[[n K] Tm]]; [left; exact D|right].
    split; [exists (S n); cbn; now rewrite K|exact Tm].
  - cbn in H. destruct (ph s) eqn:P; try discriminate. destruct (stack s) as [|f k] eqn:K0; try discriminate.
    destruct f; try discriminate. inversion H; subst; clear H.
    intros _. cbn. destruct (Sh P) as [D|[[n K] Tm]]; [left; exact D|right].
    split; [|exact Tm]. rewrite K0 in K. destruct n as [|n]; unfold lowers in K; cbn in K; [discriminate|]. inversion K; subst. exists n. reflexivity.
  - destruct (ph s) eqn:P; try discriminate.
    intros _. left.
    destruct (Sh P) as [D|[[n K] Tm]].
    + apply (run_done_nonempty r Hr _ s s' I H D).
    + (* the drain is only enabled when its guard holds at the first Pop; then it completes *)
      destruct (early m s) eqn:G.
      * exfalso. unfold drain_all in H. rewrite K, length_lowers in H. cbn [length] in H.
        replace (n + 2)%nat with (S (n + 1)) in H by lia. cbn [drain run step] in H. rewrite P, G in H. discriminate.
      * destruct (drain_all_complete r s m n P K G) as (s2 & R & D & _).
        rewrite R in H. inversion H; subst. rewrite D. discriminate.
Qed.

Definition opened_only (cs : list clabel) : Prop :=
  forall c, In c cs -> (forall T, c <> CIssue T false) /\ c <> COpenDone.

Lemma crun_shape r : 0 < r -> forall cs s s', Inv r s -> Shape r s -> opened_only cs -> crun r s cs = Some s' -> Shape r s'.
Proof.
  intros Hr. induction cs as [|c cs IH]; intros s s' I Sh Ho H; cbn in H.
  - inversion H; subst. assumption.
  - destruct (cstep r s c) as [s1|] eqn:E; [|discriminate].
    destruct (Ho c (or_introl eq_refl)) as [A B].
    eapply (IH s1); [eapply cstep_inv; eassumption|eapply cstep_shape; eassumption| |exact H].
    intros c' Hin. apply Ho. now right.
Qed.

Lemma shape_init r t : Shape r (init t).
Proof. intros P. cbn in P. discriminate. Qed.

(* the deadline guarantee *)
Lemma deadline_met r t cs s : 0 < r -> opened_only cs -> crun r (init t) cs = Some s ->
  ph s = Live -> ceil_r r (t0 s + tmo s) <= now s -> fire_enabled s = false -> done s <> [].
Proof.
  intros Hr Ho H P L F.
  pose proof (crun_shape r Hr cs _ _ (inv_init r t) (shape_init r t) Ho H) as Sh.
  destruct (Sh P) as [D|[_ Tm]]; [exact D|].
  unfold fire_enabled in F. rewrite Tm in F. unfold deadline in F. lia.
Qed.

(* ---- completion time under prompt timer service ---------------------------------------------- *)
(* a coarse trace is prompt when the clock never moves past an armed timer's rounded deadline,
   i.e. the timer queue runs due actions before time advances further (its C10 guarantee) *)
Definition prompt_step (s : st) (c : clabel) : Prop :=
  match c, tmr s with CTick t, TArmed dl => t <= dl | _, _ => True end.

Fixpoint prompt (r : Z) (s : st) (cs : list clabel) : Prop :=
  match cs with
  | [] => True
  | c :: cs' => prompt_step s c /\ match cstep r s c with Some s' => prompt r s' cs' | None => True end
  end.

Definition OnTime (r : Z) (s : st) : Prop :=
  (forall dl, tmr s = TArmed dl -> now s <= dl) /\
  (ph s = Live -> forall tc m, In (tc, m) (done s) -> tc <= ceil_r r (deadline s)).

Lemma ontime_init r t : OnTime r (init t).
Proof. split; cbn; intros; try discriminate; contradiction. Qed.

Lemma run_drain_facts r m : forall n s s', run r s (drain m n) = Some s' ->
  now s' = now s /\ t0 s' = t0 s /\ tmo s' = tmo s /\ ph s' = ph s /\
  (forall x, In x (done s') -> In x (done s) \/ x = (now s, m)) /\
  (tmr s' = tmr s \/ tmr s' = TCancelled).
Proof.
  induction n as [|n IH]; intros s s' H; cbn [drain run] in H.
  - inversion H; subst. repeat split; auto.
  - destruct (step r s (Pop m)) as [s1|] eqn:E; [|discriminate].
    destruct (IH _ _ H) as (A & B & C & D & F & G).
    cbn in E. destruct (ph s) eqn:P; try discriminate.
    destruct (early m s); [discriminate|].
    destruct (stack s) as [|f k].
    + inversion E; subst. repeat split; auto; congruence.
    + destruct f; inversion E; subst; clear E; cbn in *.
      * repeat split; auto; try congruence.
        intros x Hx. destruct (F x Hx) as [[X|X]|X]; auto.
      * repeat split; auto; try congruence.
        destruct G as [G|G]; rewrite G; destruct (tmr s); auto.
      * repeat split; auto; congruence.
Qed.

Lemma cstep_ontime r s c s' : 0 < r -> Inv r s -> Shape r s -> OnTime r s ->
  (forall T, c <> CIssue T false) -> c <> COpenDone -> prompt_step s c ->
  cstep r s c = Some s' -> OnTime r s'.
Proof.
  intros Hr I Sh (A & B) Hno1 Hno2 Pr H.
  destruct c as [T opened| |t| | | |m]; cbn [cstep] in H.
  - destruct opened; [|exfalso; eapply Hno1; reflexivity].
    cbn [step] in H. destruct (ph s) eqn:P; try discriminate. destruct (Z.leb_spec T 0); [discriminate|].
    set (s1 := {| now := now s; ph := WaitOpen; t0 := now s; tmo := T; stack := []; tmr := TNone; done := [] |}) in *.
    assert (X : expired_entry (enter r s1) = false).
    { unfold expired_entry, enter, deadline. cbn. destruct (Z.ltb_spec (now s + T) (now s)); cbn; lia. }
    rewrite X in H. cbn in H. inversion H; subst; clear H.
    unfold enter, deadline. cbn. destruct (Z.ltb_spec (now s + T) (now s)); [lia|]. cbn.
    split; cbn.
    + intros dl0 E. inversion E; subst. pose proof (ceil_r_ge r (now s + T) Hr). lia.
    + intros _ tc m [].
  - exfalso. apply Hno2. reflexivity.
  - cbn in H. destruct (Z.ltb_spec t (now s)); [discriminate|]. inversion H; subst; clear H. cbn.
    split; cbn.
    + intros dl0 E. unfold prompt_step in Pr. rewrite E in Pr. exact Pr.
    + exact B.
  - destruct (step r s Fire) as [s1|] eqn:E; [|discriminate].
    assert (F : exists dl0, tmr s = TArmed dl0 /\ dl0 <= now s /\ done s1 = done s /\ ph s1 = ph s /\
                now s1 = now s /\ t0 s1 = t0 s /\ tmo s1 = tmo s /\ tmr s1 = TFired).
    { cbn in E. destruct (tmr s) as [|dl0| |]; try discriminate. destruct (Z.ltb_spec (now s) dl0); [discriminate|].
      inversion E; subst. cbn. exists dl0. repeat split; auto. }
    destruct F as (dl0 & Tm & Due & Fd & Fp & Fn & F0 & FT & Ftm).
    destruct (inv_arm r s I dl0 Tm) as [Edl P].
    destruct (run_drain_facts r MTimeout _ _ _ H) as (N & T0 & TM & PH & DN & TMR).
    split.
    + intros dl1 E1. destruct TMR as [X|X]; rewrite X in E1; [rewrite Ftm in E1|]; discriminate.
    + intros _ tc m Hin. unfold deadline. rewrite T0, TM, F0, FT. destruct (DN _ Hin) as [X|X].
      * rewrite Fd in X. apply (B P tc m X) || apply (B eq_refl tc m X).
      * injection X as Xa Xb. specialize (A dl0 Tm). unfold deadline in Edl. lia.
  - cbn in H. destruct (ph s) eqn:P; try discriminate. inversion H; subst; clear H.
    split; [exact A|]. intros _ tc m0 Hin. exact (B eq_refl tc m0 Hin).
  - cbn in H. destruct (ph s) eqn:P; try discriminate. destruct (stack s) as [|f k]; try discriminate.
    destruct f; try discriminate. inversion H; subst; clear H.
    split; [exact A|]. intros _ tc m0 Hin. exact (B eq_refl tc m0 Hin).
  - destruct (ph s) eqn:P; try discriminate.
    destruct (run_drain_facts r m _ _ _ H) as (N & T0 & TM & PH & DN & TMR).
    split.
    + intros dl1 E1. rewrite N. destruct TMR as [X|X]; rewrite X in E1; [auto|discriminate].
    + intros _ tc m' Hin. unfold deadline. rewrite T0, TM.
      destruct (Sh P) as [D|[_ Tm]].
      * (* already completed: nothing new *)
        destruct (done s) as [|y d] eqn:Ds; [congruence|].
        assert (d = []).
        { pose proof (inv_once r s I) as O. rewrite Ds in O. cbn in O. destruct d; [reflexivity|cbn in O; lia]. }
        subst d. rewrite (run_done_inert r Hr _ s s' y I H Ds) in Hin.
        apply (B eq_refl tc m'). exact Hin.
      * destruct (DN _ Hin) as [X|X]; [apply (B eq_refl tc m' X)|].
        injection X as Xa Xb. specialize (A _ Tm). unfold deadline in A. lia.
Qed.

Lemma crun_ontime r : 0 < r -> forall cs s s', Inv r s -> Shape r s -> OnTime r s -> opened_only cs ->
  prompt r s cs -> crun r s cs = Some s' -> OnTime r s'.
Proof.
  intros Hr. induction cs as [|c cs IH]; intros s s' I Sh OT Ho Pr H; cbn in H.
  - inversion H; subst. assumption.
  - destruct (cstep r s c) as [s1|] eqn:E; [|discriminate].
    destruct (Ho c (or_introl eq_refl)) as [A B]. cbn [prompt] in Pr. destruct Pr as [P1 P2]. rewrite E in P2.
    eapply (IH s1); [eapply cstep_inv; eassumption|eapply cstep_shape; eassumption|
                     eapply cstep_ontime; eassumption| |exact P2|exact H].
    intros c' Hin. apply Ho. now right.
Qed.

(* completion happens by the rounded deadline when the timer queue is served promptly *)
Lemma completes_on_time r t cs s tc m : 0 < r -> opened_only cs -> prompt r (init t) cs ->
  crun r (init t) cs = Some s -> In (tc, m) (done s) -> tc <= ceil_r r (t0 s + tmo s).
Proof.
  intros Hr Ho Pr H Hin.
  pose proof (crun_ontime r Hr cs _ _ (inv_init r t) (shape_init r t) (ontime_init r t) Ho Pr H) as [_ B].
  pose proof (crun_inv r Hr cs _ _ (inv_init r t) H) as I.
  apply (B) with (m := m); [|exact Hin].
  destruct (ph s) eqn:P; [| |reflexivity]; destruct (inv_idle r s I) as (_ & D & _); try congruence; rewrite D in Hin; contradiction.
Qed.

(* coarse runs are fine-grained runs: the fine theorems transfer *)
Fixpoint expand_all (r : Z) (s : st) (cs : list clabel) : list label :=
  match cs with
  | [] => []
  | c :: cs' => expand r s c ++ match cstep r s c with Some s' => expand_all r s' cs' | None => [] end
  end.

Lemma crun_refines r : forall cs s s', crun r s cs = Some s' -> run r s (expand_all r s cs) = Some s'.
Proof.
  induction cs as [|c cs IH]; intros s s' H; cbn in *; [assumption|].
  destruct (cstep r s c) as [s1|] eqn:E; [|discriminate].
  rewrite run_app, (cstep_refines r s c s1 E). now apply IH.
Qed.
