(* Lemmas about Model/Resurrector.v.  Property statements are in Props/C09.v. *)
From Scales Require Import Model.Base Model.Resurrector.
Local Open Scope Z_scope.

Section Proofs.
Variable next : Z -> Z.
Variable tplus : Z -> Z -> Z.
Variable w0 : Z.
Variable odur : Z.
Hypothesis Hodur : 0 <= odur.

Notation step := (step next tplus w0 odur).
Notation run := (run next tplus w0 odur).
Notation exec := (exec next tplus w0 odur).

(* the sleeps of one outage, newest first: w0, next w0, next (next w0), ... *)
Fixpoint chain (h : list Z) : Prop :=
  match h with
  | [] => True
  | w :: r => match r with [] => w = w0 | w' :: _ => w = next w' /\ chain r end
  end.

Definition cur_wait (g : pc) : option Z :=
  match g with NoGreenlet => None | Sleeping _ w => Some w | Opening _ w _ => Some w end.

Record Inv (s : state) : Prop := {
  i_down : is_down s = true -> next_sink s = None /\ subscribed s = false /\ gl s <> NoGreenlet;
  i_up : is_down s = false -> gl s = NoGreenlet;
  i_sub : subscribed s = true -> next_sink s <> None;
  i_hist : chain (hist s);
  i_wait : forall w, cur_wait (gl s) = Some w -> exists r, hist s = w :: r;
  i_since : match gl s with
            | NoGreenlet => True
            | Sleeping st _ => st <= now s
            | Opening st _ _ => st <= now s /\ now s <= st + odur
            end
}.

Lemma inv_init t0 : Inv (init t0).
Proof. constructor; cbn; intros; try discriminate; auto. Qed.

Ltac inv_some :=
  repeat match goal with
  | H : Some _ = Some _ |- _ => inversion H; subst; clear H
  | H : None = Some _ |- _ => discriminate H
  | H : (if ?b then _ else _) = Some _ |- _ => destruct b eqn:?
  | H : match ?x with _ => _ end = Some _ |- _ => destruct x eqn:?
  end.

Lemma step_inv s l s' o : Inv s -> l <> LOpen -> step s l = Some (s', o) -> Inv s'.
Proof.
  intros [Hd Hu Hs Hh Hw Hsi] Hl H. destruct s as [ns sub dn g nw nk hs]. unfold is_down in *. cbn in *.
  destruct dn as [d|];
    [destruct (Hd eq_refl) as [Hd1 [Hd2 Hd3]]; clear Hd Hu | specialize (Hu eq_refl); clear Hd]; subst;
  (destruct l as [ | | | |ok| |t]; cbn in H; try congruence; inv_some;
    constructor; unfold is_down; cbn in *; intros; subst;
    repeat match goal with
    | H : _ /\ _ |- _ => destruct H
    | H : Some _ = Some _ |- _ => inversion H; subst; clear H
    end; try discriminate; try congruence; eauto; try lia;
    repeat match goal with |- _ /\ _ => split end; try discriminate; try congruence; eauto; try lia).
  all: try (match goal with H : forall w, Some _ = Some w -> _ |- _ => destruct (H _ eq_refl) as [r' Hr'] end;
            rewrite Hr' in *; cbn; auto).
  all: try (apply andb_true_iff in Heqb as [Hb1 Hb2]; destruct g; cbn in *; auto; lia).
Qed.

Lemma open_init_inv t0 s' o : step (init t0) LOpen = Some (s', o) -> Inv s'.
Proof.
  cbn. intros H. inversion H; subst; clear H. constructor; unfold is_down; cbn; intros; try discriminate; auto.
Qed.

Lemma run_inv tr : forall s s', Inv s -> ~ In LOpen tr -> run s tr = Some s' -> Inv s'.
Proof.
  induction tr as [|l tr IH]; intros s s' HI Hn H; cbn in H.
  - inversion H; subst; exact HI.
  - destruct (step s l) as [[s1 o]|] eqn:E; [|discriminate].
    eapply IH; [ | |exact H].
    + eapply step_inv; [exact HI| |exact E]. intros ->. apply Hn. left; reflexivity.
    + intros Hin. apply Hn. right; exact Hin.
Qed.

Lemma reach_inv t0 tr s : wf_trace tr -> run (init t0) tr = Some s -> Inv s.
Proof.
  unfold wf_trace. destruct tr as [|l tr]; cbn [tl]; intros Hwf H.
  - cbn in H. inversion H; subst. apply inv_init.
  - cbn [Resurrector.run] in H. destruct (step (init t0) l) as [[s1 o]|] eqn:E; [|discriminate].
    destruct (label_eqb l LOpen) eqn:EL.
    + destruct l; try discriminate EL. eapply run_inv; [eapply open_init_inv; exact E|exact Hwf|exact H].
    + eapply run_inv; [ |exact Hwf|exact H]. eapply step_inv; [apply inv_init| |exact E].
      intros ->. discriminate EL.
Qed.

(* ---- fail fast -------------------------------------------------------------------------------------- *)
Lemma down_fail_fast s : Inv s -> is_down s = true -> step s LReq = Some (s, [OFailFast]).
Proof. intros HI Hd. destruct (i_down _ HI Hd) as [Hn _]. cbn. rewrite Hn. reflexivity. Qed.

(* the `else` branch of `if not self._down_on` in _OnSinkFaulted is dead: no fault reaches a down sink *)
Lemma down_no_fault s : Inv s -> is_down s = true -> step s LFault = None.
Proof. intros HI Hd. destruct (i_down _ HI Hd) as [_ [Hs _]]. cbn. rewrite Hs. reflexivity. Qed.

(* ---- back-off ---------------------------------------------------------------------------------------- *)
Section Backoff.
Variables one wmax : Z.
Hypothesis H1 : forall w, one <= w -> w <= wmax -> w <= next w.
Hypothesis H2 : forall w, next w <= wmax.
Hypothesis Hw0 : one <= w0 /\ w0 <= wmax.

Lemma chain_bounds h : chain h -> Forall (fun w => w0 <= w /\ w <= wmax) h.
Proof.
  induction h as [|w r IH]; intros C; [constructor|].
  destruct r as [|w' r'].
  - cbn in C. subst. constructor; [lia|constructor].
  - change (w = next w' /\ chain (w' :: r')) in C. destruct C as [-> C]. specialize (IH C). constructor; [|exact IH].
    inversion IH as [|? ? [Ha Hb] _]; subst. split; [|apply H2]. specialize (H1 w'). lia.
Qed.

(* newest first: every sleep is at least as long as the one before it *)
Inductive nonincr : list Z -> Prop :=
| ni_nil : nonincr []
| ni_one w : nonincr [w]
| ni_cons w w' r : w' <= w -> nonincr (w' :: r) -> nonincr (w :: w' :: r).

Lemma chain_nonincr h : chain h -> nonincr h.
Proof.
  induction h as [|w r IH]; intros C; [constructor|].
  destruct r as [|w' r']; [constructor|].
  change (w = next w' /\ chain (w' :: r')) in C. destruct C as [-> C]. constructor; [|apply IH; exact C].
  pose proof (chain_bounds _ C) as F. inversion F as [|? ? [Ha Hb] _]; subst. apply H1; lia.
Qed.

(* "growing": if moreover the back-off function is strictly increasing below the cap (true of w => min (w^e) max
   for w > 1 s, e > 1), each sleep is strictly longer than the one before until the cap is reached, then stays there *)
Hypothesis H1s : forall w, one < w -> w < wmax -> w < next w.

Inductive growing : list Z -> Prop :=
| gr_nil : growing []
| gr_one w : growing [w]
| gr_cons w w' r : (w' < w \/ (w' = wmax /\ w = wmax)) -> growing (w' :: r) -> growing (w :: w' :: r).

Lemma chain_growing h : one < w0 -> chain h -> growing h.
Proof.
  intros Hs. induction h as [|w r IH]; intros C; [constructor|].
  destruct r as [|w' r']; [constructor|].
  change (w = next w' /\ chain (w' :: r')) in C. destruct C as [-> C]. constructor; [|apply IH; exact C].
  pose proof (chain_bounds _ C) as F. inversion F as [|? ? [Ha Hb] _]; subst.
  destruct (Z.eq_dec w' wmax) as [->|Hne].
  - right. split; [reflexivity|]. pose proof (H1 wmax) as Hx. pose proof (H2 wmax). lia.
  - left. apply H1s; lia.
Qed.
End Backoff.

(* `hist` really is the list of sleeps: it changes exactly when a sleep is entered *)
Lemma hist_records s l s' o : step s l = Some (s', o) ->
  match gl s' with
  | Sleeping st w =>
      (gl s = gl s' /\ hist s' = hist s) \/
      (st = now s /\ ((l = LFault /\ w = w0 /\ hist s' = [w0]) \/
                      (l = LOpenDone false /\ exists st0 wp sid, gl s = Opening st0 wp sid /\ w = next wp /\ hist s' = w :: hist s)))
  | _ => hist s' = hist s
  end.
Proof.
  intros H. destruct s as [ns sub dn g nw nk hs].
  destruct l as [ | | | |ok| |t]; cbn in H; inv_some; cbn; auto.
  all: try (destruct g; auto; fail).
  - right. split; [reflexivity|]. left. repeat split.
  - right. split; [reflexivity|]. right. split; [reflexivity|]. exists since, wait, sid. repeat split.
Qed.

(* a sleep lasts exactly its wait interval (as added by the clock) *)
Lemma wake_on_time s s' o : step s LWake = Some (s', o) ->
  exists st w, gl s = Sleeping st w /\ now s = tplus st w /\ exists sid, gl s' = Opening (now s) w sid /\ o = [OCreate sid; OOpenUnder sid].
Proof.
  intros H. destruct s as [ns sub dn g nw nk hs]. cbn in H. inv_some. cbn.
  apply Z.eqb_eq in Heqb. eauto 8.
Qed.

(* ---- close ------------------------------------------------------------------------------------------- *)
Definition quiet (s : state) : Prop := gl s = NoGreenlet /\ subscribed s = false /\ down_on s = None.

Definition creates (o : out) : bool := match o with OCreate _ | OOpenUnder _ => true | _ => false end.

Lemma close_quiet s s' o : Inv s -> step s LClose = Some (s', o) -> quiet s' /\ existsb creates o = false.
Proof.
  intros HI H. destruct s as [ns sub dn g nw nk hs]. cbn in H.
  destruct ns as [sid|]; inversion H; subst; clear H; unfold quiet; cbn; auto.
  repeat split; auto. destruct sub; auto. exfalso. apply (i_sub _ HI); reflexivity.
Qed.

Lemma quiet_step s l s' o : quiet s -> l <> LOpen -> step s l = Some (s', o) ->
  quiet s' /\ existsb creates o = false /\ l <> LWake /\ (forall ok, l <> LOpenDone ok) /\ l <> LFault.
Proof.
  intros [Hg [Hs Hd]] Hl H. destruct s as [ns sub dn g nw nk hs]. cbn in *. subst.
  destruct l as [ | | | |ok| |t]; cbn in H; try congruence; inv_some; unfold quiet; cbn;
    repeat split; auto; try congruence.
Qed.

Lemma quiet_exec tr : forall s s' outs, quiet s -> ~ In LOpen tr -> exec s tr = Some (s', outs) ->
  quiet s' /\ existsb creates outs = false /\ ~ In LWake tr /\ (forall ok, ~ In (LOpenDone ok) tr) /\ ~ In LFault tr.
Proof.
  induction tr as [|l tr IH]; intros s s' outs Q Hn H; cbn in H.
  - inversion H; subst. cbn. intuition.
  - destruct (step s l) as [[s1 o]|] eqn:E; [|discriminate].
    destruct (exec s1 tr) as [[s2 o2]|] eqn:E2; [|discriminate]. inversion H; subst; clear H.
    assert (Hl : l <> LOpen) by (intros ->; apply Hn; left; reflexivity).
    destruct (quiet_step _ _ _ _ Q Hl E) as [Q1 [C1 [N1 [N2 N3]]]].
    assert (Hn' : ~ In LOpen tr) by (intros Hin; apply Hn; right; exact Hin).
    destruct (IH _ _ _ Q1 Hn' E2) as [Q2 [C2 [M1 [M2 M3]]]].
    split; [exact Q2|]. split; [rewrite existsb_app, C1, C2; reflexivity|].
    split; [intros [Hx|Hx]; [exact (N1 Hx)|exact (M1 Hx)]|].
    split; [intros ok [Hx|Hx]; [exact (N2 ok Hx)|exact (M2 ok Hx)]|].
    intros [Hx|Hx]; [exact (N3 Hx)|exact (M3 Hx)].
Qed.

Lemma exec_run tr : forall s s' outs, exec s tr = Some (s', outs) -> run s tr = Some s'.
Proof.
  induction tr as [|l tr IH]; intros s s' outs H; cbn in *.
  - inversion H; reflexivity.
  - destruct (step s l) as [[s1 o]|]; [|discriminate].
    destruct (exec s1 tr) as [[s2 o2]|] eqn:E2; [|discriminate]. inversion H; subst. eapply IH; exact E2.
Qed.

Lemma run_app tr1 : forall tr2 s s', run s (tr1 ++ tr2) = Some s' -> exists s1, run s tr1 = Some s1 /\ run s1 tr2 = Some s'.
Proof.
  induction tr1 as [|l tr1 IH]; intros tr2 s s' H; cbn in *.
  - eauto.
  - destruct (step s l) as [[s1 o]|]; [|discriminate]. apply IH; exact H.
Qed.

Lemma run_app_intro tr1 : forall tr2 s s1 s', run s tr1 = Some s1 -> run s1 tr2 = Some s' -> run s (tr1 ++ tr2) = Some s'.
Proof.
  induction tr1 as [|l tr1 IH]; intros tr2 s s1 s' H1 H2; cbn in *.
  - inversion H1; subst; exact H2.
  - destruct (step s l) as [[sx o]|]; [|discriminate]. eapply IH; eauto.
Qed.

(* ---- recovery ---------------------------------------------------------------------------------------- *)
Section Recovery.
Variables wmax eps : Z.
Variable reach : Z -> Prop.
Hypothesis Htplus : forall t w, tplus t w <= t + w + eps.
Hypothesis H2 : forall w, next w <= wmax.
Hypothesis Hw0 : w0 <= wmax.
Hypothesis Hwmax : 0 <= wmax.
Hypothesis Heps : 0 <= eps.

(* interface contract of the sink underneath: an Open that was started at `st` and has completed by `now`
   succeeds only if the endpoint was reachable when it started, and does succeed if the endpoint was
   reachable during the whole attempt (failure = raise and/or fault, both end up as LOpenDone false) *)
Definition honest_step (s : state) (l : label) : Prop :=
  match l, gl s with
  | LOpenDone ok, Opening st _ _ =>
      (ok = true -> reach st) /\ ((forall t, st <= t <= now s -> reach t) -> ok = true)
  | _, _ => True
  end.

Fixpoint honest_run (s : state) (tr : list label) : Prop :=
  match tr with
  | [] => True
  | l :: r => honest_step s l /\ match step s l with Some (s', _) => honest_run s' r | None => True end
  end.

Lemma chain_le_wmax h : chain h -> Forall (fun w => w <= wmax) h.
Proof.
  induction h as [|w r IH]; intros C; [constructor|].
  destruct r as [|w' r'].
  - cbn in C. subst. constructor; [lia|constructor].
  - change (w = next w' /\ chain (w' :: r')) in C. destruct C as [-> C]. constructor; [apply H2|apply IH; exact C].
Qed.

Lemma cur_wait_le s w : Inv s -> cur_wait (gl s) = Some w -> w <= wmax.
Proof.
  intros HI Hc. destruct (i_wait _ HI _ Hc) as [r Hr]. pose proof (chain_le_wmax _ (i_hist _ HI)) as F.
  rewrite Hr in F. inversion F; subst; assumption.
Qed.

(* latest time by which the pending attempt cycle has produced a successful Open, given that the endpoint is
   reachable from rho on *)
Definition due (rho : Z) (s : state) : Z :=
  match gl s with
  | NoGreenlet => now s
  | Sleeping st w => tplus st w + odur
  | Opening st _ _ => if rho <=? st then st + odur else st + odur + wmax + eps + odur
  end.

Lemma recover_aux rho B : (forall t, rho <= t -> reach t) ->
  forall tr s s2, Inv s -> is_down s = true -> rho <= now s -> now s <= B -> due rho s <= B ->
  run s tr = Some s2 -> honest_run s tr -> ~ In LOpen tr -> ~ In LClose tr -> B < now s2 ->
  exists pre post s', tr = pre ++ LOpenDone true :: post /\ run s (pre ++ [LOpenDone true]) = Some s' /\
                      now s' <= B /\ next_sink s' <> None /\ down_on s' = None /\ subscribed s' = true.
Proof.
  intros Hreach. induction tr as [|l tr IH]; intros s s2 HI Hd Hrho HnB HdB Hrun Hhon HnO HnC Hlate.
  - cbn in Hrun. inversion Hrun; subst. lia.
  - cbn [Resurrector.run] in Hrun. destruct (step s l) as [[s1 o]|] eqn:E; [|discriminate].
    cbn [honest_run] in Hhon. destruct Hhon as [Hh1 Hh2]. rewrite E in Hh2.
    assert (Hl : l <> LOpen) by (intros ->; apply HnO; left; reflexivity).
    assert (HnO' : ~ In LOpen tr) by (intros Hin; apply HnO; right; exact Hin).
    assert (HnC' : ~ In LClose tr) by (intros Hin; apply HnC; right; exact Hin).
    pose proof (step_inv _ _ _ _ HI Hl E) as HI1.
    destruct (i_down _ HI Hd) as [Hns [Hsub Hgl]].
    (* success now? *)
    destruct l as [ | | | |ok| |t]; try congruence.
    + (* LFault: impossible while down *)
      rewrite (down_no_fault _ HI Hd) in E. discriminate.
    + (* LReq *)
      cbn in E. rewrite Hns in E. inversion E; subst.
      destruct (IH s1 s2 HI Hd Hrho HnB HdB Hrun Hh2 HnO' HnC' Hlate) as [pre [post [s' [Ht [Hr R]]]]].
      exists (LReq :: pre), post, s'. split; [cbn; rewrite Ht; reflexivity|]. split; [|exact R].
      cbn. rewrite Hns. exact Hr.
    + (* LWake *)
      destruct (wake_on_time _ _ _ E) as [st [w [Hg [Hnow [sid [Hg' Ho]]]]]].
      assert (Hs1 : now s1 = now s /\ is_down s1 = true).
      { destruct s as [ns sub dn g nw nk hs]. cbn in E, Hg. subst g. cbn in E.
        destruct (nw =? tplus st w); [|discriminate]. inversion E; subst. split; reflexivity || exact Hd. }
      destruct Hs1 as [Hn1 Hd1].
      assert (HdB1 : due rho s1 <= B).
      { unfold due. rewrite Hg'. unfold due in HdB. rewrite Hg in HdB.
        destruct (Z.leb_spec rho (now s)); lia. }
      destruct (IH s1 s2 HI1 Hd1 ltac:(lia) ltac:(lia) HdB1 Hrun Hh2 HnO' HnC' Hlate) as [pre [post [s' [Ht [Hr R]]]]].
      exists (LWake :: pre), post, s'. split; [cbn; rewrite Ht; reflexivity|]. split; [|exact R].
      cbn [app Resurrector.run]. rewrite E. exact Hr.
    + (* LOpenDone *)
      destruct s as [ns sub dn g nw nk hs]. cbn in E. destruct g as [|st w|st w sid]; try discriminate.
      pose proof (i_since _ HI) as Hsi. cbn in Hsi, Hh1, Hrho, HnB, HdB, Hns, Hsub. unfold due in HdB; cbn in HdB.
      destruct ok.
      * injection E as <- <-. exists [], tr, (mk (Some sid) true None NoGreenlet nw nk hs).
        split; [reflexivity|]. cbn. repeat split; auto. congruence.
      * (* a failed attempt: it must have started before rho *)
        destruct Hh1 as [_ Hh1].
        destruct (Z.leb_spec rho st) as [Hge|Hlt].
        { assert (false = true) by (apply Hh1; intros t Ht; apply Hreach; lia). discriminate. }
        injection E as <- <-.
        assert (Hd1 : is_down (mk ns sub dn (Sleeping nw (next w)) nw nk (next w :: hs)) = true) by exact Hd.
        assert (HdB1 : due rho (mk ns sub dn (Sleeping nw (next w)) nw nk (next w :: hs)) <= B).
        { unfold due; cbn. pose proof (Htplus nw (next w)). pose proof (H2 w). lia. }
        destruct (IH _ s2 HI1 Hd1 Hrho HnB HdB1 Hrun Hh2 HnO' HnC' Hlate) as [pre [post [s' [Ht [Hr R]]]]].
        exists (LOpenDone false :: pre), post, s'. split; [cbn; rewrite Ht; reflexivity|]. split; [|exact R].
        cbn [app Resurrector.run]. cbn. exact Hr.
    + (* LClose *) exfalso. apply HnC. left; reflexivity.
    + (* LTick *)
      destruct s as [ns sub dn g nw nk hs]. cbn in E.
      destruct ((nw <=? t) && match g with NoGreenlet => true | Sleeping st w => t <=? tplus st w | Opening st _ _ => t <=? st + odur end) eqn:Eb;
        [|discriminate].
      inversion E; subst; clear E. apply andb_true_iff in Eb as [Eb1 Eb2]. apply Z.leb_le in Eb1.
      cbn in Hrho, HnB, HdB, Hgl. unfold due in HdB; cbn in HdB.
      assert (HtB : t <= B).
      { destruct g as [|st w|st w sid]; [congruence| |].
        - apply Z.leb_le in Eb2. lia.
        - apply Z.leb_le in Eb2. destruct (Z.leb_spec rho st); lia. }
      assert (HdB1 : due rho (mk ns sub dn g t nk hs) <= B).
      { unfold due; cbn. destruct g; [congruence|exact HdB|exact HdB]. }
      destruct (IH _ s2 HI1 Hd ltac:(cbn; lia) HtB HdB1 Hrun Hh2 HnO' HnC' Hlate) as [pre [post [s' [Ht [Hr R]]]]].
      exists (LTick t :: pre), post, s'. split; [cbn; rewrite Ht; reflexivity|]. split; [|exact R].
      cbn [app Resurrector.run]. cbn. rewrite (proj2 (Z.leb_le nw t) Eb1). cbn. rewrite Eb2. exact Hr.
Qed.

Lemma recovery s1 : Inv s1 -> is_down s1 = true -> (forall t, now s1 <= t -> reach t) ->
  forall tr s2, run s1 tr = Some s2 -> honest_run s1 tr -> ~ In LOpen tr -> ~ In LClose tr ->
  now s1 + wmax + eps + 2 * odur < now s2 ->
  exists pre post s', tr = pre ++ LOpenDone true :: post /\ run s1 (pre ++ [LOpenDone true]) = Some s' /\
                      now s' <= now s1 + wmax + eps + 2 * odur /\
                      next_sink s' <> None /\ down_on s' = None /\ subscribed s' = true.
Proof.
  intros HI Hd Hreach tr s2 Hrun Hhon HnO HnC Hlate.
  eapply (recover_aux (now s1) (now s1 + wmax + eps + 2 * odur) Hreach tr s1 s2 HI Hd); eauto; try lia.
  unfold due. pose proof (i_since _ HI) as Hsi. destruct (gl s1) as [|st w|st w sid] eqn:Eg.
  - lia.
  - assert (w <= wmax) by (apply (cur_wait_le s1); [exact HI|rewrite Eg; reflexivity]).
    pose proof (Htplus st w). lia.
  - destruct (Z.leb_spec (now s1) st); lia.
Qed.

End Recovery.
End Proofs.

(* ---- real-analysis side lemma: the ideal back-off w => min (w ^ e) max satisfies H1 and H2 ------------- *)
From Coq Require Reals Lra.
Module RealSide.
Import Reals Lra.
Local Open Scope R_scope.

Lemma Rpower_grows_gen w a : 1 <= w -> 1 <= a -> w <= Rpower w a.
Proof.
  intros Hw Ha. unfold Rpower.
  assert (H0 : 0 < w) by lra.
  rewrite <- (exp_ln w H0) at 1.
  assert (Hl : 0 <= ln w).
  { rewrite <- ln_1. destruct Hw as [Hw|Hw]; [left; apply ln_increasing; lra|subst; right; reflexivity]. }
  assert (Hm : ln w <= a * ln w) by nra.
  destruct Hm as [Hm|Hm]; [left; apply exp_increasing; exact Hm|right; rewrite <- Hm; reflexivity].
Qed.

Lemma Rpower_grows_strict w a : 1 < w -> 1 < a -> w < Rpower w a.
Proof.
  intros Hw Ha. unfold Rpower.
  assert (H0 : 0 < w) by lra.
  rewrite <- (exp_ln w H0) at 1.
  assert (Hl : 0 < ln w) by (rewrite <- ln_1; apply ln_increasing; lra).
  apply exp_increasing. nra.
Qed.

Lemma backoff_real_H1 w wmax : 1 <= w -> w <= wmax -> w <= Rmin (Rpower w (6/5)) wmax.
Proof. intros H Hm. apply Rmin_glb; [apply Rpower_grows_gen; lra|exact Hm]. Qed.

Lemma backoff_real_H1s w wmax : 1 < w -> w < wmax -> w < Rmin (Rpower w (6/5)) wmax.
Proof. intros H Hm. apply Rmin_glb_lt; [apply Rpower_grows_strict; lra|exact Hm]. Qed.

Lemma backoff_real_H2 w wmax : Rmin (Rpower w (6/5)) wmax <= wmax.
Proof. apply Rmin_r. Qed.
End RealSide.
