(* Lemmas about Model/Uri.v: split/join, urlsplit on well-formed text, decimal round trip. *)
From Coq Require Import ZifyBool Decimal DecimalN DecimalPos.
From Scales Require Import Model.Base Model.Proxy Model.Uri.
Local Open Scope Z_scope.

(* ---- Forall helpers -------------------------------------------------------------------------- *)
Lemma forallb_Forall : forall (f : Z -> bool) s, forallb f s = true <-> Forall (fun c => f c = true) s.
Proof.
  intros f s. rewrite forallb_forall, Forall_forall. reflexivity.
Qed.

Lemma Forall_impl_b : forall (f g : Z -> bool) s,
  (forall c, f c = true -> g c = true) -> forallb f s = true -> forallb g s = true.
Proof.
  intros f g s H. rewrite !forallb_forall. intros F c Hc. apply H, F, Hc.
Qed.

Lemma forallb_app_iff : forall (f : Z -> bool) a b, forallb f (a ++ b) = true <-> forallb f a = true /\ forallb f b = true.
Proof. intros f a b. rewrite forallb_app, andb_true_iff. reflexivity. Qed.

(* ---- cut / mem / split_on / join --------------------------------------------------------------- *)
Lemma cut_app : forall sep a b, forallb (fun c => negb (c =? sep)) a = true -> cut sep (a ++ sep :: b) = Some (a, b).
Proof.
  intros sep a b. induction a as [|c a IH]; cbn; intros H.
  - rewrite Z.eqb_refl. reflexivity.
  - apply andb_true_iff in H as (H1 & H2). apply negb_true_iff in H1. rewrite H1, IH by assumption. reflexivity.
Qed.

Lemma cut_none : forall sep a, forallb (fun c => negb (c =? sep)) a = true -> cut sep a = None.
Proof.
  intros sep a. induction a as [|c a IH]; cbn; intros H; [reflexivity|].
  apply andb_true_iff in H as (H1 & H2). apply negb_true_iff in H1. rewrite H1, IH by assumption. reflexivity.
Qed.

Lemma mem_false : forall x s, forallb (fun c => negb (c =? x)) s = true -> mem x s = false.
Proof.
  intros x s. unfold mem. induction s as [|c s IH]; cbn; intros H; [reflexivity|].
  apply andb_true_iff in H as (H1 & H2). apply negb_true_iff in H1. rewrite Z.eqb_sym, H1, IH by assumption. reflexivity.
Qed.

Lemma split_on_nosep : forall sep a, forallb (fun c => negb (c =? sep)) a = true -> split_on sep a = [a].
Proof.
  intros sep a. induction a as [|c a IH]; cbn; intros H; [reflexivity|].
  apply andb_true_iff in H as (H1 & H2). apply negb_true_iff in H1. rewrite H1, IH by assumption. reflexivity.
Qed.

Lemma split_on_app : forall sep a b,
  forallb (fun c => negb (c =? sep)) a = true -> split_on sep (a ++ sep :: b) = a :: split_on sep b.
Proof.
  intros sep a b. induction a as [|c a IH]; cbn; intros H.
  - rewrite Z.eqb_refl. reflexivity.
  - apply andb_true_iff in H as (H1 & H2). apply negb_true_iff in H1. rewrite H1, IH by assumption. reflexivity.
Qed.

Lemma split_on_join : forall sep l,
  l <> [] -> Forall (fun p => forallb (fun c => negb (c =? sep)) p = true) l -> split_on sep (join sep l) = l.
Proof.
  intros sep l. induction l as [|x l IH]; intros N F; [congruence|].
  inversion F as [|? ? Fx Fl]; subst. destruct l as [|y l].
  - cbn. apply split_on_nosep. assumption.
  - change (join sep (x :: y :: l)) with (x ++ sep :: join sep (y :: l)).
    rewrite split_on_app by assumption. rewrite IH; [reflexivity|discriminate|assumption].
Qed.

Lemma forallb_join : forall (f : Z -> bool) sep l,
  f sep = true -> Forall (fun p => forallb f p = true) l -> forallb f (join sep l) = true.
Proof.
  intros f sep l Hs. induction l as [|x l IH]; intros F; [reflexivity|].
  inversion F as [|? ? Fx Fl]; subst. destruct l as [|y l]; [assumption|].
  change (join sep (x :: y :: l)) with (x ++ sep :: join sep (y :: l)).
  apply forallb_app_iff. split; [assumption|]. cbn [forallb]. rewrite Hs. apply IH. assumption.
Qed.

(* ---- urlsplit pieces --------------------------------------------------------------------------- *)
Lemma remove_unsafe_id : forall s, forallb safe_char s = true -> remove_unsafe s = s.
Proof.
  intros s. unfold remove_unsafe. induction s as [|c s IH]; cbn; intros H; [reflexivity|].
  apply andb_true_iff in H as (H1 & H2). unfold safe_char in H1. rewrite H1, IH by assumption. reflexivity.
Qed.

Lemma remove_unsafe_app : forall a b, remove_unsafe (a ++ b) = remove_unsafe a ++ remove_unsafe b.
Proof. intros a b. unfold remove_unsafe. apply filter_app. Qed.

Lemma scheme_char_facts : forall c, scheme_char c = true -> safe_char c = true /\ (c =? 58) = false /\ 32 < c.
Proof. intros c. unfold scheme_char, is_alpha, is_digit, safe_char. lia. Qed.

Lemma valid_scheme_inv : forall s, valid_scheme s = true ->
  exists c r, s = c :: r /\ is_alpha c = true /\ forallb scheme_char s = true.
Proof.
  intros [|c r] H; [discriminate|]. cbn [valid_scheme] in H. apply andb_true_iff in H as (H1 & H2). eauto.
Qed.

Lemma split_scheme_valid : forall s rest,
  valid_scheme s = true -> split_scheme (s ++ 58 :: rest) = (map lower s, rest).
Proof.
  intros s rest H. destruct (valid_scheme_inv s H) as (c & r & E & Ha & Hs).
  unfold split_scheme. rewrite cut_app.
  - rewrite E in *. rewrite Ha, Hs. reflexivity.
  - apply (Forall_impl_b scheme_char); [|assumption]. intros x Hx. apply scheme_char_facts in Hx. lia.
Qed.

Lemma clean_scheme_prefix : forall s rest,
  valid_scheme s = true ->
  remove_unsafe (lstrip_c0 (s ++ 58 :: rest)) = s ++ 58 :: remove_unsafe rest.
Proof.
  intros s rest H. destruct (valid_scheme_inv s H) as (c & r & E & Ha & Hs).
  assert (L : lstrip_c0 (s ++ 58 :: rest) = s ++ 58 :: rest).
  { rewrite E. cbn. replace (c <=? 32) with false; [reflexivity|]. unfold is_alpha in Ha. lia. }
  rewrite L, remove_unsafe_app. f_equal.
  apply remove_unsafe_id. apply (Forall_impl_b scheme_char); [|assumption].
  intros x Hx. apply scheme_char_facts in Hx. tauto.
Qed.

Definition stops (rest : str) : Prop := match rest with [] => True | c :: _ => is_delim c = true end.

Lemma span_netloc_app : forall n rest,
  forallb (fun c => negb (is_delim c)) n = true -> stops rest -> span_netloc (n ++ rest) = (n, rest).
Proof.
  intros n rest. induction n as [|c n IH]; cbn [app]; intros H S.
  - destruct rest as [|c r]; [reflexivity|]. cbn in *. rewrite S. reflexivity.
  - cbn [forallb] in H. apply andb_true_iff in H as (H1 & H2). apply negb_true_iff in H1.
    cbn [span_netloc]. rewrite H1, IH by assumption. reflexivity.
Qed.

Lemma netloc_char_facts : forall c, netloc_char c = true ->
  is_delim c = false /\ (c =? 91) = false /\ (c =? 93) = false /\ is_ascii c = true /\ safe_char c = true.
Proof. intros c. unfold netloc_char, is_delim, is_ascii, safe_char. lia. Qed.

Lemma netloc_ok : forall e n, forallb netloc_char n = true -> brackets_ok e n = true /\ checknetloc e n = true.
Proof.
  intros e n H. split.
  - unfold brackets_ok. rewrite !mem_false; [reflexivity| |].
    + apply (Forall_impl_b netloc_char); [|assumption]. intros c Hc. apply netloc_char_facts in Hc.
      destruct Hc as (_ & _ & A & _). cbn beta. rewrite A. reflexivity.
    + apply (Forall_impl_b netloc_char); [|assumption]. intros c Hc. apply netloc_char_facts in Hc.
      destruct Hc as (_ & A & _). cbn beta. rewrite A. reflexivity.
  - unfold checknetloc. destruct n; [reflexivity|].
    rewrite (Forall_impl_b netloc_char is_ascii); [reflexivity| |assumption].
    intros c Hc. apply netloc_char_facts in Hc. tauto.
Qed.

Lemma lower_cases : forall c, (65 <= c <= 90 /\ lower c = c + 32) \/ (~ (65 <= c <= 90) /\ lower c = c).
Proof.
  intros c. unfold lower. destruct ((65 <=? c) && (c <=? 90)) eqn:E; [left|right]; split; try reflexivity; lia.
Qed.

Lemma lower_idem : forall c, lower (lower c) = lower c.
Proof. intros c. pose proof (lower_cases c). pose proof (lower_cases (lower c)). lia. Qed.

Lemma map_lower_idem : forall s, map lower (map lower s) = map lower s.
Proof. intros s. rewrite map_map. apply map_ext. apply lower_idem. Qed.

Lemma split_scheme_lower : forall u, map lower (fst (split_scheme u)) = fst (split_scheme u).
Proof.
  intros u. unfold split_scheme. destruct (cut 58 u) as [([|c pre], rest)|]; try reflexivity.
  destruct (is_alpha c && forallb scheme_char (c :: pre)); [|reflexivity].
  cbn [fst]. apply map_lower_idem.
Qed.

(* the whole of urlsplit on scheme://netloc<tail> *)
Lemma urlsplit_shape : forall e s nl tail,
  valid_scheme s = true -> forallb netloc_char nl = true -> forallb safe_char tail = true -> stops tail ->
  urlsplit e (s ++ 58 :: 47 :: 47 :: nl ++ tail) =
    let (url3, fragment) := match cut 35 tail with Some (a, b) => (a, b) | None => (tail, []) end in
    let (path, query) := match cut 63 url3 with Some (a, b) => (a, b) | None => (url3, []) end in
    Some {| u_scheme := map lower s; u_netloc := nl; u_path := path; u_query := query; u_fragment := fragment |}.
Proof.
  intros e s nl tail Hs Hn Ht St. unfold urlsplit.
  rewrite clean_scheme_prefix by assumption. rewrite split_scheme_valid by assumption.
  assert (R : remove_unsafe (47 :: 47 :: nl ++ tail) = 47 :: 47 :: nl ++ tail).
  { apply remove_unsafe_id. cbn [forallb]. change (safe_char 47) with true. cbn [andb].
    apply forallb_app_iff. split; [|assumption].
    apply (Forall_impl_b netloc_char); [|assumption]. intros c Hc. apply netloc_char_facts in Hc. tauto. }
  rewrite R. unfold split_netloc. cbn [Z.eqb Pos.eqb andb].
  rewrite span_netloc_app; [| |assumption].
  - destruct (netloc_ok e nl Hn) as (B & K). rewrite B. cbn [negb].
    destruct (cut 35 tail) as [(a, b)|];
      [destruct (cut 63 a) as [(a2, b2)|]|destruct (cut 63 tail) as [(a2, b2)|]]; rewrite K; reflexivity.
  - apply (Forall_impl_b netloc_char); [|assumption]. intros c Hc. apply netloc_char_facts in Hc.
    destruct Hc as (D & _). rewrite D. reflexivity.
Qed.

(* ---- decimal ----------------------------------------------------------------------------------- *)
Lemma digit_chars_digits : forall u, forallb is_digit (digit_chars u) = true.
Proof. induction u; cbn; try assumption; reflexivity. Qed.

Lemma is_digit_facts : forall c, is_digit c = true ->
  is_space c = false /\ (c =? 43) = false /\ (c =? 45) = false /\ (c =? 95) = false /\ (c =? 58) = false
  /\ (c =? 44) = false /\ netloc_char c = true.
Proof. intros c. unfold is_digit, is_space, netloc_char. lia. Qed.

Lemma lstrip_space_id : forall s, forallb is_digit s = true -> lstrip_space s = s.
Proof.
  intros [|c s] H; [reflexivity|]. cbn in *. apply andb_true_iff in H as (H & _).
  apply is_digit_facts in H as (H & _). rewrite H. reflexivity.
Qed.

Lemma strip_space_id : forall s, forallb is_digit s = true -> strip_space s = s.
Proof.
  intros s H. unfold strip_space. rewrite (lstrip_space_id s H). rewrite lstrip_space_id.
  - apply rev_involutive.
  - apply forallb_forall. intros c Hc. apply in_rev in Hc. revert c Hc. apply forallb_forall. assumption.
Qed.

Lemma digits_acc_pos : forall l acc,
  digits_acc (digit_chars l) false (Z.pos acc) = Some (Z.pos (Pos.of_uint_acc l acc)).
Proof.
  induction l; intros acc; cbn [digit_chars digits_acc Pos.of_uint_acc]; [reflexivity| ..].
  all: cbn [is_digit Z.leb Z.compare Pos.compare Pos.compare_cont andb].
  all: match goal with |- digits_acc _ _ ?a = Some (Z.pos (Pos.of_uint_acc _ ?b)) =>
         replace a with (Z.pos b) by lia end; apply IHl.
Qed.

Lemma digits_acc_zero : forall l, digits_acc (digit_chars l) false 0 = Some (Z.of_N (Pos.of_uint l)).
Proof.
  induction l; cbn [digit_chars digits_acc Pos.of_uint]; [reflexivity| ..].
  all: cbn [is_digit Z.leb Z.compare Pos.compare Pos.compare_cont andb].
  - exact IHl.
  - exact (digits_acc_pos l 1).
  - exact (digits_acc_pos l 2).
  - exact (digits_acc_pos l 3).
  - exact (digits_acc_pos l 4).
  - exact (digits_acc_pos l 5).
  - exact (digits_acc_pos l 6).
  - exact (digits_acc_pos l 7).
  - exact (digits_acc_pos l 8).
  - exact (digits_acc_pos l 9).
Qed.

Lemma parse_int_digits : forall u, u <> Nil -> parse_int (digit_chars u) = Some (Z.of_N (N.of_uint u)).
Proof.
  intros u N. unfold parse_int. rewrite strip_space_id by apply digit_chars_digits.
  pose proof (digits_acc_zero u) as Z0.
  destruct u; [congruence| ..]; cbn [digit_chars] in *.
  all: cbn [Z.eqb Pos.eqb is_digit Z.leb Z.compare Pos.compare Pos.compare_cont andb].
  all: cbn [digits_acc is_digit Z.leb Z.compare Pos.compare Pos.compare_cont andb] in Z0.
  all: cbn [Z.sub Z.add Z.opp Z.pos_sub Pos.sub Z.succ_double Z.pred_double Z.double Pos.pred_double Z.mul] in *.
  all: rewrite Z0; reflexivity.
Qed.

Lemma render_nat_nonnil : forall n, N.to_uint n <> Nil.
Proof.
  intros [|p]; cbn; [discriminate|]. apply DecimalPos.Unsigned.to_uint_nonnil.
Qed.

Lemma parse_int_render : forall n, 0 <= n -> parse_int (render_nat n) = Some n.
Proof.
  intros n H. unfold render_nat. rewrite parse_int_digits by apply render_nat_nonnil.
  rewrite DecimalN.Unsigned.of_to. f_equal. lia.
Qed.

Lemma render_nat_digits : forall n, forallb is_digit (render_nat n) = true.
Proof. intros n. apply digit_chars_digits. Qed.

(* ---- tcp --------------------------------------------------------------------------------------- *)
Definition ep_ok (ep : str * Z) : Prop := forallb host_char (fst ep) = true /\ 0 <= snd ep.

Lemma host_char_facts : forall c, host_char c = true ->
  netloc_char c = true /\ (c =? 44) = false /\ (c =? 58) = false.
Proof. intros c. unfold host_char. lia. Qed.

Lemma render_ep_chars : forall ep, ep_ok ep ->
  forallb netloc_char (render_ep ep) = true /\ forallb (fun c => negb (c =? 44)) (render_ep ep) = true.
Proof.
  intros (h, p) (Hh & Hp). cbn [fst snd] in *. unfold render_ep. cbn [fst snd].
  split; apply forallb_app_iff; split.
  - apply (Forall_impl_b host_char); [|assumption]. intros c Hc. apply host_char_facts in Hc. tauto.
  - cbn [forallb]. change (netloc_char 58) with true. cbn [andb].
    apply (Forall_impl_b is_digit); [|apply render_nat_digits]. intros c Hc. apply is_digit_facts in Hc. tauto.
  - apply (Forall_impl_b host_char); [|assumption]. intros c Hc. apply host_char_facts in Hc. lia.
  - cbn [forallb]. change (negb (58 =? 44)) with true. cbn [andb].
    apply (Forall_impl_b is_digit); [|apply render_nat_digits]. intros c Hc. apply is_digit_facts in Hc. lia.
Qed.

Lemma tcp_servers_render : forall eps, Forall ep_ok eps -> tcp_servers (map render_ep eps) = Some eps.
Proof.
  induction eps as [|(h, p) eps IH]; intros F; [reflexivity|].
  inversion F as [|? ? (Hh & Hp) Fr]; subst. cbn [fst snd] in *.
  cbn [map tcp_servers]. unfold render_ep at 1. cbn [fst snd].
  rewrite split_on_app.
  - rewrite split_on_nosep.
    + rewrite parse_int_render by assumption. rewrite IH by assumption. reflexivity.
    + apply (Forall_impl_b is_digit); [|apply render_nat_digits]. intros c Hc. apply is_digit_facts in Hc. lia.
  - apply (Forall_impl_b host_char); [|assumption]. intros c Hc. apply host_char_facts in Hc. lia.
Qed.

Lemma parse_render_tcp_as : forall e s eps,
  valid_scheme s = true -> map lower s = tcp_scheme -> eps <> [] -> Forall ep_ok eps ->
  parse_uri e (render_tcp_as s eps) = UTcp eps.
Proof.
  intros e s eps Hs Hl Ne F. unfold parse_uri, render_tcp_as.
  set (nl := join 44 (map render_ep eps)).
  assert (Hn : forallb netloc_char nl = true).
  { apply forallb_join; [reflexivity|]. apply Forall_forall. intros x Hx. apply in_map_iff in Hx as (ep & E & Hep).
    subst x. apply render_ep_chars. revert ep Hep. apply Forall_forall. assumption. }
  pose proof (urlsplit_shape e s nl [] Hs Hn eq_refl I) as U. rewrite app_nil_r in U. rewrite U. clear U.
  cbn [cut mem existsb u_path u_scheme]. rewrite map_lower_idem, Hl. cbn [zlist_eqb].
  change (list_eqb Z.eqb tcp_scheme tcp_scheme) with true. cbn iota.
  unfold handle_tcp. cbn [u_netloc]. unfold nl. rewrite split_on_join.
  - rewrite tcp_servers_render by assumption. reflexivity.
  - destruct eps; [congruence|discriminate].
  - apply Forall_forall. intros x Hx. apply in_map_iff in Hx as (ep & E & Hep). subst x.
    apply render_ep_chars. revert ep Hep. apply Forall_forall. assumption.
Qed.

Lemma lower_eq_cases : forall c l, lower c = l -> (97 <= l <= 122) -> (c = l \/ c = l - 32).
Proof. intros c l. pose proof (lower_cases c). lia. Qed.

Lemma lower_tcp_valid : forall s, map lower s = tcp_scheme -> valid_scheme s = true.
Proof.
  intros s H. unfold tcp_scheme in H.
  destruct s as [|a [|b [|c [|d s]]]]; try discriminate. cbn in H. inversion H as [[Ha Hb Hc]].
  pose proof (lower_cases a). pose proof (lower_cases b). pose proof (lower_cases c).
  unfold valid_scheme. cbn [forallb]. unfold scheme_char, is_alpha, is_digit. lia.
Qed.

Lemma lower_zk_valid : forall s, map lower s = zk_scheme -> valid_scheme s = true.
Proof.
  intros s H. unfold zk_scheme in H.
  destruct s as [|a [|b [|d s]]]; try discriminate. cbn in H. inversion H as [[Ha Hb]].
  pose proof (lower_cases a). pose proof (lower_cases b).
  unfold valid_scheme. cbn [forallb]. unfold scheme_char, is_alpha, is_digit. lia.
Qed.

(* ---- zk ---------------------------------------------------------------------------------------- *)
Definition path_ok (p : str) : Prop :=
  forallb path_char p = true /\ match p with [] => True | c :: _ => c = 47 end.

Lemma path_char_facts : forall c, path_char c = true -> safe_char c = true /\ (c =? 35) = false /\ (c =? 63) = false.
Proof. intros c. unfold path_char. lia. Qed.

Lemma parse_render_zk : forall e s hosts path name,
  map lower s = zk_scheme -> forallb netloc_char hosts = true -> path_ok path ->
  match name with Some n => n <> [] /\ forallb safe_char n = true | None => True end ->
  parse_uri e (render_zk s hosts path name) = UZk hosts path name.
Proof.
  intros e s hosts path name Hl Hh (Hp & Hp0) Hn. unfold parse_uri, render_zk.
  pose proof (lower_zk_valid s Hl) as Hs.
  set (tail := path ++ frag_suffix name).
  assert (Ht : forallb safe_char tail = true).
  { unfold tail. apply forallb_app_iff. split.
    - apply (Forall_impl_b path_char); [|assumption]. intros c Hc. apply path_char_facts in Hc. tauto.
    - destruct name as [n|]; [|reflexivity]. cbn [forallb frag_suffix]. change (safe_char 35) with true. tauto. }
  assert (St : stops tail).
  { unfold tail. destruct path as [|c p]; cbn.
    - destruct name; cbn; [reflexivity|exact I].
    - subst c. reflexivity. }
  rewrite (urlsplit_shape e s hosts tail Hs Hh Ht St).
  assert (P35 : forallb (fun c => negb (c =? 35)) path = true).
  { apply (Forall_impl_b path_char); [|assumption]. intros c Hc. apply path_char_facts in Hc. lia. }
  assert (P63 : forallb (fun c => negb (c =? 63)) path = true).
  { apply (Forall_impl_b path_char); [|assumption]. intros c Hc. apply path_char_facts in Hc. lia. }
  unfold tail. destruct name as [n|]; cbn [frag_suffix].
  - rewrite cut_app by assumption. rewrite cut_none by assumption.
    cbn [u_path u_scheme u_netloc u_fragment]. rewrite mem_false by assumption.
    cbn [u_scheme]. rewrite map_lower_idem, Hl.
    change (zlist_eqb zk_scheme tcp_scheme) with false. change (zlist_eqb zk_scheme zk_scheme) with true. cbn iota.
    unfold handle_zk. cbn [u_netloc u_path u_fragment]. destruct Hn as (Hn & _). destruct n; [congruence|reflexivity].
  - rewrite app_nil_r. rewrite (cut_none 35) by assumption. rewrite cut_none by assumption.
    cbn [u_path u_scheme u_netloc u_fragment]. rewrite mem_false by assumption.
    cbn [u_scheme]. rewrite map_lower_idem, Hl.
    change (zlist_eqb zk_scheme tcp_scheme) with false. change (zlist_eqb zk_scheme zk_scheme) with true. cbn iota.
    reflexivity.
Qed.

(* ---- other schemes ----------------------------------------------------------------------------- *)
Lemma zlist_eqb_neq : forall a b : str, a <> b -> zlist_eqb a b = false.
Proof.
  intros a b N. destruct (zlist_eqb a b) eqn:E; [|reflexivity].
  apply (list_eqb_spec Z.eqb) in E; [contradiction|]. intros x y. apply Z.eqb_eq.
Qed.

Lemma other_scheme_rejected : forall e uri,
  let sch := fst (split_scheme (remove_unsafe (lstrip_c0 uri))) in
  sch <> tcp_scheme -> sch <> zk_scheme -> rejected (parse_uri e uri).
Proof.
  intros e uri sch Nt Nz. unfold parse_uri, urlsplit.
  pose proof (split_scheme_lower (remove_unsafe (lstrip_c0 uri))) as L. fold sch in L.
  destruct (split_scheme (remove_unsafe (lstrip_c0 uri))) as (sc, url1) eqn:Es. cbn [fst] in *. subst sch.
  destruct (split_netloc e url1) as ((netloc, url2), ok).
  destruct ok; cbn [negb]; [|exact I].
  destruct (match cut 35 url2 with Some (a, b) => (a, b) | None => (url2, []) end) as (url3, fragment).
  destruct (match cut 63 url3 with Some (a, b) => (a, b) | None => (url3, []) end) as (path, query).
  destruct (checknetloc e netloc); cbn [negb]; [|exact I].
  cbn [u_path u_scheme].
  assert (S : forall u : split, u_scheme u = sc ->
     rejected (if zlist_eqb (map lower (u_scheme u)) tcp_scheme then handle_tcp u
               else if zlist_eqb (map lower (u_scheme u)) zk_scheme then handle_zk u else UNoHandler (u_scheme u))).
  { intros u Eu. rewrite Eu, L. rewrite (zlist_eqb_neq _ _ Nt), (zlist_eqb_neq _ _ Nz). exact I. }
  destruct (mem 35 path); [|apply S; reflexivity].
  destruct (cut 35 path) as [(p, f)|]; apply S; reflexivity.
Qed.

Lemma other_scheme_rejected_text : forall e s rest,
  valid_scheme s = true -> map lower s <> tcp_scheme -> map lower s <> zk_scheme ->
  rejected (parse_uri e (s ++ 58 :: rest)).
Proof.
  intros e s rest Hs Nt Nz. apply other_scheme_rejected.
  all: rewrite clean_scheme_prefix, split_scheme_valid by assumption; assumption.
Qed.

(* text without a valid scheme is rejected too (the handler table is consulted with the empty scheme) *)
Lemma no_scheme_rejected : forall e uri,
  fst (split_scheme (remove_unsafe (lstrip_c0 uri))) = [] -> rejected (parse_uri e uri).
Proof.
  intros e uri H. apply other_scheme_rejected; rewrite H; discriminate.
Qed.
