(* Proofs for C16: RefCountedSink (Model/RefCount.v), SharedSinkProvider (Model/Shared.v) and
   SingletonPoolSink (Model/Singleton.v).  Invariants are proved for every state reachable by any label
   sequence; Props/C16.v restates them over `run init pre`. *)
From Scales Require Import Model.Base Model.RefCount Model.Shared Model.Singleton.

(* =============================================================================================== *)
(* RefCountedSink                                                                                  *)
(* =============================================================================================== *)
Section RefCountProofs.
Local Open Scope Z_scope.

Definition rinv (s : rst) : Prop :=
  0 <= cnt s /\ (cnt s = 0 -> ar s = None) /\ (0 < cnt s -> ar s = Some (nopen s - 1)).

Lemma rinv_init : rinv rinit.
Proof. unfold rinv, rinit; cbn. repeat split; try lia; intros; lia. Qed.

Ltac zcases :=
  repeat match goal with
  | |- context [Z.eqb ?a ?b] => destruct (Z.eqb_spec a b)
  | |- context [Z.ltb ?a ?b] => destruct (Z.ltb_spec a b)
  end.

Lemma rstep_inv s l : rinv s -> rinv (fst (rstep s l)).
Proof.
  intros (H0 & Hz & Hp). destruct l as [h|h|c|e]; cbn [rstep]; zcases; unfold rinv; cbn [fst cnt ar nopen];
    repeat split; intros; try lia; auto; try (f_equal; lia); try (rewrite Hp by lia; f_equal; lia).
Qed.

Lemma rrun_cons s l ls :
  rrun s (l :: ls) = (fst (rrun (fst (rstep s l)) ls), snd (rstep s l) :: snd (rrun (fst (rstep s l)) ls)).
Proof. cbn [rrun]. destruct (rstep s l) as [s1 o]. cbn [fst snd]. destruct (rrun s1 ls) as [s2 os]. reflexivity. Qed.

Lemma rrun_app s a b :
  rrun s (a ++ b) = (fst (rrun (fst (rrun s a)) b), snd (rrun s a) ++ snd (rrun (fst (rrun s a)) b)).
Proof.
  revert s. induction a as [|l a IH]; intros s.
  - cbn. destruct (rrun s b); reflexivity.
  - rewrite <- app_comm_cons, !rrun_cons, IH. cbn [fst snd]. reflexivity.
Qed.

Lemma rrun_inv s ls : rinv s -> rinv (fst (rrun s ls)).
Proof.
  revert s. induction ls as [|l ls IH]; intros s H; [exact H|].
  rewrite rrun_cons. cbn [fst]. apply IH, rstep_inv, H.
Qed.

(* the underlying Open is called exactly at the 0 -> 1 transition, and then names the shared result *)
Lemma rstep_uopen s l a :
  In (UOpen a) (snd (rstep s l)) <-> (exists h, l = ROpen h) /\ cnt s = 0 /\ a = nopen s.
Proof.
  destruct l as [h|h|c|e]; cbn [rstep].
  - destruct (Z.eqb_spec (cnt s + 1) 1) as [E|E]; cbn.
    + split.
      * intros [H|[H|[]]]; [|discriminate]. inversion H; subst. repeat split; eauto; lia.
      * intros (_ & _ & ->). auto.
    + split; [intros [H|[]]; discriminate | intros (_ & Hc & _); lia].
  - split.
    + destruct (cnt s =? 0); cbn; [tauto|]. destruct (cnt s - 1 =? 0); cbn; [intros [H|[]]; discriminate | tauto].
    + intros ([h' Hh] & _); discriminate.
  - cbn. split; [intros [H|[]]; discriminate | intros ([h' Hh] & _); discriminate].
  - cbn. split; [intros [] | intros ([h' Hh] & _); discriminate].
Qed.

(* the underlying Close is called exactly at the 1 -> 0 transition *)
Lemma rstep_uclose s l :
  In UClose (snd (rstep s l)) <-> (exists h, l = RClose h) /\ cnt s = 1.
Proof.
  destruct l as [h|h|c|e]; cbn [rstep].
  - split.
    + destruct (cnt s + 1 =? 1); cbn; [intros [H|[H|[]]]; discriminate | intros [H|[]]; discriminate].
    + intros ([h' Hh] & _); discriminate.
  - destruct (Z.eqb_spec (cnt s) 0) as [E|E]; cbn.
    + split; [tauto | intros (_ & Hc); lia].
    + destruct (Z.eqb_spec (cnt s - 1) 0) as [E1|E1]; cbn.
      * split; [intros _; split; eauto; lia | auto].
      * split; [tauto | intros (_ & Hc); lia].
  - cbn. split; [intros [H|[]]; discriminate | intros ([h' Hh] & _); discriminate].
  - cbn. split; [intros [] | intros ([h' Hh] & _); discriminate].
Qed.

(* a close when the count is 0 changes nothing and calls nothing *)
Lemma rstep_surplus_close s h : cnt s = 0 -> rstep s (RClose h) = (s, []).
Proof. intros E. cbn [rstep]. rewrite E. reflexivity. Qed.

(* every Open returns the result of the underlying open that is in force *)
Lemma rstep_open_ret s h :
  rinv s ->
  exists a, In (URet (Some a)) (snd (rstep s (ROpen h))) /\ ar (fst (rstep s (ROpen h))) = Some a /\
            (cnt s = 0 -> a = nopen s) /\ (0 < cnt s -> ar s = Some a).
Proof.
  intros (H0 & Hz & Hp). cbn [rstep].
  destruct (Z.eqb_spec (cnt s + 1) 1) as [E|E]; cbn.
  - exists (nopen s). repeat split; auto. intros; lia.
  - exists (nopen s - 1). rewrite Hp by lia. repeat split; auto. intros; lia.
Qed.

Definition nuo (o : list robs) : Z :=
  Z.of_nat (length (filter (fun o => match o with UOpen _ => true | _ => false end) o)).
Definition nuc (o : list robs) : Z :=
  Z.of_nat (length (filter (fun o => match o with UClose => true | _ => false end) o)).

Lemma count_uopen_cons o os : count_uopen (o :: os) = nuo o + count_uopen os.
Proof. unfold count_uopen, nuo. cbn [concat]. rewrite filter_app, app_length. lia. Qed.
Lemma count_uclose_cons o os : count_uclose (o :: os) = nuc o + count_uclose os.
Proof. unfold count_uclose, nuc. cbn [concat]. rewrite filter_app, app_length. lia. Qed.

Definition busy (s : rst) : Z := if 0 <? cnt s then 1 else 0.

Lemma rstep_balance s l :
  0 <= cnt s -> nuo (snd (rstep s l)) - nuc (snd (rstep s l)) = busy (fst (rstep s l)) - busy s.
Proof.
  intros H0. unfold busy. destruct l as [h|h|c|e]; cbn [rstep].
  - destruct (Z.eqb_spec (cnt s + 1) 1) as [E|E]; cbn.
    + destruct (Z.ltb_spec 0 (cnt s + 1)); destruct (Z.ltb_spec 0 (cnt s)); lia.
    + destruct (Z.ltb_spec 0 (cnt s + 1)); destruct (Z.ltb_spec 0 (cnt s)); lia.
  - destruct (Z.eqb_spec (cnt s) 0) as [E|E]; cbn; [lia|].
    destruct (Z.eqb_spec (cnt s - 1) 0) as [E1|E1]; cbn.
    + destruct (Z.ltb_spec 0 (cnt s - 1)); destruct (Z.ltb_spec 0 (cnt s)); lia.
    + destruct (Z.ltb_spec 0 (cnt s - 1)); destruct (Z.ltb_spec 0 (cnt s)); lia.
  - cbn. lia.
  - cbn. lia.
Qed.

Lemma rrun_balance s ls :
  rinv s ->
  count_uopen (snd (rrun s ls)) - count_uclose (snd (rrun s ls)) = busy (fst (rrun s ls)) - busy s.
Proof.
  revert s. induction ls as [|l ls IH]; intros s H.
  - cbn. unfold count_uopen, count_uclose; cbn. lia.
  - rewrite rrun_cons. cbn [fst snd]. rewrite count_uopen_cons, count_uclose_cons.
    pose proof (rstep_balance s l (proj1 H)) as B.
    pose proof (IH _ (rstep_inv s l H)) as R. lia.
Qed.

(* ---- holders ---------------------------------------------------------------------------------- *)
Lemma remove1_length h l : In h l -> length (remove1 h l) = pred (length l).
Proof.
  induction l as [|x l IH]; intros Hin; [destruct Hin|].
  cbn [remove1]. destruct (Z.eqb_spec x h) as [E|E]; [reflexivity|].
  destruct Hin as [Hx|Hin]; [congruence|]. cbn [length]. rewrite IH by assumption.
  destruct l; [destruct Hin|reflexivity].
Qed.

Lemma wellbehaved_app held a b :
  wellbehaved held (a ++ b) <-> wellbehaved held a /\ wellbehaved (hrun held a) b.
Proof.
  revert held. induction a as [|l a IH]; intros held; cbn [app wellbehaved hrun fold_left].
  - tauto.
  - rewrite IH. unfold hrun. tauto.
Qed.

Lemma hstep_cnt s l held :
  rinv s -> cnt s = Z.of_nat (length held) ->
  match l with RClose h => In h held \/ held = [] | _ => True end ->
  cnt (fst (rstep s l)) = Z.of_nat (length (hstep held l)).
Proof.
  intros (H0 & _) Hc Hl. destruct l as [h|h|c|e]; cbn [rstep hstep].
  - destruct (Z.eqb_spec (cnt s + 1) 1); cbn [fst cnt length]; lia.
  - destruct (Z.eqb_spec (cnt s) 0) as [E|E]; cbn [fst].
    + destruct held as [|x held']; [cbn; lia | cbn [length] in Hc; lia].
    + destruct Hl as [Hin|Hnil]; [|subst held; cbn in Hc; lia].
      rewrite (remove1_length _ _ Hin).
      assert (length held <> 0)%nat by (destruct held; [destruct Hin | discriminate]).
      destruct (Z.eqb_spec (cnt s - 1) 0); cbn [fst cnt]; lia.
  - cbn. exact Hc.
  - cbn. exact Hc.
Qed.

Lemma hrun_cnt s ls held :
  rinv s -> cnt s = Z.of_nat (length held) -> wellbehaved held ls ->
  cnt (fst (rrun s ls)) = Z.of_nat (length (hrun held ls)).
Proof.
  revert s held. induction ls as [|l ls IH]; intros s held Hi Hc Hw; [exact Hc|].
  rewrite rrun_cons. cbn [fst]. cbn [wellbehaved] in Hw. destruct Hw as [Hl Hw].
  unfold hrun. cbn [fold_left]. apply IH; [apply rstep_inv, Hi | apply hstep_cnt; assumption | exact Hw].
Qed.

End RefCountProofs.

(* =============================================================================================== *)
(* SharedSinkProvider                                                                              *)
(* =============================================================================================== *)
Section SharedProofs.
Local Open Scope nat_scope.

Definition shinv (s : shst) : Prop :=
  NoDup (map fst (cache s)) /\ NoDup (map snd (cache s)) /\
  (forall k n, In (k, n) (cache s) -> k <> 0%Z /\ n < nsink s /\ referenced (refs s) n = true) /\
  (forall r, In r (refs s) ->
     r_sink r < nsink s /\ r_id r < nref s /\ (r_key r <> 0%Z -> In (r_key r, r_sink r) (cache s)) /\
     (r_key r = 0%Z -> ~ In (r_sink r) (map snd (cache s)))).

Lemma shinv_init : shinv shinit.
Proof. unfold shinv, shinit; cbn. repeat split; try constructor; intros; contradiction. Qed.

Lemma lookup_some k c n : lookup k c = Some n -> In (k, n) c.
Proof.
  unfold lookup. destruct (find _ c) as [[k' n']|] eqn:F; [|discriminate].
  intros H; inversion H; subst. apply find_some in F as [Hin Hk]. cbn in Hk.
  apply Z.eqb_eq in Hk. subst. exact Hin.
Qed.

Lemma lookup_none k c : lookup k c = None -> ~ In k (map fst c).
Proof.
  unfold lookup. destruct (find _ c) as [e|] eqn:F; [discriminate|]. intros _ Hin.
  apply in_map_iff in Hin as ([k' n'] & Hk & Hin). cbn in Hk. subst.
  pose proof (find_none _ _ F _ Hin) as H. cbn in H. rewrite Z.eqb_refl in H. discriminate.
Qed.

Lemma lookup_in k n c : NoDup (map fst c) -> In (k, n) c -> lookup k c = Some n.
Proof.
  intros ND Hin. destruct (lookup k c) as [m|] eqn:L.
  - apply lookup_some in L. f_equal.
    induction c as [|[k' n'] c IH]; [destruct Hin|].
    cbn in ND. inversion ND as [|? ? Hnot ND']; subst.
    destruct Hin as [E|Hin], L as [E'|L].
    + congruence.
    + inversion E; subst. exfalso. apply Hnot. apply in_map_iff. exists (k, m). auto.
    + inversion E'; subst. exfalso. apply Hnot. apply in_map_iff. exists (k, n). auto.
    + apply IH; assumption.
  - exfalso. apply (lookup_none _ _ L). apply in_map_iff. exists (k, n). auto.
Qed.

Lemma NoDup_map_filter {A B} (g : A -> B) (f : A -> bool) l : NoDup (map g l) -> NoDup (map g (filter f l)).
Proof.
  induction l as [|x l IH]; cbn; intros ND; [constructor|].
  inversion ND as [|? ? Hnot ND']; subst. destruct (f x); cbn; [|auto].
  constructor; [|auto]. intros Hin. apply Hnot. apply in_map_iff in Hin as (y & Hy & Hin).
  apply filter_In in Hin as [Hin _]. apply in_map_iff. eauto.
Qed.

Lemma NoDup_snoc {A} (l : list A) x : NoDup l -> ~ In x l -> NoDup (l ++ [x]).
Proof.
  induction l as [|y l IH]; cbn; intros ND Hx; [constructor; [intros []|constructor]|].
  inversion ND as [|? ? Hnot ND']; subst. constructor.
  - intros Hin. apply in_app_iff in Hin as [Hin|[Hin|[]]]; [auto | subst; auto].
  - apply IH; auto.
Qed.

Lemma referenced_app rs r n : referenced rs n = true -> referenced (rs ++ [r]) n = true.
Proof. unfold referenced. rewrite existsb_app. intros ->. reflexivity. Qed.

Lemma referenced_in rs r : In r rs -> referenced rs (r_sink r) = true.
Proof. intros Hin. unfold referenced. apply existsb_exists. exists r. split; [exact Hin | apply Nat.eqb_refl]. Qed.

Lemma in_snoc {A} (l : list A) x y : In y (l ++ [x]) -> In y l \/ y = x.
Proof. intros H. apply in_app_iff in H as [H|[H|[]]]; auto. Qed.

Lemma shstep_inv s l : shinv s -> shinv (fst (shstep s l)).
Proof.
  intros (K1 & K2 & K3 & K4). destruct l as [k|d|n0 c0]; cbn [shstep]; [| |cbn [fst]; unfold shinv; auto].
  - destruct (Z.eqb_spec k 0) as [E|E]; cbn [fst].
    + (* falsy key: pass through *)
      unfold shinv; cbn [cache refs nsink nref]. split; [exact K1|]. split; [exact K2|]. split.
      * intros k' n Hin. destruct (K3 _ _ Hin) as (A & B & R). split; [exact A|]. split; [lia|].
        apply referenced_app, R.
      * intros r Hin. apply in_snoc in Hin as [Hin| ->].
        -- destruct (K4 _ Hin) as (A & B & D & F). repeat split; auto; lia.
        -- cbn [r_sink r_id r_key]. split; [lia|]. split; [lia|]. split; [intros; congruence|].
           intros _ Hin. apply in_map_iff in Hin as ([k' n'] & Hs & Hin). cbn in Hs. subst.
           apply K3 in Hin. lia.
    + destruct (lookup k (cache s)) as [n|] eqn:L; cbn [fst].
      * (* hit *)
        pose proof (lookup_some _ _ _ L) as Hc. pose proof (K3 _ _ Hc) as (_ & Hn & _).
        unfold shinv; cbn [cache refs nsink nref]. split; [exact K1|]. split; [exact K2|]. split.
        -- intros k' n' Hin. destruct (K3 _ _ Hin) as (A & B & R). split; [exact A|]. split; [exact B|].
           apply referenced_app, R.
        -- intros r Hin. apply in_snoc in Hin as [Hin| ->].
           ++ destruct (K4 _ Hin) as (A & B & D & F). repeat split; auto; lia.
           ++ cbn [r_sink r_id r_key]. split; [lia|]. split; [lia|]. split; [auto | intros; congruence].
      * (* miss *)
        pose proof (lookup_none _ _ L) as Hk.
        assert (Hn : ~ In (nsink s) (map snd (cache s))).
        { intros Hin. apply in_map_iff in Hin as ([k' n'] & Hs & Hin). cbn in Hs. subst.
          apply K3 in Hin. lia. }
        unfold shinv; cbn [cache refs nsink nref]. split; [|split; [|split]].
        -- rewrite map_app. cbn. apply NoDup_snoc; assumption.
        -- rewrite map_app. cbn. apply NoDup_snoc; assumption.
        -- intros k' n' Hin. apply in_snoc in Hin as [Hin|Hin].
           ++ destruct (K3 _ _ Hin) as (A & B & R). split; [exact A|]. split; [lia|]. apply referenced_app, R.
           ++ inversion Hin; subst. split; [exact E|]. split; [lia|].
              unfold referenced. rewrite existsb_app. cbn. rewrite Nat.eqb_refl.
              apply orb_true_iff. right. reflexivity.
        -- intros r Hin. apply in_snoc in Hin as [Hin| ->].
           ++ destruct (K4 _ Hin) as (A & B & D & F). repeat split; try lia.
              ** intros Hk0. apply in_app_iff. left. auto.
              ** intros Hk0 Hm. rewrite map_app in Hm. apply in_snoc in Hm as [Hm|Hm]; [exact (F Hk0 Hm)|].
                 cbn in Hm. lia.
           ++ cbn [r_sink r_id r_key]. split; [lia|]. split; [lia|]. split; [|intros; congruence].
              intros _. apply in_app_iff. right. left. reflexivity.
  - (* drop *)
    unfold shinv; cbn [fst cache refs nsink nref]. split; [|split; [|split]].
    + apply NoDup_map_filter, K1.
    + apply NoDup_map_filter, K2.
    + intros k n Hin. apply filter_In in Hin as [Hin R]. destruct (K3 _ _ Hin) as (A & B & _).
      repeat split; assumption.
    + intros r Hr. pose proof Hr as Hr0. apply filter_In in Hr as [Hin _].
      destruct (K4 _ Hin) as (A & B & D & F). repeat split; auto.
      * intros Hk. apply filter_In. split; [auto|]. cbn [snd]. apply referenced_in. exact Hr0.
      * intros Hk Hm. apply (F Hk). apply in_map_iff in Hm as (e & He & Hm). apply filter_In in Hm as [Hm _].
        apply in_map_iff. eauto.
Qed.

Lemma shrun_cons s l ls :
  shrun s (l :: ls) = (fst (shrun (fst (shstep s l)) ls), snd (shstep s l) :: snd (shrun (fst (shstep s l)) ls)).
Proof. cbn [shrun]. destruct (shstep s l) as [s1 o]. cbn [fst snd]. destruct (shrun s1 ls) as [s2 os]. reflexivity. Qed.

Lemma shrun_inv s ls : shinv s -> shinv (fst (shrun s ls)).
Proof.
  revert s. induction ls as [|l ls IH]; intros s H; [exact H|].
  rewrite shrun_cons. cbn [fst]. apply IH, shstep_inv, H.
Qed.

(* while a holder of key k is alive, CreateSink for k returns the sink that holder has, creating nothing *)
Lemma shstep_same_key s r :
  shinv s -> In r (refs s) -> r_key r <> 0%Z ->
  snd (shstep s (SCreate (r_key r))) = [SRet (r_sink r) true].
Proof.
  intros (K1 & K2 & K3 & K4) Hin Hk. cbn [shstep].
  destruct (Z.eqb_spec (r_key r) 0) as [E|E]; [contradiction|].
  rewrite (lookup_in _ (r_sink r) _ K1) by (apply K4; assumption). reflexivity.
Qed.

(* holders of different keys hold different sinks *)
Lemma shinv_keys_apart s r1 r2 :
  shinv s -> In r1 (refs s) -> In r2 (refs s) -> r_key r1 <> 0%Z -> r_key r2 <> 0%Z ->
  r_sink r1 = r_sink r2 -> r_key r1 = r_key r2.
Proof.
  intros (K1 & K2 & K3 & K4) H1 H2 Hk1 Hk2 E.
  pose proof (proj1 (proj2 (proj2 (K4 _ H1))) Hk1) as C1. pose proof (proj1 (proj2 (proj2 (K4 _ H2))) Hk2) as C2.
  rewrite E in C1. remember (r_sink r2) as n. clear -K2 C1 C2.
  induction (cache s) as [|[k n'] c IH]; [destruct C1|].
  cbn in K2. inversion K2 as [|? ? Hnot ND]; subst.
  destruct C1 as [E1|C1], C2 as [E2|C2].
  - congruence.
  - inversion E1; subst. exfalso. apply Hnot. apply in_map_iff. exists (r_key r2, n). auto.
  - inversion E2; subst. exfalso. apply Hnot. apply in_map_iff. exists (r_key r1, n). auto.
  - apply IH; assumption.
Qed.

(* a holder stays alive until it is dropped itself *)
Lemma shstep_keeps s l r :
  In r (refs s) -> l <> SDrop (r_id r) -> In r (refs (fst (shstep s l))).
Proof.
  intros Hin Hl. destruct l as [k|d|n0 c0]; cbn [shstep]; [| |exact Hin].
  - destruct (Z.eqb k 0); [|destruct (lookup k (cache s))]; cbn [fst refs]; apply in_app_iff; auto.
  - cbn [fst refs]. apply filter_In. split; [exact Hin|].
    destruct (Nat.eqb_spec (r_id r) d) as [E|E]; [subst; contradiction | reflexivity].
Qed.

(* without a live holder (no cache entry) a truthy key gets a fresh connection; a falsy key always does *)
Lemma shstep_fresh s k :
  shinv s -> (forall r, In r (refs s) -> r_key r <> k) ->
  snd (shstep s (SCreate k)) = [SUnder (nsink s); SRet (nsink s) (negb (Z.eqb k 0))].
Proof.
  intros (K1 & K2 & K3 & K4) Hno. cbn [shstep]. destruct (Z.eqb_spec k 0) as [E|E]; [reflexivity|].
  destruct (lookup k (cache s)) as [n|] eqn:L; [|reflexivity].
  exfalso. apply lookup_some in L. pose proof (K3 _ _ L) as (_ & _ & R).
  (* the entry is referenced by a holder; that holder's key is k *)
  unfold referenced in R. apply existsb_exists in R as (r & Hr & Hn). apply Nat.eqb_eq in Hn.
  destruct (Z.eq_dec (r_key r) 0) as [Z0|Z0].
  - (* a pass-through holder never has the sink of a cache entry *)
    exfalso. apply (proj2 (proj2 (proj2 (K4 _ Hr))) Z0). rewrite Hn. apply in_map_iff. exists (k, n). auto.
  - pose proof (proj1 (proj2 (proj2 (K4 _ Hr))) Z0) as C. rewrite Hn in C.
    assert (r_key r = k); [|eapply Hno; eauto].
    clear -K2 C L. induction (cache s) as [|[k' n'] c IH]; [destruct C|].
    cbn in K2. inversion K2 as [|? ? Hnot ND]; subst.
    destruct C as [E1|C], L as [E2|L].
    + congruence.
    + inversion E1; subst. exfalso. apply Hnot. apply in_map_iff. exists (k, n). auto.
    + inversion E2; subst. exfalso. apply Hnot. apply in_map_iff. exists (r_key r, n). auto.
    + apply IH; assumption.
Qed.

End SharedProofs.

(* =============================================================================================== *)
(* SingletonPoolSink                                                                               *)
(* =============================================================================================== *)
Section SingletonProofs.
Local Open Scope nat_scope.

(* ---- lists ------------------------------------------------------------------------------------ *)
Lemma upd_length {A} (l : list A) i x : length (upd l i x) = length l.
Proof. revert i. induction l as [|y l IH]; intros [|i]; cbn; auto. Qed.

Lemma nth_error_upd_eq {A} (l : list A) i x : i < length l -> nth_error (upd l i x) i = Some x.
Proof. revert i. induction l as [|y l IH]; intros [|i] H; cbn in *; try lia; auto; try (apply IH; lia). Qed.

Lemma nth_error_upd_neq {A} (l : list A) i j x : i <> j -> nth_error (upd l i x) j = nth_error l j.
Proof.
  revert i j. induction l as [|y l IH]; intros [|i] [|j] H; cbn; auto; try lia; try (apply IH; lia).
Qed.

Lemma nth_error_lt {A} (l : list A) i x : nth_error l i = Some x -> i < length l.
Proof. intros H. apply nth_error_Some. congruence. Qed.

Lemma nth_error_snoc_old {A} (l : list A) a k : k < length l -> nth_error (l ++ [a]) k = nth_error l k.
Proof. intros H. apply nth_error_app1, H. Qed.

Lemma nth_error_snoc_new {A} (l : list A) a : nth_error (l ++ [a]) (length l) = Some a.
Proof. rewrite nth_error_app2 by lia. rewrite Nat.sub_diag. reflexivity. Qed.

Lemma option_eq_dec_nat (a b : option nat) : {a = b} + {a <> b}.
Proof. decide equality. apply Nat.eq_dec. Qed.

(* ---- invariant -------------------------------------------------------------------------------- *)
(* next_sink is the sink created last; every other sink ever created is Closed *)
Definition inv (s : st) : Prop :=
  (forall n, next s = Some n -> S n = length (sinks s)) /\
  (forall n x, nth_error (sinks s) n = Some x -> next s <> Some n -> x = SClosed).

Definition allclosed (s : st) : Prop := forall k x, nth_error (sinks s) k = Some x -> x = SClosed.

Lemma inv_init : inv init.
Proof. split; cbn; [discriminate|]. intros [|n] x H; discriminate. Qed.

Lemma inv_ext s s' : next s' = next s -> sinks s' = sinks s -> inv s -> inv s'.
Proof. intros En Es (I1 & I2). unfold inv. rewrite En, Es. auto. Qed.

Lemma inv_allclosed s :
  inv s -> (next s = None \/ exists n, next s = Some n /\ nth_error (sinks s) n = Some SClosed) -> allclosed s.
Proof.
  intros (I1 & I2) [Hn|(n & Hn & Hc)] k x Hk.
  - apply (I2 _ _ Hk). congruence.
  - destruct (Nat.eq_dec k n) as [->|Ne]; [congruence|]. apply (I2 _ _ Hk). congruence.
Qed.

Lemma inv_fresh s x0 : allclosed s -> inv (fresh s x0).
Proof.
  intros AC. unfold fresh. split; cbn [next sinks set_sinks set_next].
  - intros n H. inversion H; subst. rewrite app_length. cbn. lia.
  - intros n x Hx Hne. assert (n < length (sinks s)).
    { pose proof (nth_error_lt _ _ _ Hx) as L. rewrite app_length in L. cbn in L.
      destruct (Nat.eq_dec n (length (sinks s))); [congruence|lia]. }
    rewrite nth_error_snoc_old in Hx by assumption. eapply AC; eauto.
Qed.

Lemma inv_dropped s : allclosed s -> inv (set_next s None).
Proof. intros AC. split; cbn; [discriminate|]. intros n x Hx _. eapply AC; eauto. Qed.

(* ---- _Get, all branches ----------------------------------------------------------------------- *)
Lemma get_cases s f :
  (exists n, next s = Some n /\ nth_error (sinks s) n = Some SIdle /\ get s f = (s, GWait n, [OpenUnder n])) \/
  (exists n, next s = Some n /\ (nth_error (sinks s) n = Some SOpen \/ nth_error (sinks s) n = Some SBusy) /\
             get s f = (s, GSink n, [])) \/
  (exists n, next s = Some n /\ nth_error (sinks s) n = None /\ get s f = (s, GRaise, [])) \/
  ((next s = None \/ exists n, next s = Some n /\ nth_error (sinks s) n = Some SClosed) /\
   ((f = CFail /\ get s f = (set_next s None, GRaise, [])) \/
    (exists x r, get s f = (fresh s x, r, [Create (length (sinks s)); OpenUnder (length (sinks s))]) /\
       ((f = CIdle /\ x = SIdle /\ r = GWait (length (sinks s))) \/
        (f = COpenNow /\ x = SOpen /\ r = GSink (length (sinks s))) \/
        (f = CFailNow /\ x = SClosed /\ r = GSink (length (sinks s))))))).
Proof.
  destruct s as [nx rc sk wt sp nt]. unfold get, create, fresh. cbn [next sinks set_next set_sinks refc waiting spawned ntask].
  destruct nx as [n|].
  - destruct (nth_error sk n) as [[| | |]|] eqn:E.
    + left. eauto.
    + right. left. eauto.
    + right. left. eauto.
    + right. right. right. split; [right; eauto|]. destruct f; [right|left|right|right]; try (split; reflexivity);
        eexists; eexists; (split; [reflexivity|]); auto 10.
    + right. right. left. eauto.
  - right. right. right. split; [left; reflexivity|]. destruct f; [right|left|right|right]; try (split; reflexivity);
      eexists; eexists; (split; [reflexivity|]); auto 10.
Qed.

Definition step_next_ok (s s1 : st) : Prop :=
  next s1 = next s \/ next s1 = None \/ next s1 = Some (length (sinks s)).

(* what every step does to the environment's list of sinks: existing sinks keep their index, a Closed
   sink stays Closed *)
Lemma step_sinks s l n :
  closed s n -> closed (fst (step s l)) n.
Proof.
  unfold closed. intros Hc. pose proof (nth_error_lt _ _ _ Hc) as Hlt.
  destruct l as [f| |t0 f| |m ok|m|m b|t]; cbn [step].
  - destruct (get_cases (bump s) f) as [(k & _ & _ & ->)|[(k & _ & _ & ->)|[(k & _ & _ & ->)|(_ & [(_ & ->)|(x9 & r9 & -> & [(_ & -> & ->)|[(_ & -> & ->)|(_ & -> & ->)]])])]]];
      cbn; try assumption; rewrite nth_error_snoc_old; assumption.
  - destruct (refc (set_refc (bump s) (refc s + 1)) >? 1)%Z; exact Hc.
  - destruct (existsb (Nat.eqb t0) (spawned s)); [|exact Hc].
    destruct (get_cases (set_spawned s (filter (fun x => negb (Nat.eqb x t0)) (spawned s))) f)
      as [(k & _ & _ & ->)|[(k & _ & _ & ->)|[(k & _ & _ & ->)|(_ & [(_ & ->)|(x9 & r9 & -> & [(_ & -> & ->)|[(_ & -> & ->)|(_ & -> & ->)]])])]]];
      cbn; try assumption; rewrite nth_error_snoc_old; assumption.
  - cbn [next set_refc refc]. destruct (next s) as [k|]; [|exact Hc].
    destruct (refc s - 1 <=? 0)%Z; cbn; [|exact Hc].
    destruct (Nat.eq_dec k n) as [->|Ne]; [apply nth_error_upd_eq, Hlt | rewrite nth_error_upd_neq; assumption].
  - destruct (nth_error (sinks s) m) as [[| | |]|] eqn:E; try exact Hc.
    assert (m <> n) by congruence.
    destruct ok; cbn; rewrite nth_error_upd_neq; assumption.
  - destruct (nth_error (sinks s) m) as [[| | |]|] eqn:E; try exact Hc;
      (assert (m <> n) by congruence); cbn; rewrite nth_error_upd_neq; assumption.
  - destruct (nth_error (sinks s) m) as [[| | |]|] eqn:E; destruct b; try exact Hc;
      (assert (m <> n) by congruence); cbn; rewrite nth_error_upd_neq; assumption.
  - destruct (find_task t (waiting s)) as [tk|]; [|exact Hc].
    destruct (nth_error (sinks s) (t_sink tk)) as [[| | |]|]; try exact Hc;
      destruct (t_kind tk); try exact Hc; destruct (next s); exact Hc.
Qed.

Lemma step_inv s l : inv s -> inv (fst (step s l)).
Proof.
  intros I. destruct l as [f| |t0 f| |m ok|m|m b|t]; cbn [step].
  - assert (Ib : inv (bump s)) by (revert I; apply inv_ext; reflexivity).
    destruct (get_cases (bump s) f) as [(k & _ & _ & ->)|[(k & _ & _ & ->)|[(k & _ & _ & ->)|(Hc & [(_ & ->)|(x9 & r9 & -> & [(_ & -> & ->)|[(_ & -> & ->)|(_ & -> & ->)]])])]]];
      cbn [fst].
    + revert Ib. apply inv_ext; reflexivity.
    + exact Ib.
    + exact Ib.
    + apply inv_dropped, inv_allclosed; assumption.
    + eapply inv_ext; [| |apply (inv_fresh (bump s) SIdle), inv_allclosed; assumption]; reflexivity.
    + apply (inv_fresh (bump s) SOpen), inv_allclosed; assumption.
    + apply (inv_fresh (bump s) SClosed), inv_allclosed; assumption.
  - destruct (refc (set_refc (bump s) (refc s + 1)) >? 1)%Z; cbn [fst]; (revert I; apply inv_ext; reflexivity).
  - destruct (existsb (Nat.eqb t0) (spawned s)); [|exact I]. set (s0 := set_spawned s (filter (fun x => negb (Nat.eqb x t0)) (spawned s))).
    assert (Ib : inv s0) by (revert I; apply inv_ext; reflexivity).
    destruct (get_cases s0 f) as [(k & _ & _ & ->)|[(k & _ & _ & ->)|[(k & _ & _ & ->)|(Hc & [(_ & ->)|(x9 & r9 & -> & [(_ & -> & ->)|[(_ & -> & ->)|(_ & -> & ->)]])])]]];
      cbn [fst].
    + revert Ib. apply inv_ext; reflexivity.
    + exact Ib.
    + exact Ib.
    + apply inv_dropped, inv_allclosed; assumption.
    + eapply inv_ext; [| |apply (inv_fresh s0 SIdle), inv_allclosed; assumption]; reflexivity.
    + apply (inv_fresh s0 SOpen), inv_allclosed; assumption.
    + apply (inv_fresh s0 SClosed), inv_allclosed; assumption.
  - cbn [next set_refc refc]. destruct (next s) as [k|] eqn:En; [|revert I; apply inv_ext; reflexivity].
    destruct (refc s - 1 <=? 0)%Z; cbn [fst]; [|revert I; apply inv_ext; reflexivity].
    destruct I as (I1 & I2). split; cbn; [discriminate|].
    intros n x Hx _. destruct (Nat.eq_dec k n) as [->|Ne].
    + rewrite nth_error_upd_eq in Hx; [congruence|]. pose proof (I1 _ En). lia.
    + rewrite nth_error_upd_neq in Hx by assumption. apply (I2 _ _ Hx). congruence.
  - destruct (nth_error (sinks s) m) as [[| | |]|] eqn:E; try exact I.
    pose proof (nth_error_lt _ _ _ E) as Hlt. destruct I as (I1 & I2).
    assert (Hm : next s = Some m).
    { destruct (option_eq_dec_nat (next s) (Some m)) as [Em|Em]; [exact Em|].
      assert (SIdle = SClosed) by (apply (I2 _ _ E); exact Em). discriminate. }
    destruct ok; cbn [fst]; (split; cbn [next sinks set_sinks];
      [intros n Hn; rewrite upd_length; auto |
       intros n x Hx Hne; rewrite nth_error_upd_neq in Hx by congruence; eauto]).
  - destruct (nth_error (sinks s) m) as [[| | |]|] eqn:E; try exact I;
      (pose proof (nth_error_lt _ _ _ E) as Hlt; destruct I as (I1 & I2); cbn [fst];
       split; cbn [next sinks set_sinks];
       [intros n Hn; rewrite upd_length; auto |
        intros n x Hx Hne; destruct (Nat.eq_dec m n) as [->|Ne];
        [rewrite nth_error_upd_eq in Hx by assumption; congruence |
         rewrite nth_error_upd_neq in Hx by assumption; eauto]]).
  - destruct (nth_error (sinks s) m) as [[| | |]|] eqn:E; destruct b; try exact I;
      (pose proof (nth_error_lt _ _ _ E) as Hlt; destruct I as (I1 & I2); cbn [fst];
       split; cbn [next sinks set_sinks];
       [intros n Hn; rewrite upd_length; auto |
        intros n x Hx Hne; destruct (Nat.eq_dec m n) as [->|Ne];
        [exfalso; specialize (I2 _ _ E Hne); discriminate |
         rewrite nth_error_upd_neq in Hx by assumption; eauto]]).
  - destruct (find_task t (waiting s)) as [tk|]; [|exact I].
    destruct (nth_error (sinks s) (t_sink tk)) as [[| | |]|]; try exact I;
      destruct (t_kind tk); try (destruct (next s)); cbn [fst]; (revert I; apply inv_ext; reflexivity).
Qed.

(* a sink is created only when no created sink is alive, and it gets the next index *)
Lemma step_create s l m :
  inv s -> In (Create m) (snd (step s l)) -> allclosed s /\ m = length (sinks s).
Proof.
  intros I. destruct l as [f| |t0 f| |k ok|k|k b|t]; cbn [step].
  - assert (Ib : inv (bump s)) by (revert I; apply inv_ext; reflexivity).
    destruct (get_cases (bump s) f) as [(k & _ & _ & ->)|[(k & _ & _ & ->)|[(k & _ & _ & ->)|(Hc & [(_ & ->)|(x9 & r9 & -> & [(_ & -> & ->)|[(_ & -> & ->)|(_ & -> & ->)]])])]]];
      cbn [snd app]; intros H; repeat (destruct H as [H|H]; try discriminate); try contradiction;
      (inversion H; subst; split; [|reflexivity]; apply (inv_allclosed (bump s)); assumption).
  - destruct (refc (set_refc (bump s) (refc s + 1)) >? 1)%Z; cbn; [intros [H|[]]; discriminate | intros []].
  - destruct (existsb (Nat.eqb t0) (spawned s)); [|intros []]. set (s0 := set_spawned s (filter (fun x => negb (Nat.eqb x t0)) (spawned s))).
    assert (Ib : inv s0) by (revert I; apply inv_ext; reflexivity).
    destruct (get_cases s0 f) as [(k & _ & _ & ->)|[(k & _ & _ & ->)|[(k & _ & _ & ->)|(Hc & [(_ & ->)|(x9 & r9 & -> & [(_ & -> & ->)|[(_ & -> & ->)|(_ & -> & ->)]])])]]];
      cbn [snd app]; intros H; repeat (destruct H as [H|H]; try discriminate); try contradiction;
      (inversion H; subst; split; [|reflexivity]; apply (inv_allclosed s0); assumption).
  - cbn [next set_refc refc]. destruct (next s); [destruct (refc s - 1 <=? 0)%Z|]; cbn;
      intros H; repeat (destruct H as [H|H]; try discriminate); contradiction.
  - unfold notify. destruct (nth_error (sinks s) k) as [[| | |]|]; try destruct ok; cbn; try tauto;
      destruct (next s) as [j|]; try (destruct (Nat.eqb j k)); cbn;
      intros H; repeat (destruct H as [H|H]; try discriminate); contradiction.
  - unfold notify. destruct (nth_error (sinks s) k) as [[| | |]|]; cbn; try tauto;
      destruct (next s) as [j|]; try (destruct (Nat.eqb j k)); cbn;
      intros H; repeat (destruct H as [H|H]; try discriminate); contradiction.
  - destruct (nth_error (sinks s) k) as [[| | |]|]; destruct b; cbn; intros [].
  - destruct (find_task t (waiting s)) as [tk|]; [|intros []].
    destruct (nth_error (sinks s) (t_sink tk)) as [[| | |]|]; cbn; try tauto;
      destruct (t_kind tk); try (destruct (next s)); cbn;
      intros H; repeat (destruct H as [H|H]; try discriminate); contradiction.
Qed.

(* a forwarded request goes to the pool's current sink *)
Lemma step_forward s l c n :
  In (Forward c n) (snd (step s l)) -> next (fst (step s l)) = Some n.
Proof.
  destruct l as [f| |t0 f| |k ok|k|k b|t]; cbn [step].
  - destruct (get_cases (bump s) f) as [(k & _ & _ & ->)|[(k & Hn & _ & ->)|[(k & _ & _ & ->)|(Hc & [(_ & ->)|(x9 & r9 & -> & [(_ & -> & ->)|[(_ & -> & ->)|(_ & -> & ->)]])])]]];
      cbn [fst snd app]; intros H; repeat (destruct H as [H|H]; try discriminate); try contradiction;
      inversion H; subst; first [exact Hn | reflexivity].
  - destruct (refc (set_refc (bump s) (refc s + 1)) >? 1)%Z; cbn; [intros [H|[]]; discriminate | intros []].
  - destruct (existsb (Nat.eqb t0) (spawned s)); [|intros []]. set (s0 := set_spawned s (filter (fun x => negb (Nat.eqb x t0)) (spawned s))).
    destruct (get_cases s0 f) as [(k & _ & _ & ->)|[(k & _ & _ & ->)|[(k & _ & _ & ->)|(Hc & [(_ & ->)|(x9 & r9 & -> & [(_ & -> & ->)|[(_ & -> & ->)|(_ & -> & ->)]])])]]];
      cbn [snd app]; intros H; repeat (destruct H as [H|H]; try discriminate); contradiction.
  - cbn [next set_refc refc]. destruct (next s); [destruct (refc s - 1 <=? 0)%Z|]; cbn;
      intros H; repeat (destruct H as [H|H]; try discriminate); contradiction.
  - unfold notify. destruct (nth_error (sinks s) k) as [[| | |]|]; try destruct ok; cbn; try tauto;
      destruct (next s) as [j|]; try (destruct (Nat.eqb j k)); cbn;
      intros H; repeat (destruct H as [H|H]; try discriminate); contradiction.
  - unfold notify. destruct (nth_error (sinks s) k) as [[| | |]|]; cbn; try tauto;
      destruct (next s) as [j|]; try (destruct (Nat.eqb j k)); cbn;
      intros H; repeat (destruct H as [H|H]; try discriminate); contradiction.
  - destruct (nth_error (sinks s) k) as [[| | |]|]; destruct b; cbn; intros [].
  - destruct (find_task t (waiting s)) as [tk|]; [|intros []].
    destruct (nth_error (sinks s) (t_sink tk)) as [[| | |]|]; cbn; try tauto;
      destruct (t_kind tk); try (destruct (next s) as [j|] eqn:En); cbn;
      intros H; repeat (destruct H as [H|H]; try discriminate); try contradiction;
      inversion H; subst; assumption.
Qed.

(* every observation of a step is about the pool's current sink or about the sink created in this step *)
Lemma step_mentions s l o m :
  In o (snd (step s l)) -> obs_sink o = Some m -> next s = Some m \/ m = length (sinks s).
Proof.
  destruct l as [f| |t0 f| |k ok|k|k b|t]; cbn [step].
  - destruct (get_cases (bump s) f) as [(k & Hn & _ & ->)|[(k & Hn & _ & ->)|[(k & _ & _ & ->)|(Hc & [(_ & ->)|(x9 & r9 & -> & [(_ & -> & ->)|[(_ & -> & ->)|(_ & -> & ->)]])])]]];
      cbn [fst snd app]; intros H Ho; repeat (destruct H as [H|H]; try subst o); try contradiction;
      cbn in Ho; try discriminate; inversion Ho; subst; auto.
  - destruct (refc (set_refc (bump s) (refc s + 1)) >? 1)%Z; cbn; [intros [H|[]] Ho; subst o; discriminate | intros []].
  - destruct (existsb (Nat.eqb t0) (spawned s)); [|intros []]. set (s0 := set_spawned s (filter (fun x => negb (Nat.eqb x t0)) (spawned s))).
    destruct (get_cases s0 f) as [(k & Hn & _ & ->)|[(k & Hn & _ & ->)|[(k & _ & _ & ->)|(Hc & [(_ & ->)|(x9 & r9 & -> & [(_ & -> & ->)|[(_ & -> & ->)|(_ & -> & ->)]])])]]];
      cbn [fst snd app]; intros H Ho; repeat (destruct H as [H|H]; try subst o); try contradiction;
      cbn in Ho; try discriminate; inversion Ho; subst; auto.
  - cbn [next set_refc refc]. destruct (next s) as [j|]; [destruct (refc s - 1 <=? 0)%Z|]; cbn;
      intros H Ho; repeat (destruct H as [H|H]; try subst o); try contradiction.
    cbn in Ho. inversion Ho; subst; auto.
  - unfold notify. destruct (nth_error (sinks s) k) as [[| | |]|]; try destruct ok; cbn; try tauto;
      destruct (next s) as [j|]; try (destruct (Nat.eqb j k)); cbn;
      intros H Ho; repeat (destruct H as [H|H]; try subst o); try contradiction; discriminate.
  - unfold notify. destruct (nth_error (sinks s) k) as [[| | |]|]; cbn; try tauto;
      destruct (next s) as [j|]; try (destruct (Nat.eqb j k)); cbn;
      intros H Ho; repeat (destruct H as [H|H]; try subst o); try contradiction; discriminate.
  - destruct (nth_error (sinks s) k) as [[| | |]|]; destruct b; cbn; intros [].
  - destruct (find_task t (waiting s)) as [tk|]; [|intros []].
    destruct (nth_error (sinks s) (t_sink tk)) as [[| | |]|]; cbn; try tauto;
      destruct (t_kind tk); try (destruct (next s) as [j|] eqn:En); cbn;
      intros H Ho; repeat (destruct H as [H|H]; try subst o); try contradiction;
      cbn in Ho; try discriminate; inversion Ho; subst; auto.
Qed.

(* next_sink after a step: unchanged, None, or the sink created in this step *)
Lemma step_next s l : step_next_ok s (fst (step s l)) /\ length (sinks s) <= length (sinks (fst (step s l))).
Proof.
  unfold step_next_ok. destruct l as [f| |t0 f| |k ok|k|k b|t]; cbn [step].
  - destruct (get_cases (bump s) f) as [(k & Hn & _ & ->)|[(k & Hn & _ & ->)|[(k & _ & _ & ->)|(Hc & [(_ & ->)|(x9 & r9 & -> & [(_ & -> & ->)|[(_ & -> & ->)|(_ & -> & ->)]])])]]];
      cbn; try rewrite app_length; cbn; auto; split; auto; lia.
  - destruct (refc (set_refc (bump s) (refc s + 1)) >? 1)%Z; cbn; auto.
  - destruct (existsb (Nat.eqb t0) (spawned s)); [|cbn; auto]. set (s0 := set_spawned s (filter (fun x => negb (Nat.eqb x t0)) (spawned s))).
    destruct (get_cases s0 f) as [(k & Hn & _ & ->)|[(k & Hn & _ & ->)|[(k & _ & _ & ->)|(Hc & [(_ & ->)|(x9 & r9 & -> & [(_ & -> & ->)|[(_ & -> & ->)|(_ & -> & ->)]])])]]];
      cbn; try rewrite app_length; cbn; auto; split; auto; lia.
  - cbn [next set_refc refc]. destruct (next s) as [j|] eqn:En; [destruct (refc s - 1 <=? 0)%Z|]; cbn;
      try rewrite upd_length; auto.
  - destruct (nth_error (sinks s) k) as [[| | |]|]; try destruct ok; cbn; try rewrite upd_length; auto.
  - destruct (nth_error (sinks s) k) as [[| | |]|]; cbn; try rewrite upd_length; auto.
  - destruct (nth_error (sinks s) k) as [[| | |]|]; destruct b; cbn; try rewrite upd_length; auto.
  - destruct (find_task t (waiting s)) as [tk|]; [|cbn; auto].
    destruct (nth_error (sinks s) (t_sink tk)) as [[| | |]|]; cbn; auto;
      destruct (t_kind tk); try (destruct (next s) eqn:En); cbn; auto.
Qed.

(* ---- runs ------------------------------------------------------------------------------------- *)
Lemma run_cons s l ls :
  run s (l :: ls) = (fst (run (fst (step s l)) ls), snd (step s l) :: snd (run (fst (step s l)) ls)).
Proof. cbn [run]. destruct (step s l) as [s1 o]. cbn [fst snd]. destruct (run s1 ls) as [s2 os]. reflexivity. Qed.

Lemma run_app s a b :
  run s (a ++ b) = (fst (run (fst (run s a)) b), snd (run s a) ++ snd (run (fst (run s a)) b)).
Proof.
  revert s. induction a as [|l a IH]; intros s.
  - cbn. destruct (run s b); reflexivity.
  - rewrite <- app_comm_cons, !run_cons, IH. cbn [fst snd]. reflexivity.
Qed.

Lemma run_inv s ls : inv s -> inv (fst (run s ls)).
Proof.
  revert s. induction ls as [|l ls IH]; intros s H; [exact H|].
  rewrite run_cons. cbn [fst]. apply IH, step_inv, H.
Qed.

Lemma run_closed s ls n : closed s n -> closed (fst (run s ls)) n.
Proof.
  revert s. induction ls as [|l ls IH]; intros s H; [exact H|].
  rewrite run_cons. cbn [fst]. apply IH, step_sinks, H.
Qed.

(* ---- at most one ------------------------------------------------------------------------------ *)
Lemma inv_live_next s n : inv s -> live s n -> next s = Some n.
Proof.
  intros (I1 & I2) (x & Hx & Hnc). destruct (option_eq_dec_nat (next s) (Some n)) as [E|E]; [exact E|].
  exfalso. apply Hnc. eapply I2; eauto.
Qed.

Lemma filter_allclosed l : (forall k x, nth_error l k = Some x -> x = SClosed) -> filter not_closed l = [].
Proof.
  induction l as [|a l IH]; intros H; [reflexivity|]. cbn.
  rewrite (H 0 a eq_refl). cbn. apply IH. intros k x Hk. apply (H (S k) x Hk).
Qed.

Lemma le1_last l :
  (forall k x, nth_error l k = Some x -> S k <> length l -> x = SClosed) -> length (filter not_closed l) <= 1.
Proof.
  destruct l as [|a l _] using rev_ind; [cbn; lia|]. intros H.
  rewrite filter_app, app_length, filter_allclosed.
  - cbn. destruct (not_closed a); cbn; lia.
  - intros k x Hk. pose proof (nth_error_lt _ _ _ Hk). apply (H k x).
    + rewrite nth_error_app1 by assumption. exact Hk.
    + rewrite app_length. cbn. lia.
Qed.

Lemma inv_live_count s : inv s -> live_count s <= 1.
Proof.
  intros (I1 & I2). apply le1_last. intros k x Hk Hne. apply (I2 k x Hk).
  intros Hn. apply I1 in Hn. lia.
Qed.

(* ---- retired sinks ---------------------------------------------------------------------------- *)
(* a sink that exists and is not the pool's next_sink is never the pool's next_sink again, and no
   observation is ever about it *)
Definition retired (s : st) (n : nat) : Prop := n < length (sinks s) /\ next s <> Some n.

Lemma step_retired s l n : retired s n -> retired (fst (step s l)) n.
Proof.
  intros (Hlt & Hne). destruct (step_next s l) as ([E|[E|E]] & Hlen); split; try lia; rewrite E; try congruence.
  intros H. inversion H. lia.
Qed.

Lemma step_retired_silent s l n o :
  retired s n -> In o (snd (step s l)) -> obs_sink o <> Some n.
Proof.
  intros (Hlt & Hne) Hin Ho. destruct (step_mentions _ _ _ _ Hin Ho) as [E|E]; [congruence|lia].
Qed.

Lemma run_retired_silent s ls n os o :
  retired s n -> In os (snd (run s ls)) -> In o os -> obs_sink o <> Some n.
Proof.
  revert s. induction ls as [|l ls IH]; intros s R Hos Ho; [destruct Hos|].
  rewrite run_cons in Hos. cbn [snd] in Hos. destruct Hos as [<-|Hos].
  - eapply step_retired_silent; eauto.
  - apply (IH (fst (step s l))); [apply step_retired, R | exact Hos | exact Ho].
Qed.

(* a request issued when sink n is already closed leaves n retired *)
Lemma req_retires s f n : closed s n -> retired (fst (step s (Req f))) n.
Proof.
  intros Hc. pose proof (nth_error_lt _ _ _ Hc) as Hlt. unfold closed in Hc.
  cbn [step].
  destruct (get_cases (bump s) f) as [(k & Hn & Hk & ->)|[(k & Hn & Hk & ->)|[(k & Hn & Hk & ->)|(_ & [(_ & ->)|(x9 & r9 & -> & [(_ & -> & ->)|[(_ & -> & ->)|(_ & -> & ->)]])])]]];
    cbn [fst]; split; cbn; try rewrite app_length; cbn; try lia; try discriminate.
  - cbn in Hn, Hk. rewrite Hn. intros H. inversion H; subst. congruence.
  - cbn in Hn, Hk. rewrite Hn. intros H. inversion H; subst. destruct Hk; congruence.
  - cbn in Hn, Hk. rewrite Hn. intros H. inversion H; subst. congruence.
  - intros H. inversion H. lia.
  - intros H. inversion H. lia.
  - intros H. inversion H. lia.
Qed.

(* ---- sharing ---------------------------------------------------------------------------------- *)
Lemma live_not_closed s n : live s n -> ~ closed s n.
Proof. intros (x & Hx & Hnc) Hc. unfold closed in Hc. congruence. Qed.

Lemma live_back s l n : n < length (sinks s) -> live (fst (step s l)) n -> live s n.
Proof.
  intros Hlt Hl. destruct (nth_error (sinks s) n) as [x|] eqn:E.
  - exists x. split; [exact E|]. intros ->. apply (live_not_closed _ _ Hl). apply step_sinks. exact E.
  - apply nth_error_None in E. lia.
Qed.

(* while sink n stays alive no other sink is created and every forwarded request goes to n *)
Lemma run_share s ls n :
  inv s -> live s n -> live (fst (run s ls)) n ->
  forall os o, In os (snd (run s ls)) -> In o os ->
    (forall m, o <> Create m) /\ (forall c m, o = Forward c m -> m = n).
Proof.
  revert s. induction ls as [|l ls IH]; intros s I L0 L1 os o Hos Ho; [destruct Hos|].
  rewrite run_cons in Hos, L1. cbn [fst snd] in Hos, L1.
  assert (Hlt : n < length (sinks s)) by (destruct L0 as (x & Hx & _); eapply nth_error_lt; eauto).
  assert (L : live (fst (step s l)) n).
  { destruct (nth_error (sinks (fst (step s l))) n) as [x|] eqn:E.
    - exists x. split; [exact E|]. intros ->. apply (live_not_closed _ _ L1). apply run_closed. exact E.
    - apply nth_error_None in E. pose proof (proj2 (step_next s l)). lia. }
  destruct Hos as [<-|Hos].
  - split.
    + intros m ->. destruct (step_create _ _ _ I Ho) as (AC & _).
      destruct L0 as (x & Hx & Hnc). apply Hnc. eapply AC; eauto.
    + intros c m ->. apply step_forward in Ho.
      pose proof (inv_live_next _ _ (step_inv s l I) L) as E. congruence.
  - eapply (IH (fst (step s l))); eauto. apply step_inv, I.
Qed.

(* ---- what a request does, by the state of the pool's sink ------------------------------------- *)
(* no usable sink (never created, pool closed, or the current one is dead): exactly one fresh sink *)
Lemma req_replaces s :
  (next s = None \/ exists n, next s = Some n /\ closed s n) ->
  let L := length (sinks s) in
  let s' := fst (step s (Req CIdle)) in
  snd (step s (Req CIdle)) = [Create L; OpenUnder L] /\
  next s' = Some L /\ sinks s' = sinks s ++ [SIdle] /\
  waiting s' = waiting s ++ [mkTask (ntask s) KReq L].
Proof.
  intros H. cbn zeta. cbn [step].
  destruct (get_cases (bump s) CIdle) as [(k & Hn & Hk & _)|[(k & Hn & Hk & _)|[(k & Hn & Hk & _)|(_ & [(Hf & _)|(x9 & r9 & -> & [(_ & -> & ->)|[(Hf & _)|(Hf & _)]])])]]].
  - cbn in Hn, Hk. destruct H as [H|(n & H & Hc)]; unfold closed in *; congruence.
  - cbn in Hn, Hk. destruct H as [H|(n & H & Hc)]; unfold closed in *; destruct Hk; congruence.
  - cbn in Hn, Hk. destruct H as [H|(n & H & Hc)]; unfold closed in *; congruence.
  - discriminate.
  - cbn. auto.
  - discriminate.
  - discriminate.
Qed.

(* the current sink is open: the request is forwarded to it at once, nothing else happens *)
Lemma req_shares_open s f n :
  next s = Some n -> (nth_error (sinks s) n = Some SOpen \/ nth_error (sinks s) n = Some SBusy) ->
  step s (Req f) = (bump s, [Forward (ntask s) n]).
Proof.
  intros Hn Hk. cbn [step].
  destruct (get_cases (bump s) f) as [(k & Hn' & Hk' & _)|[(k & Hn' & Hk' & ->)|[(k & Hn' & Hk' & _)|([Hc|(k & Hn' & Hk')] & _)]]].
  - cbn in Hn', Hk'. destruct Hk; congruence.
  - cbn in Hn', Hk'. assert (k = n) by congruence. subst. reflexivity.
  - cbn in Hn', Hk'. destruct Hk; congruence.
  - cbn in Hc. congruence.
  - cbn in Hn', Hk'. destruct Hk; congruence.
Qed.

(* the current sink is still opening: the request waits for the same open, no second sink *)
Lemma req_joins_opening s f n :
  next s = Some n -> nth_error (sinks s) n = Some SIdle ->
  step s (Req f) = (set_waiting (bump s) (waiting s ++ [mkTask (ntask s) KReq n]), [OpenUnder n]).
Proof.
  intros Hn Hk. cbn [step].
  destruct (get_cases (bump s) f) as [(k & Hn' & Hk' & ->)|[(k & Hn' & Hk' & _)|[(k & Hn' & Hk' & _)|([Hc|(k & Hn' & Hk')] & _)]]].
  - cbn in Hn', Hk'. assert (k = n) by congruence. subst. reflexivity.
  - cbn in Hn', Hk'. destruct Hk'; congruence.
  - cbn in Hn', Hk'. congruence.
  - cbn in Hc. congruence.
  - cbn in Hn', Hk'. congruence.
Qed.

(* a blocked request whose open has completed continues with the pool's current sink *)
Lemma resume_forwards s t tk n :
  find_task t (waiting s) = Some tk -> t_kind tk = KReq ->
  nth_error (sinks s) (t_sink tk) <> Some SIdle -> next s = Some n ->
  snd (step s (Resume t)) = [Forward t n].
Proof.
  intros Hf Hk Hs Hn. cbn [step]. rewrite Hf, Hk, Hn.
  destruct (nth_error (sinks s) (t_sink tk)) as [[| | |]|]; try reflexivity. congruence.
Qed.

(* a request issued when sink n is closed says nothing about n *)
Lemma req_silent_closed s f n o :
  closed s n -> In o (snd (step s (Req f))) -> obs_sink o <> Some n.
Proof.
  intros Hc. pose proof (nth_error_lt _ _ _ Hc) as Hlt. unfold closed in Hc. cbn [step].
  destruct (get_cases (bump s) f) as [(k & Hn & Hk & ->)|[(k & Hn & Hk & ->)|[(k & Hn & Hk & ->)|(_ & [(_ & ->)|(x9 & r9 & -> & [(_ & -> & ->)|[(_ & -> & ->)|(_ & -> & ->)]])])]]];
    cbn [snd app]; intros H Ho; repeat (destruct H as [H|H]; try subst o); try contradiction;
    cbn in Ho; try discriminate; inversion Ho; subst; try (cbn in Hk; congruence); try (cbn in Hk; destruct Hk; congruence); lia.
Qed.

Lemma allclosed_count s : allclosed s -> live_count s = 0.
Proof. intros H. unfold live_count. rewrite filter_allclosed; [reflexivity | exact H]. Qed.

(* ---- the pool's own count ---------------------------------------------------------------------- *)
Lemma get_refc s f : refc (fst (fst (get s f))) = refc s.
Proof.
  destruct (get_cases s f) as [(k & _ & _ & ->)|[(k & _ & _ & ->)|[(k & _ & _ & ->)|(_ & [(_ & ->)|(x9 & r9 & -> & [(_ & -> & ->)|[(_ & -> & ->)|(_ & -> & ->)]])])]]]; reflexivity.
Qed.

Lemma step_refc s l :
  refc (fst (step s l)) = (refc s + (if is_openpool l then 1 else 0) - (if is_closepool l then 1 else 0))%Z.
Proof.
  destruct l as [f| |t0 f| |m ok|m|m b|t]; cbn [step is_openpool is_closepool].
  - pose proof (get_refc (bump s) f) as G. destruct (get (bump s) f) as [[s1 r] o]. cbn [fst] in G.
    destruct r; cbn [fst refc set_waiting]; rewrite G; cbn; lia.
  - destruct (refc (set_refc (bump s) (refc s + 1)) >? 1)%Z; cbn; lia.
  - destruct (existsb (Nat.eqb t0) (spawned s)); [|cbn; lia].
    set (s0 := set_spawned s (filter (fun x => negb (Nat.eqb x t0)) (spawned s))).
    pose proof (get_refc s0 f) as G. destruct (get s0 f) as [[s1 r] o]. cbn [fst] in G.
    destruct r; cbn [fst refc set_waiting]; rewrite G; cbn; lia.
  - cbn [next set_refc refc]. destruct (next s); [destruct (refc s - 1 <=? 0)%Z|]; cbn; lia.
  - destruct (nth_error (sinks s) m) as [[| | |]|]; try destruct ok; cbn; lia.
  - destruct (nth_error (sinks s) m) as [[| | |]|]; cbn; lia.
  - destruct (nth_error (sinks s) m) as [[| | |]|]; destruct b; cbn; lia.
  - destruct (find_task t (waiting s)) as [tk|]; [|cbn; lia].
    destruct (nth_error (sinks s) (t_sink tk)) as [[| | |]|]; cbn; try lia;
      destruct (t_kind tk); try (destruct (next s)); cbn; lia.
Qed.

Lemma balance_cons l ls :
  balance (l :: ls) = ((if is_openpool l then 1 else 0) - (if is_closepool l then 1 else 0) + balance ls)%Z.
Proof. unfold balance. cbn [filter]. destruct (is_openpool l), (is_closepool l); cbn [length]; lia. Qed.

Lemma run_refc s ls : refc (fst (run s ls)) = (refc s + balance ls)%Z.
Proof.
  revert s. induction ls as [|l ls IH]; intros s; [unfold balance; cbn; lia|].
  rewrite run_cons. cbn [fst]. rewrite IH, step_refc, balance_cons. lia.
Qed.

(* the pool closes its connection only in Close(), and only when that call brings the count to 0 or below *)
Lemma step_closeunder s l n :
  In (CloseUnder n) (snd (step s l)) -> l = ClosePool /\ (refc s <= 1)%Z /\ next s = Some n.
Proof.
  destruct l as [f| |t0 f| |m ok|m|m b|t]; cbn [step].
  - destruct (get_cases (bump s) f) as [(k & _ & _ & ->)|[(k & _ & _ & ->)|[(k & _ & _ & ->)|(_ & [(_ & ->)|(x9 & r9 & -> & [(_ & -> & ->)|[(_ & -> & ->)|(_ & -> & ->)]])])]]];
      cbn [snd app]; intros H; repeat (destruct H as [H|H]; try discriminate); contradiction.
  - destruct (refc (set_refc (bump s) (refc s + 1)) >? 1)%Z; cbn; [intros [H|[]]; discriminate | intros []].
  - destruct (existsb (Nat.eqb t0) (spawned s)); [|intros []].
    destruct (get_cases (set_spawned s (filter (fun x => negb (Nat.eqb x t0)) (spawned s))) f)
      as [(k & _ & _ & ->)|[(k & _ & _ & ->)|[(k & _ & _ & ->)|(_ & [(_ & ->)|(x9 & r9 & -> & [(_ & -> & ->)|[(_ & -> & ->)|(_ & -> & ->)]])])]]];
      cbn [snd app]; intros H; repeat (destruct H as [H|H]; try discriminate); contradiction.
  - cbn [next set_refc refc]. destruct (next s) as [k|]; [|intros []].
    destruct (Z.leb_spec (refc s - 1) 0) as [Hle|Hgt]; cbn; [|intros []].
    intros [H|[]]. inversion H; subst. repeat split; auto; lia.
  - unfold notify. destruct (nth_error (sinks s) m) as [[| | |]|]; try destruct ok; cbn; try tauto;
      destruct (next s) as [j|]; try (destruct (Nat.eqb j m)); cbn;
      intros H; repeat (destruct H as [H|H]; try discriminate); contradiction.
  - unfold notify. destruct (nth_error (sinks s) m) as [[| | |]|]; cbn; try tauto;
      destruct (next s) as [j|]; try (destruct (Nat.eqb j m)); cbn;
      intros H; repeat (destruct H as [H|H]; try discriminate); contradiction.
  - destruct (nth_error (sinks s) m) as [[| | |]|]; destruct b; cbn; intros [].
  - destruct (find_task t (waiting s)) as [tk|]; [|intros []].
    destruct (nth_error (sinks s) (t_sink tk)) as [[| | |]|]; cbn; try tauto;
      destruct (t_kind tk); try (destruct (next s)); cbn;
      intros H; repeat (destruct H as [H|H]; try discriminate); contradiction.
Qed.

End SingletonProofs.
