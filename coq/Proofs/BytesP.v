(* Lemmas about big-endian integers, struct-style packing and stream reads. *)
From Scales Require Import Model.Base Model.Bytes.
From Coq Require Import ZifyBool.
Ltac Zify.zify_post_hook ::= Z.div_mod_to_equations.
Local Open Scope Z_scope.

Lemma pow256_S k : pow256 (S k) = 256 * pow256 k.
Proof. unfold pow256. rewrite Nat2Z.inj_succ, Z.pow_succ_r by lia. reflexivity. Qed.

Lemma pow256_pos k : 0 < pow256 k.
Proof. unfold pow256. apply Z.pow_pos_nonneg; lia. Qed.

Lemma pow256_even k : pow256 (S k) / 2 = 128 * pow256 k.
Proof. rewrite pow256_S. pose proof (pow256_pos k). lia. Qed.

Lemma len_app (a b : bytes) : len (a ++ b) = len a + len b.
Proof. unfold len. rewrite app_length. lia. Qed.

Lemma len_nonneg (a : bytes) : 0 <= len a.
Proof. unfold len. lia. Qed.

Lemma be_length k n : length (be k n) = k.
Proof. revert n; induction k as [|k IH]; intros n; cbn [be]; [reflexivity|]. rewrite app_length, IH. cbn. lia. Qed.

Lemma len_be k n : len (be k n) = Z.of_nat k.
Proof. unfold len. now rewrite be_length. Qed.

Lemma be_bytes k : forall n b, In b (be k n) -> 0 <= b < 256.
Proof.
  induction k as [|k IH]; intros n b H; cbn [be] in H; [contradiction|].
  apply in_app_or in H as [H|[<-|[]]]; [eauto|]. lia.
Qed.

Lemma unbe_snoc l b : unbe (l ++ [b]) = unbe l * 256 + b.
Proof. unfold unbe. rewrite fold_left_app. reflexivity. Qed.

Lemma unbe_be_mod k : forall n, unbe (be k n) = n mod pow256 k.
Proof.
  induction k as [|k IH]; intros n.
  - cbn. unfold pow256. cbn. now rewrite Z.mod_1_r.
  - cbn [be]. rewrite unbe_snoc, IH, pow256_S. pose proof (pow256_pos k) as HP.
    set (P := pow256 k) in *.
    (* n = 256*(n/256) + n mod 256 ; (n/256) = P*q + r *)
    rewrite Z.rem_mul_r by lia. lia.
Qed.

Lemma unbe_be k n : 0 <= n < pow256 k -> unbe (be k n) = n.
Proof. intros H. rewrite unbe_be_mod. apply Z.mod_small. exact H. Qed.

Lemma unpack_s_be k n : - (pow256 k / 2) <= n < pow256 k / 2 -> (0 < k)%nat ->
  unpack_s k (be k n) = n.
Proof.
  intros H Hk. unfold unpack_s. rewrite unbe_be_mod.
  destruct k as [|k]; [lia|]. rewrite pow256_even in *. rewrite pow256_S.
  pose proof (pow256_pos k) as HP. set (P := pow256 k) in *.
  destruct (Z.ltb_spec (n mod (256 * P)) (128 * P)) as [L|L].
  - destruct (Z.lt_ge_cases n 0) as [Hn|Hn].
    + assert (n mod (256 * P) = n + 256 * P).
      { symmetry. apply (Z.mod_unique_pos _ _ (-1)); lia. }
      lia.
    + apply Z.mod_small. lia.
  - destruct (Z.lt_ge_cases n 0) as [Hn|Hn].
    + assert (n mod (256 * P) = n + 256 * P).
      { symmetry. apply (Z.mod_unique_pos _ _ (-1)); lia. }
      lia.
    + rewrite Z.mod_small in L by lia. lia.
Qed.

Lemma pack_s_some k n b : pack_s k n = Some b ->
  b = be k n /\ - (pow256 k / 2) <= n < pow256 k / 2.
Proof.
  unfold pack_s. destruct (Z.leb_spec (- (pow256 k / 2)) n), (Z.ltb_spec n (pow256 k / 2)); cbn; intros E;
    try discriminate. inversion E. split; [reflexivity|lia].
Qed.

Lemma pack_u_some k n b : pack_u k n = Some b -> b = be k n /\ 0 <= n < pow256 k.
Proof.
  unfold pack_u. destruct (Z.leb_spec 0 n), (Z.ltb_spec n (pow256 k)); cbn; intros E; try discriminate.
  inversion E. split; [reflexivity|lia].
Qed.

Lemma take_app_exact (a b : bytes) : take (len a) (a ++ b) = a.
Proof.
  unfold take, len. rewrite Nat2Z.id. rewrite firstn_app, Nat.sub_diag, firstn_all. cbn. apply app_nil_r.
Qed.

Lemma drop_app_exact (a b : bytes) : drop (len a) (a ++ b) = b.
Proof.
  unfold drop, len. rewrite Nat2Z.id. rewrite skipn_app, Nat.sub_diag, skipn_all. reflexivity.
Qed.

Lemma read_n_app (a b : bytes) n : n = len a -> read_n n (a ++ b) = Some (a, b).
Proof.
  intros ->. unfold read_n. rewrite len_app. pose proof (len_nonneg a). pose proof (len_nonneg b).
  replace ((0 <=? len a) && (len a <=? len a + len b)) with true by lia.
  now rewrite take_app_exact, drop_app_exact.
Qed.

Lemma firstn_app_exact {A} (a b : list A) n : n = length a -> firstn n (a ++ b) = a.
Proof. intros ->. rewrite firstn_app, Nat.sub_diag, firstn_all. cbn. apply app_nil_r. Qed.

Lemma skipn_app_exact {A} (a b : list A) n : n = length a -> skipn n (a ++ b) = b.
Proof. intros ->. rewrite skipn_app, Nat.sub_diag, skipn_all. reflexivity. Qed.

Lemma pow256_1 : pow256 1 = 256. Proof. reflexivity. Qed.
Lemma pow256_2 : pow256 2 = 65536. Proof. reflexivity. Qed.
Lemma pow256_3 : pow256 3 = 16777216. Proof. reflexivity. Qed.
Lemma pow256_4 : pow256 4 = 4294967296. Proof. reflexivity. Qed.
Lemma pow256_8 : pow256 8 = 18446744073709551616. Proof. reflexivity. Qed.
