(* Proofs for the ThriftMux framing model (C13). *)
From Scales Require Import Model.Base Model.Bytes Model.Utf8 Model.MuxCodec Proofs.BytesP.
From Coq Require Import ZifyBool.
Ltac Zify.zify_post_hook ::= Z.div_mod_to_equations.
Local Open Scope Z_scope.

(* ---- option-monad inversion ------------------------------------------------------------------- *)
Lemma obind_some {A B} (o : option A) (f : A -> option B) r :
  obind o f = Some r -> exists x, o = Some x /\ f x = Some r.
Proof. destruct o; cbn; intros H; [eauto|discriminate]. Qed.

Tactic Notation "inv_obind" hyp(H) "as" ident(x) ident(E) :=
  apply obind_some in H as (x & E & H).

(* ---- the code's tag encoding is the 3-byte big-endian representation -------------------------- *)
Lemma enc_tag_be t : enc_tag t = be 3 t.
Proof.
  unfold enc_tag. cbn [be app].
  rewrite !Z.shiftr_div_pow2 by lia.
  change 255 with (Z.ones 8). rewrite !Z.land_ones by lia.
  change (2^8) with 256. change (2^16) with 65536.
  repeat (f_equal; try lia).
Qed.

Lemma be3_mod t : be 3 t = be 3 (t mod 16777216).
Proof. cbn [be app]. repeat (f_equal; try lia). Qed.

Lemma be1 t : be 1 t = [t mod 256].
Proof. reflexivity. Qed.

(* ---- header ----------------------------------------------------------------------------------- *)
Lemma build_header_some tag mtype dl h :
  build_header tag mtype dl = Some h ->
  h = be 4 (4 + dl) ++ [mtype mod 256] ++ be 3 tag
  /\ -128 <= mtype <= 127 /\ -2147483648 <= 4 + dl < 2147483648.
Proof.
  unfold build_header. intros H. inv_obind H as a Ea. inv_obind H as b Eb. inversion H; subst; clear H.
  apply pack_s_some in Ea as [-> R1]. apply pack_s_some in Eb as [-> R2].
  rewrite enc_tag_be, be1. replace (1 + 3 + dl) with (4 + dl) by lia.
  change (pow256 4 / 2) with 2147483648 in R1. change (pow256 1 / 2) with 128 in R2.
  repeat split; lia.
Qed.

Lemma frame_some mtype tag body f :
  frame mtype tag body = Some f ->
  f = be 4 (4 + len body) ++ [mtype mod 256] ++ be 3 tag ++ body
  /\ -128 <= mtype <= 127 /\ 4 + len body < 2147483648.
Proof.
  unfold frame. intros H. inv_obind H as h Eh. inversion H; subst; clear H.
  apply build_header_some in Eh as (-> & R1 & R2).
  rewrite <- !app_assoc. cbn [app]. repeat split; lia.
Qed.

Lemma frame_length_prefix mtype tag body f :
  frame mtype tag body = Some f -> unbe (firstn 4 f) = len (skipn 4 f) /\ len (skipn 4 f) = 4 + len body.
Proof.
  intros H. apply frame_some in H as (-> & R1 & R2).
  pose proof (len_nonneg body).
  rewrite (firstn_app_exact (be 4 (4 + len body))) by (now rewrite be_length).
  rewrite (skipn_app_exact (be 4 (4 + len body))) by (now rewrite be_length).
  rewrite unbe_be by (change (pow256 4) with 4294967296; lia).
  unfold len in *. cbn [app length]. rewrite app_length, be_length. lia.
Qed.

(* reading back what the writer wrote, for every type and tag (arithmetic, not enumeration) *)
Lemma read_header_build tag mtype dl h rest :
  build_header tag mtype dl = Some h -> 0 <= tag < 16777216 ->
  read_header (skipn 4 h ++ rest) = Some (mtype, tag, rest).
Proof.
  intros H Ht. apply build_header_some in H as (-> & R1 & R2).
  rewrite (skipn_app_exact (be 4 (4 + dl))) by (now rewrite be_length). cbn [app].
  unfold read_header.
  change (mtype mod 256 :: be 3 tag ++ rest) with (([mtype mod 256] ++ be 3 tag) ++ rest).
  rewrite (read_n_app ([mtype mod 256] ++ be 3 tag) rest 4)
    by (rewrite len_app, len_be; reflexivity).
  cbn [obind].
  assert (U : unbe ([mtype mod 256] ++ be 3 tag) = (mtype mod 256) * 16777216 + tag).
  { cbn [be app]. unfold unbe. cbn [fold_left]. lia. }
  unfold unpack_s. rewrite U. change (pow256 4 / 2) with 2147483648. change (pow256 4) with 4294967296.
  rewrite !Z.shiftr_div_pow2, Z.shiftl_mul_pow2 by lia.
  change 4294967295 with (Z.ones 32). rewrite Z.land_ones by lia.
  change (2^24) with 16777216. change (2^8) with 256. change (2^32) with 4294967296.
  destruct (Z.ltb_spec ((mtype mod 256) * 16777216 + tag) 2147483648) as [C|C].
  - assert (mtype mod 256 = mtype) by lia.
    repeat f_equal; lia.
  - assert (mtype mod 256 = mtype + 256) by lia.
    repeat f_equal; lia.
Qed.

(* ---- independent decoder against the writer --------------------------------------------------- *)
Lemma parse_u_be k n rest :
  0 <= n < pow256 k -> parse_u (Z.of_nat k) (be k n ++ rest) = Some (n, rest).
Proof.
  intros H. unfold parse_u. rewrite (read_n_app (be k n) rest) by (now rewrite len_be).
  cbn [obind]. now rewrite unbe_be.
Qed.

Lemma write_lenpref_some bs w : write_lenpref bs = Some w -> w = be 2 (len bs) ++ bs /\ len bs < 32768.
Proof.
  unfold write_lenpref. intros H. inv_obind H as h Eh. inversion H; subst. apply pack_s_some in Eh as [-> R].
  change (pow256 2 / 2) with 32768 in R. split; [reflexivity|lia].
Qed.

Lemma parse_lp_lenpref bs rest : len bs < 32768 -> parse_lp (be 2 (len bs) ++ bs ++ rest) = Some (bs, rest).
Proof.
  intros H. unfold parse_lp. pose proof (len_nonneg bs).
  rewrite (parse_u_be 2 (len bs)) by (change (pow256 2) with 65536; lia). cbn [obind].
  now apply read_n_app.
Qed.

Lemma len_lt_of_nat (l : bytes) : len l = Z.of_nat (length l). Proof. reflexivity. Qed.

(* one entry written by the code is one (key, value) pair for the decoder *)
Lemma write_entry_spec kv w :
  write_entry kv = Some w ->
  exists kb vb, utf8 (fst kv) = Some kb /\ enc_val (snd kv) = Some vb /\
    len kb < 32768 /\ len vb < 32768 /\
    w = be 2 (len kb) ++ kb ++ be 2 (len vb) ++ vb.
Proof.
  unfold write_entry. intros H. inv_obind H as kb Ekb. inv_obind H as kw Ekw.
  apply write_lenpref_some in Ekw as [-> Lk].
  destruct (snd kv) as [t|ts timeout|] eqn:V.
  - inv_obind H as vb Evb. inv_obind H as vw Evw. inversion H; subst; clear H.
    apply write_lenpref_some in Evw as [-> Lv].
    exists kb, vb. cbn [enc_val]. repeat split; try assumption; now rewrite <- !app_assoc.
  - inv_obind H as h16 E16. inv_obind H as a Ea. inv_obind H as b Eb. inversion H; subst; clear H.
    apply pack_s_some in E16 as [-> _].
    pose proof Ea as Ea'. pose proof Eb as Eb'.
    apply pack_s_some in Ea as [-> _]. apply pack_s_some in Eb as [-> _].
    exists kb, (be 8 ts ++ be 8 timeout). cbn [enc_val]. rewrite Ea', Eb'. cbn [obind].
    assert (L16 : len (be 8 ts ++ be 8 timeout) = 16) by (rewrite len_app, !len_be; reflexivity).
    rewrite L16. repeat split; try assumption; try lia; now rewrite <- !app_assoc.
  - discriminate.
Qed.

Lemma write_entries_parse ctx : forall w rest,
  write_entries ctx = Some w ->
  exists ps, enc_ctx ctx = Some ps /\ parse_pairs (length ctx) (w ++ rest) = Some (ps, rest).
Proof.
  induction ctx as [|kv ctx IH]; intros w rest H.
  - cbn in H. inversion H; subst. exists []. split; reflexivity.
  - cbn [write_entries] in H. inv_obind H as w1 E1. inv_obind H as w2 E2. inversion H; subst; clear H.
    apply write_entry_spec in E1 as (kb & vb & Ek & Ev & Lk & Lv & ->).
    destruct (IH w2 rest E2) as (ps & Eps & Pps).
    exists ((kb, vb) :: ps). split.
    + destruct kv as [k v]. cbn [enc_ctx fst snd] in *. rewrite Ek, Ev, Eps. reflexivity.
    + cbn [length parse_pairs]. rewrite <- !app_assoc.
      rewrite parse_lp_lenpref by assumption. cbn [obind].
      rewrite parse_lp_lenpref by assumption. cbn [obind].
      rewrite Pps. reflexivity.
Qed.

Lemma marshal_tdispatch_parse props headers payload body :
  marshal_tdispatch props headers payload = Some body ->
  exists ps, enc_ctx (dict_update (public props) headers) = Some ps /\
    parse_tdispatch body = Some {| td_ctx := ps; td_dst := []; td_dtab := []; td_payload := payload |}.
Proof.
  unfold marshal_tdispatch. intros H. inv_obind H as c Ec. inversion H; subst; clear H.
  unfold write_context in Ec. inv_obind Ec as n En. inv_obind Ec as es Ees. inversion Ec; subst; clear Ec.
  set (ctx := dict_update (public props) headers) in *.
  apply pack_s_some in En as [-> R]. change (pow256 2 / 2) with 32768 in R.
  destruct (write_entries_parse ctx es ([0; 0; 0; 0] ++ payload) Ees) as (ps & Eps & Pps).
  exists ps. split; [assumption|].
  unfold parse_tdispatch. rewrite <- !app_assoc.
  rewrite (parse_u_be 2) by (change (pow256 2) with 65536; lia). cbn [obind].
  rewrite Nat2Z.id. cbn [app] in Pps |- *. rewrite Pps. cbn [obind].
  change (0 :: 0 :: 0 :: 0 :: payload) with (be 2 (len (@nil Z)) ++ [] ++ (be 2 0 ++ payload)).
  rewrite parse_lp_lenpref by (cbn; lia). cbn [obind].
  rewrite (parse_u_be 2 0) by (cbn; lia). cbn [obind].
  reflexivity.
Qed.

Lemma parse_u1 b rest : parse_u 1 (b :: rest) = Some (b, rest).
Proof. unfold parse_u, read_n, len. cbn [length]. replace ((0 <=? 1) && (1 <=? Z.of_nat (S (length rest)))) with true by lia.
  cbn. unfold unbe. cbn. f_equal. Qed.

Lemma signed8_mod t : -128 <= t <= 127 -> signed8 (t mod 256) = t.
Proof. intros H. unfold signed8. destruct (Z.ltb_spec (t mod 256) 128); lia. Qed.

Lemma parse_frame_frame mtype tag body f :
  frame mtype tag body = Some f -> 0 <= tag < 16777216 -> parse_frame f = Some (mtype, tag, body).
Proof.
  intros H Ht. apply frame_some in H as (-> & R1 & R2). pose proof (len_nonneg body).
  unfold parse_frame.
  rewrite (parse_u_be 4) by (change (pow256 4) with 4294967296; lia). cbn [obind].
  assert (L : len ([mtype mod 256] ++ be 3 tag ++ body) = 4 + len body).
  { rewrite !len_app, len_be. unfold len at 1. cbn [length]. lia. }
  rewrite L, Z.eqb_refl. cbn [negb app].
  rewrite parse_u1. cbn [obind].
  rewrite (parse_u_be 3) by (change (pow256 3) with 16777216; lia). cbn [obind].
  now rewrite signed8_mod.
Qed.

(* ---- reply prefix ----------------------------------------------------------------------------- *)
Lemma read_ctx_half_ref k rest : len k < 32768 -> read_ctx_half (be 2 (len k) ++ k ++ rest) = Some rest.
Proof.
  intros H. pose proof (len_nonneg k). unfold read_ctx_half.
  rewrite (read_n_app (be 2 (len k))) by (now rewrite len_be). cbn [obind].
  rewrite unpack_s_be by (change (pow256 2 / 2) with 32768; lia).
  unfold py_read. destruct (Z.ltb_spec (len k) 0); [lia|]. cbn [snd].
  now rewrite drop_app_exact.
Qed.

Definition pairs_small (ps : list (bytes * bytes)) : Prop :=
  Forall (fun kv => len (fst kv) < 32768 /\ len (snd kv) < 32768) ps.

Lemma read_contexts_ref ps : forall rest, pairs_small ps ->
  read_contexts (length ps) (ref_pairs ps ++ rest) = Some rest.
Proof.
  induction ps as [|[k v] ps IH]; intros rest H; [reflexivity|].
  inversion H as [|? ? [Hk Hv] Hps]; subst. cbn [fst snd] in *.
  cbn [length read_contexts ref_pairs]. unfold read_context. rewrite <- !app_assoc.
  rewrite read_ctx_half_ref by assumption. cbn [obind].
  rewrite read_ctx_half_ref by assumption. cbn [obind].
  now apply IH.
Qed.

Lemma unmarshal_rdispatch_ref status ps rest :
  -128 <= status <= 127 -> Z.of_nat (length ps) < 32768 -> pairs_small ps ->
  unmarshal_rdispatch_prefix (ref_rdispatch status ps rest) = Some (status, rest).
Proof.
  intros Hs Hn Hp. unfold unmarshal_rdispatch_prefix, ref_rdispatch.
  rewrite app_assoc.
  rewrite (read_n_app (be 1 status ++ be 2 (Z.of_nat (length ps))))
    by (rewrite len_app, !len_be; reflexivity).
  cbn [obind].
  replace (take 1 (be 1 status ++ be 2 (Z.of_nat (length ps)))) with (be 1 status)
    by (symmetry; apply (take_app_exact (be 1 status))).
  replace (drop 1 (be 1 status ++ be 2 (Z.of_nat (length ps)))) with (be 2 (Z.of_nat (length ps)))
    by (symmetry; apply (drop_app_exact (be 1 status))).
  rewrite !unpack_s_be; try lia;
    try (change (pow256 2 / 2) with 32768; lia); try (change (pow256 1 / 2) with 128; lia).
  rewrite Nat2Z.id, read_contexts_ref by assumption. reflexivity.
Qed.

(* ---- UTF-8: byte length is at least the character count --------------------------------------- *)
Lemma utf8_cp_len c b : utf8_cp c = Some b -> (1 <= length b)%nat.
Proof.
  unfold utf8_cp. repeat (match goal with |- context [if ?c then _ else _] => destruct c end);
    intros H; inversion H; cbn; lia.
Qed.

Lemma utf8_len_ge t : forall b, utf8 t = Some b -> (length t <= length b)%nat.
Proof.
  induction t as [|c t IH]; intros b H; cbn in *.
  - inversion H. cbn. lia.
  - inv_obind H as a Ea. inv_obind H as r Er. inversion H; subst. apply utf8_cp_len in Ea. apply IH in Er.
    rewrite app_length. lia.
Qed.

Lemma utf8_cp_two c b : utf8_cp c = Some b -> 128 <= c -> (2 <= length b)%nat.
Proof.
  unfold utf8_cp. intros H Hc.
  destruct (Z.ltb_spec c 0); [discriminate|]. destruct (Z.ltb_spec c 128); [lia|].
  repeat (match type of H with context [if ?c then _ else _] => destruct c end);
    inversion H; cbn; lia.
Qed.

(* ---- the stream of a connection is self-delimiting ----------------------------------------------- *)
(* a buffer that starts with a 4-byte size equal to the number of bytes that follow *)
Definition well_framed (f : bytes) : Prop := exists sz r, parse_u 4 f = Some (sz, r) /\ sz = len r.

Lemma parse_frame_well_framed f x : parse_frame f = Some x -> well_framed f.
Proof.
  unfold parse_frame. intros H. destruct (parse_u 4 f) as [[sz r]|] eqn:E; cbn [obind] in H; [|discriminate].
  destruct (sz =? len r) eqn:Es; cbn [negb] in H; [|discriminate]. exists sz, r. split; auto. lia.
Qed.

Lemma well_framed_shape f : well_framed f -> exists h r, f = h ++ r /\ length h = 4%nat /\ unbe h = len r.
Proof.
  intros (sz & r & H & Hs). unfold parse_u, read_n in H.
  destruct ((0 <=? 4) && (4 <=? len f)) eqn:Eb; cbn [obind] in H; [|discriminate].
  inversion H; subst; clear H. exists (take 4 f), (drop 4 f). unfold take, drop.
  split; [now rewrite firstn_skipn|]. split; auto.
  rewrite firstn_length. unfold len in Eb. change (Z.to_nat 4) with 4%nat. lia.
Qed.

Lemma split_stream_cons f rest fuel : well_framed f ->
  split_stream (S fuel) (f ++ rest) = (f :: fst (split_stream fuel rest), snd (split_stream fuel rest)).
Proof.
  intros W. destruct (well_framed_shape f W) as (h & r & -> & Lh & Hu).
  assert (Hh : len h = 4) by (unfold len; lia).
  cbn [split_stream]. rewrite <- app_assoc. unfold parse_u.
  rewrite (read_n_app h (r ++ rest)) by lia. cbn [obind]. rewrite Hu.
  rewrite len_app. pose proof (len_nonneg rest).
  destruct (Z.ltb_spec (len r + len rest) (len r)) as [Hl|_]; [lia|].
  rewrite take_app_exact, drop_app_exact.
  replace (take 4 (h ++ r ++ rest)) with h by (symmetry; rewrite <- Hh; apply take_app_exact).
  destruct (split_stream fuel rest) as [fs rs]. reflexivity.
Qed.

Lemma well_framed_length f : well_framed f -> (4 <= length f)%nat.
Proof. intros W. destruct (well_framed_shape f W) as (h & r & -> & Lh & _). rewrite app_length. lia. Qed.

Lemma split_stream_nil fuel : split_stream fuel [] = ([], []).
Proof. destruct fuel; reflexivity. Qed.

Lemma split_stream_concat ws : Forall well_framed ws -> forall fuel, (length ws <= fuel)%nat ->
  split_stream fuel (concat ws) = (ws, []).
Proof.
  induction 1 as [|f ws W _ IH]; intros fuel Hf; cbn [concat].
  - apply split_stream_nil.
  - destruct fuel as [|fuel]; [cbn in Hf; lia|]. rewrite split_stream_cons by assumption.
    rewrite IH by (cbn in Hf; lia). reflexivity.
Qed.

Lemma concat_length_ge ws : Forall well_framed ws -> (length ws <= length (concat ws))%nat.
Proof.
  induction 1 as [|f ws W _ IH]; cbn [concat length]; [lia|]. rewrite app_length.
  pose proof (well_framed_length f W). lia.
Qed.

(* a strict prefix of a well-framed buffer is left unread *)
Lemma split_stream_partial f p q fuel : well_framed f -> f = p ++ q -> q <> [] -> split_stream fuel p = ([], p).
Proof.
  intros W E Q. destruct fuel as [|fuel]; [reflexivity|]. cbn [split_stream].
  destruct (well_framed_shape f W) as (h & r & E2 & Lh & Hu).
  unfold parse_u, read_n. destruct ((0 <=? 4) && (4 <=? len p)) eqn:Eb; cbn [obind]; [|reflexivity].
  assert (Lp : (4 <= length p)%nat) by (unfold len in Eb; lia).
  assert (Eh : take 4 p = h).
  { unfold take. change (Z.to_nat 4) with 4%nat.
    assert (firstn 4 f = h) by (rewrite E2; apply firstn_app_exact; lia).
    rewrite E in H. rewrite firstn_app in H. replace (4 - length p)%nat with 0%nat in H by lia.
    cbn [firstn] in H. now rewrite app_nil_r in H. }
  rewrite Eh, Hu.
  assert (Lr : len (drop 4 p) < len r).
  { unfold drop, len. change (Z.to_nat 4) with 4%nat. rewrite skipn_length.
    assert (length f = length p + length q)%nat by (rewrite E; apply app_length).
    assert (length f = 4 + length r)%nat by (rewrite E2, app_length; lia).
    destruct q as [|x q]; [congruence|]. cbn [length] in H. lia. }
  destruct (Z.ltb_spec (len (drop 4 p)) (len r)); [reflexivity|lia].
Qed.

Lemma split_stream_concat_partial ws f p q : Forall well_framed ws -> well_framed f -> f = p ++ q -> q <> [] ->
  forall fuel, (length ws <= fuel)%nat -> split_stream fuel (concat ws ++ p) = (ws, p).
Proof.
  intros Hw W E Q. induction Hw as [|g ws Wg _ IH]; intros fuel Hf; cbn [concat app].
  - apply (split_stream_partial f p q fuel W E Q).
  - destruct fuel as [|fuel]; [cbn in Hf; lia|]. rewrite <- app_assoc, split_stream_cons by assumption.
    rewrite IH by (cbn in Hf; lia). reflexivity.
Qed.
