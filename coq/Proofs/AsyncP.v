(* Proofs for the async-combinator model (C17). *)
From Scales Require Import Model.Base.
From Scales Require Import Model.Async.
Local Open Scope nat_scope.

(* ---- small list facts -------------------------------------------------------------------------- *)
Lemma NoDup_app_disjoint {A} (a b : list A) : NoDup (a ++ b) -> forall x, In x a -> ~ In x b.
Proof.
  induction a as [|y a IH]; cbn; intros H x Hx; [contradiction|].
  inversion H as [|? ? Hn Hr]; subst. destruct Hx as [->|Hx].
  - intros Hb. apply Hn. apply in_or_app. now right.
  - now apply IH.
Qed.

Lemma NoDup_app_intro {A} (a b : list A) :
  NoDup a -> NoDup b -> (forall x, In x a -> ~ In x b) -> NoDup (a ++ b).
Proof.
  induction a as [|y a IH]; cbn; intros Ha Hb Hd; [assumption|].
  inversion Ha as [|? ? Hn Hr]; subst. constructor.
  - intros Hin. apply in_app_or in Hin as [Hin|Hin]; [now apply Hn|]. now apply (Hd y); [left|].
  - apply IH; try assumption. intros x Hx. apply Hd. now right.
Qed.

Lemma NoDup_app_remove_r {A} (a b : list A) : NoDup (a ++ b) -> NoDup a.
Proof.
  induction a as [|y a IH]; cbn; intros H; [constructor|].
  inversion H as [|? ? Hn Hr]; subst. constructor; [|now apply IH].
  intros Hin. apply Hn, in_or_app. now left.
Qed.

Lemma NoDup_app_remove_l {A} (a b : list A) : NoDup (a ++ b) -> NoDup b.
Proof. induction a as [|y a IH]; cbn; intros H; [assumption|]. inversion H; subst. now apply IH. Qed.

Lemma NoDup_bounded_length (l : list nat) n : NoDup l -> (forall i, In i l -> i < n) -> length l <= n.
Proof.
  intros Hn Hb. rewrite <- (seq_length n 0). apply NoDup_incl_length; [assumption|].
  intros i Hi. apply in_seq. specialize (Hb i Hi). lia.
Qed.

Lemma NoDup_full (l : list nat) n :
  NoDup l -> (forall i, In i l -> i < n) -> length l = n -> forall i, i < n -> In i l.
Proof.
  intros Hn Hb Hl i Hi.
  assert (incl (seq 0 n) l) as Hinc.
  { apply NoDup_length_incl; [assumption| rewrite seq_length; lia|].
    intros j Hj. apply in_seq. specialize (Hb j Hj). lia. }
  apply Hinc. apply in_seq. lia.
Qed.

(* ---- cells ------------------------------------------------------------------------------------- *)
Lemma cready_cell_of {A} (o : outcome A) : cready (cell_of o) = true.
Proof. destruct o; reflexivity. Qed.

(* ---- assoc ------------------------------------------------------------------------------------- *)
Lemma assoc_in i l o : assoc i l = Some o -> In (i, o) l.
Proof.
  unfold assoc. destruct (find _ l) as [p|] eqn:E; [|discriminate]. intros H. inversion H; subst.
  apply find_some in E as [Hin Heq]. apply Nat.eqb_eq in Heq. destruct p as [j o']; cbn in *. now subst.
Qed.

Lemma assoc_none i l : assoc i l = None <-> ~ In i (map fst l).
Proof.
  unfold assoc. induction l as [|[j o] l IH]; cbn; [tauto|].
  destruct (Nat.eqb_spec j i) as [->|Hne]; cbn.
  - split; [discriminate|]. intros H. exfalso. apply H. now left.
  - rewrite IH. split; intros H; [intros [?|?]; [congruence|tauto] | tauto].
Qed.

Lemma assoc_nodup i o l : NoDup (map fst l) -> In (i, o) l -> assoc i l = Some o.
Proof.
  unfold assoc. induction l as [|[j o'] l IH]; cbn; intros Hn Hin; [contradiction|].
  inversion Hn as [|? ? Hnj Hr]; subst.
  destruct Hin as [E|Hin].
  - inversion E; subst. now rewrite Nat.eqb_refl.
  - destruct (Nat.eqb_spec j i) as [->|Hne]; cbn.
    + exfalso. apply Hnj. change i with (fst (i, o)). now apply in_map.
    + now apply IH.
Qed.

Lemma assoc_app i a b : assoc i (a ++ b) = match assoc i a with Some o => Some o | None => assoc i b end.
Proof.
  unfold assoc. induction a as [|[j o] a IH]; cbn; [reflexivity|].
  destruct (Nat.eqb j i); cbn; [reflexivity|exact IH].
Qed.

(* ---- the hub: delivery order (sched) ----------------------------------------------------------- *)
Lemma sched_prefix : forall evs q, exists rest, q ++ completions evs = sched q evs ++ rest.
Proof.
  induction evs as [|[i o|] r IH]; intros q; cbn.
  - exists q. now rewrite app_nil_r.
  - destruct (IH (q ++ [(i, o)])) as [rest E]. exists rest. rewrite <- E, <- app_assoc. reflexivity.
  - destruct (IH []) as [rest E]. exists rest. cbn in E. rewrite <- app_assoc, <- E. reflexivity.
Qed.

Lemma sched_flush : forall evs q, sched q (evs ++ [Run]) = q ++ completions evs.
Proof.
  induction evs as [|[i o|] r IH]; intros q; cbn.
  - reflexivity.
  - rewrite IH, <- app_assoc. reflexivity.
  - rewrite IH. reflexivity.
Qed.

Lemma sched_app : forall evs evs' q, exists q', sched q (evs ++ evs') = sched q evs ++ sched q' evs'.
Proof.
  induction evs as [|[i o|] r IH]; intros evs' q; cbn.
  - exists q. reflexivity.
  - apply IH.
  - destruct (IH evs' []) as [q' E]. exists q'. rewrite E, app_assoc. reflexivity.
Qed.

Lemma completions_app a b : completions (a ++ b) = completions a ++ completions b.
Proof. induction a as [|[i o|] a IH]; cbn; [reflexivity| now rewrite IH | exact IH]. Qed.

(* ---- pre_order ---------------------------------------------------------------------------------- *)
Definition pre_item (pre : list (nat * outcome Z)) (i : nat) : list (nat * outcome Z) :=
  match assoc i pre with Some o => [(i, o)] | None => [] end.

Lemma pre_order_in n pre i o : In (i, o) (pre_order n pre) <-> i < n /\ assoc i pre = Some o.
Proof.
  unfold pre_order. rewrite in_flat_map. split.
  - intros (j & Hj & Hin). apply in_seq in Hj. destruct (assoc j pre) as [o'|] eqn:E; cbn in Hin; [|contradiction].
    destruct Hin as [Hin|[]]. inversion Hin; subst. split; [lia|assumption].
  - intros [Hi E]. exists i. split; [apply in_seq; lia|]. rewrite E. now left.
Qed.

Lemma pre_order_fst_filter pre : forall l,
  map fst (flat_map (fun i => match assoc i pre with Some o => [(i, o)] | None => [] end) l)
  = filter (fun i => match assoc i pre with Some _ => true | None => false end) l.
Proof.
  induction l as [|i l IH]; cbn; [reflexivity|]. rewrite map_app, IH.
  destruct (assoc i pre); reflexivity.
Qed.

Lemma pre_order_nodup n pre : NoDup (map fst (pre_order n pre)).
Proof. unfold pre_order. rewrite pre_order_fst_filter. apply NoDup_filter, seq_NoDup. Qed.

Lemma pre_order_fst_in n pre i : In i (map fst (pre_order n pre)) -> In i (map fst pre) /\ i < n.
Proof.
  intros H. apply in_map_iff in H as ([j o] & E & Hin). cbn in E; subst j.
  apply pre_order_in in Hin as [Hi Ha]. split; [|assumption].
  apply assoc_in in Ha. change i with (fst (i, o)). now apply in_map.
Qed.

(* what wf gives about everything that completes *)
Lemma wf_known n pre evs : wf n pre evs ->
  NoDup (map fst (pre_order n pre ++ completions evs)) /\
  (forall i, In i (map fst (pre_order n pre ++ completions evs)) -> i < n).
Proof.
  intros [Hn Hb]. rewrite map_app. split.
  - apply NoDup_app_intro.
    + apply pre_order_nodup.
    + now apply NoDup_app_remove_l in Hn.
    + intros i Hi. apply pre_order_fst_in in Hi as [Hi _]. now apply (NoDup_app_disjoint _ _ Hn).
  - intros i Hi. apply Hb. apply in_app_or in Hi as [Hi|Hi]; apply in_or_app.
    + left. now apply pre_order_fst_in in Hi.
    + now right.
Qed.

Lemma wf_delivered n pre evs : wf n pre evs ->
  NoDup (map fst (delivered n pre evs)) /\ (forall i, In i (map fst (delivered n pre evs)) -> i < n).
Proof.
  intros H. apply wf_known in H as [Hn Hb]. unfold delivered.
  destruct (sched_prefix evs (pre_order n pre)) as [rest E]. rewrite E, map_app in Hn, Hb. split.
  - now apply NoDup_app_remove_r in Hn.
  - intros i Hi. apply Hb, in_or_app. now left.
Qed.

Lemma delivered_known n pre evs i o :
  In (i, o) (delivered n pre evs) -> In (i, o) (pre_order n pre ++ completions evs).
Proof.
  unfold delivered. destruct (sched_prefix evs (pre_order n pre)) as [rest E]. rewrite E.
  intros H. apply in_or_app. now left.
Qed.

(* ---- the machine delivers exactly `sched` -------------------------------------------------------- *)
Section SchedProofs.
  Context {S : Type}.
  Variable cb : S -> nat -> cell Z -> S.
  Variable lid : nat -> nat.          (* the id of the link registered for position i *)

  Definition cbf (s : S) (p : nat * outcome Z) : S := cb s (lid (fst p)) (cell_of (snd p)).

  Fixpoint wf_evs (n : nat) (used : list nat) (evs : list ev) : Prop :=
    match evs with
    | [] => True
    | Complete i _ :: r => i < n /\ ~ In i used /\ wf_evs n (i :: used) r
    | Run :: r => wf_evs n used r
    end.

  (* n distinct inputs: input i carries exactly one link, with id lid i, until it is notified *)
  Record Inv (n : nat) (used : list nat) (q : list (nat * outcome Z)) (m : mach S) : Prop := {
    inv_queue : queue m = map fst q;
    inv_nodup : NoDup (map fst q);
    inv_queued : forall i o, In (i, o) q -> ins m i = mkP (cell_of o) [lid i] true;
    inv_fresh : forall i, i < n -> ~ In i used -> ins m i = mkP cempty [lid i] false;
    inv_used : forall i, In i (map fst q) -> In i used
  }.

  Lemma upd_same f i x : upd f i x i = x.
  Proof. unfold upd. now rewrite Nat.eqb_refl. Qed.
  Lemma upd_other f i x j : j <> i -> upd f i x j = f j.
  Proof. unfold upd. intros H. destruct (Nat.eqb_spec j i); [contradiction|reflexivity]. Qed.

  Lemma complete_inv n used q m i o : Inv n used q m -> i < n -> ~ In i used ->
    Inv n (i :: used) (q ++ [(i, o)]) (complete m i o) /\ comb (complete m i o) = comb m.
  Proof.
    intros [Hq Hn Hqd Hf Hu] Hi Hnu. unfold complete. rewrite (Hf i Hi Hnu). cbn.
    split; [|reflexivity]. constructor; cbn.
    - rewrite Hq, map_app. reflexivity.
    - rewrite map_app. cbn. apply NoDup_app_intro; [assumption|repeat constructor; intros []|].
      intros j Hj [<-|[]]. now apply Hnu, Hu.
    - intros j o' Hin. apply in_app_or in Hin as [Hin|[E|[]]].
      + assert (j <> i) as Hne. { intros ->. apply Hnu, Hu. change i with (fst (i, o')). now apply in_map. }
        rewrite upd_other by assumption. now apply Hqd.
      + inversion E; subst. now rewrite upd_same.
    - intros j Hj Hnj. rewrite upd_other by (intros ->; apply Hnj; now left).
      apply Hf; [assumption|]. intros H. apply Hnj. now right.
    - intros j Hj. rewrite map_app in Hj. apply in_app_or in Hj as [Hj|[<-|[]]]; [right; now apply Hu|now left].
  Qed.

  (* one link: it is called, nothing is left, the notifier is not scheduled again *)
  Lemma notify_single (m : mach S) i c k : ins m i = mkP c [k] true ->
    notify cb m i = mkMach (upd (ins m) i (mkP c [] false)) (queue m) (cb (comb m) k c).
  Proof. intros H. unfold notify. rewrite H. cbn. rewrite Nat.eqb_refl. reflexivity. Qed.

  Lemma drain_nil fuel (m : mach S) : queue m = [] -> drain cb fuel m = m.
  Proof. intros H. destruct fuel; cbn; [reflexivity|now rewrite H]. Qed.

  Lemma drain_queue : forall q (m : mach S) fuel, length q <= fuel -> queue m = map fst q -> NoDup (map fst q) ->
    (forall i o, In (i, o) q -> ins m i = mkP (cell_of o) [lid i] true) ->
    let m' := drain cb fuel m in
    comb m' = fold_left cbf q (comb m) /\ queue m' = [] /\
    (forall j, ~ In j (map fst q) -> ins m' j = ins m j).
  Proof.
    induction q as [|[i o] q IH]; intros m fuel Hf Hqm Hn Hq; cbn in Hqm |- *.
    - rewrite (drain_nil fuel m Hqm). repeat split; assumption.
    - destruct fuel as [|fuel]; [cbn in Hf; lia|]. cbn [drain]. rewrite Hqm.
      inversion Hn as [|? ? Hni Hr]; subst.
      rewrite (notify_single _ i (cell_of o) (lid i)) by (cbn; apply Hq; now left). cbn [ins queue comb].
      match goal with |- context [drain cb fuel ?m1] => specialize (IH m1 fuel) end.
      destruct IH as (Hc & Hqu & Hins); cbn [ins queue comb]; try assumption; [cbn in Hf; lia|reflexivity| |].
      + intros j o' Hin. rewrite upd_other. * apply Hq. now right.
        * intros ->. apply Hni. change i with (fst (i, o')). now apply in_map.
      + split; [|split].
        * rewrite Hc. reflexivity.
        * exact Hqu.
        * intros j Hj. rewrite Hins by tauto. apply upd_other. intros ->. tauto.
  Qed.

  Lemma run_inv n N used q m : Inv n used q m ->
    Inv n used [] (run cb N m) /\ comb (run cb N m) = fold_left cbf q (comb m).
  Proof.
    intros [Hq Hn Hqd Hf Hu]. unfold run.
    destruct (drain_queue q m (length (queue m) + N)) as (Hc & Hqu & Hins); try assumption.
    { rewrite Hq, map_length. lia. }
    split; [|exact Hc]. constructor.
    - exact Hqu.
    - constructor.
    - intros ? ? [].
    - intros i Hi Hnu. rewrite Hins; [now apply Hf|]. intros H. now apply Hnu, Hu.
    - intros ? [].
  Qed.

  Lemma events_comb n N : forall evs used q m, Inv n used q m -> wf_evs n used evs ->
    comb (fold_left (step cb N) evs m) = fold_left cbf (sched q evs) (comb m).
  Proof.
    induction evs as [|[i o|] r IH]; intros used q m HI Hw; cbn.
    - reflexivity.
    - destruct Hw as (Hi & Hnu & Hw). destruct (complete_inv _ _ _ _ i o HI Hi Hnu) as [HI' Hc].
      rewrite (IH _ _ _ HI' Hw), Hc. reflexivity.
    - destruct (run_inv _ N _ _ _ HI) as [HI' Hc].
      rewrite (IH _ _ _ HI' Hw), Hc, fold_left_app. reflexivity.
  Qed.

  (* state at call time *)
  Lemma precomplete_spec (s : S) : forall pre, NoDup (map fst pre) ->
    let m := precomplete s pre in
    queue m = [] /\ comb m = s /\
    forall i, ins m i = mkP (match assoc i pre with Some o => cell_of o | None => cempty end) [] false.
  Proof.
    unfold precomplete. induction pre as [|[i o] pre IH] using rev_ind; intros Hn; cbn.
    - repeat split; reflexivity.
    - rewrite map_app in Hn. cbn in Hn. rewrite fold_left_app. cbn.
      pose proof (NoDup_app_remove_r _ _ Hn) as Hn'.
      destruct (IH Hn') as (Hq & Hc & Hins). set (m := fold_left _ pre _) in *.
      assert (assoc i pre = None) as Hai.
      { apply assoc_none. intros H. apply (NoDup_app_disjoint _ _ Hn i H). now left. }
      unfold complete. rewrite (Hins i), Hai. cbn. repeat split; try assumption.
      intros j. rewrite assoc_app. unfold upd. destruct (Nat.eqb_spec j i) as [->|Hne].
      + rewrite Hai. unfold assoc; cbn. rewrite Nat.eqb_refl. reflexivity.
      + rewrite Hins. destruct (assoc j pre); [reflexivity|].
        unfold assoc; cbn. destruct (Nat.eqb_spec i j); [congruence|reflexivity].
  Qed.

  Lemma link_from_spec f : forall n (m : mach S), (forall pos, pos < n -> f pos = pos) -> queue m = [] ->
    (forall i, plinks (ins m i) = [] /\ ppend (ins m i) = false) ->
    let m' := link_from f lid n m in
    comb m' = comb m /\ queue m' = filter (fun i => cready (pcell (ins m i))) (seq 0 n) /\
    (forall i, i < n -> ins m' i = mkP (pcell (ins m i)) [lid i] (cready (pcell (ins m i)))) /\
    (forall i, n <= i -> ins m' i = ins m i).
  Proof.
    unfold link_from. induction n as [|n IH]; intros m Hfn Hq Hfl; cbn -[seq].
    - cbn. repeat split; try assumption; try reflexivity. intros; lia.
    - rewrite seq_S, fold_left_app, filter_app. cbn.
      destruct (IH m (fun pos Hp => Hfn pos (Nat.lt_lt_succ_r _ _ Hp)) Hq Hfl) as (Hc & Hqu & Hlt & Hge).
      set (m1 := fold_left _ (seq 0 n) m) in *.
      rewrite (Hfn n) by lia.
      unfold rawlink. cbv zeta. rewrite (Hge n) by lia. destruct (Hfl n) as [Hl Hp]. rewrite Hp, Hl. cbn.
      destruct (cready (pcell (ins m n))) eqn:Er; cbn.
      + repeat split; try assumption.
        * now rewrite Hqu.
        * intros i Hi. unfold upd. destruct (Nat.eqb_spec i n) as [->|Hne].
          -- rewrite Er. reflexivity.
          -- apply Hlt. lia.
        * intros i Hi. rewrite upd_other by lia. apply Hge. lia.
      + repeat split; try assumption.
        * now rewrite Hqu, app_nil_r.
        * intros i Hi. unfold upd. destruct (Nat.eqb_spec i n) as [->|Hne].
          -- rewrite Er. reflexivity.
          -- apply Hlt. lia.
        * intros i Hi. rewrite upd_other by lia. apply Hge. lia.
  Qed.

  Lemma call_inv n pre (s : S) : NoDup (map fst pre) ->
    let m := link_all lid (seq 0 n) (precomplete s pre) in
    Inv n (map fst pre) (pre_order n pre) m /\ comb m = s.
  Proof.
    intros Hn. destruct (precomplete_spec s pre Hn) as (Hq & Hc & Hins).
    set (m0 := precomplete s pre) in *.
    assert (forall i, plinks (ins m0 i) = [] /\ ppend (ins m0 i) = false) as Hfl.
    { intros i. rewrite Hins. split; reflexivity. }
    unfold link_all. rewrite seq_length.
    destruct (link_from_spec (fun pos => nth pos (seq 0 n) 0) n m0) as (Hc' & Hq' & Hlt & _); try assumption.
    { intros pos Hp. now rewrite seq_nth. }
    cbn. split; [|congruence]. constructor.
    - rewrite Hq'. unfold pre_order. rewrite pre_order_fst_filter. apply filter_ext.
      intros i. rewrite Hins. cbn. destruct (assoc i pre); [apply cready_cell_of|reflexivity].
    - apply pre_order_nodup.
    - intros i o Hin. apply pre_order_in in Hin as [Hi Ha]. rewrite (Hlt i Hi), Hins, Ha. cbn.
      now rewrite cready_cell_of.
    - intros i Hi Hnu. rewrite (Hlt i Hi), Hins. apply assoc_none in Hnu. rewrite Hnu. reflexivity.
    - intros i Hi. now apply pre_order_fst_in in Hi.
  Qed.

  Lemma wf_wf_evs n : forall evs used,
    NoDup (used ++ map fst (completions evs)) ->
    (forall i, In i (map fst (completions evs)) -> i < n) -> wf_evs n used evs.
  Proof.
    induction evs as [|[i o|] r IH]; intros used Hn Hb; cbn in *.
    - exact I.
    - split; [apply Hb; now left|]. split.
      + intros Hin. apply (NoDup_app_disjoint _ _ Hn i Hin). now left.
      + apply IH.
        * apply NoDup_app_intro.
          -- constructor. ++ intros Hin. apply (NoDup_app_disjoint _ _ Hn i Hin). now left.
             ++ now apply NoDup_app_remove_r in Hn.
          -- apply NoDup_app_remove_l in Hn. now inversion Hn.
          -- intros x [<-|Hx] Hin.
             ++ apply NoDup_app_remove_l in Hn. now inversion Hn.
             ++ apply (NoDup_app_disjoint _ _ Hn x Hx). now right.
        * intros j Hj. apply Hb. now right.
    - now apply IH.
  Qed.

  (* the combinator's state after any well-formed history is its callback folded over the deliveries *)
  Theorem machine_delivers n N pre evs (s : S) : wf n pre evs ->
    comb (fold_left (step cb N) evs (link_all lid (seq 0 n) (precomplete s pre))) = fold_left cbf (delivered n pre evs) s.
  Proof.
    intros [Hn Hb]. destruct (call_inv n pre s (NoDup_app_remove_r _ _ Hn)) as [HI Hc].
    unfold delivered. rewrite <- Hc at 2. apply (events_comb n N evs (map fst pre)); [exact HI|].
    apply (wf_wf_evs n); [assumption|]. intros i Hi. apply Hb, in_or_app. now right.
  Qed.
End SchedProofs.

(* ---- first success / last failure --------------------------------------------------------------- *)
Lemma last_err_snoc_err D i e : last_err (D ++ [(i, Err e)]) = Some e.
Proof. induction D as [|[j [v|e']] D IH]; cbn; [reflexivity|exact IH|now rewrite IH]. Qed.

Lemma last_err_snoc_ok D i v : last_err (D ++ [(i, Ok v)]) = last_err D.
Proof. induction D as [|[j [v'|e']] D IH]; cbn; [reflexivity|exact IH|now rewrite IH]. Qed.

Lemma last_err_none D : last_err D = None <-> all_ok D.
Proof.
  unfold all_ok. induction D as [|[j [v|e]] D IH]; cbn.
  - split; [intros _ ? ? []|reflexivity].
  - rewrite IH. split; intros H i e; [intros [E|Hin]; [discriminate|now apply (H i e)] | intros Hin; apply (H i e); now right].
  - split; [destruct (last_err D); discriminate|]. intros H. exfalso. apply (H j e). now left.
Qed.

Lemma last_err_in D e : last_err D = Some e -> exists i, In (i, Err e) D.
Proof.
  induction D as [|[j [v|e']] D IH]; cbn; [discriminate| |].
  - intros H. destruct (IH H) as [i Hi]. exists i. now right.
  - destruct (last_err D) as [e''|] eqn:E.
    + intros H. inversion H; subst. destruct (IH eq_refl) as [i Hi]. exists i. now right.
    + intros H. inversion H; subst. exists j. now left.
Qed.

Lemma first_ok_snoc_ok D i v : first_ok (D ++ [(i, Ok v)]) = match first_ok D with Some v' => Some v' | None => Some v end.
Proof. induction D as [|[j [v'|e']] D IH]; cbn; [reflexivity|reflexivity|exact IH]. Qed.

Lemma first_ok_snoc_err D i e : first_ok (D ++ [(i, Err e)]) = first_ok D.
Proof. induction D as [|[j [v'|e']] D IH]; cbn; [reflexivity|reflexivity|exact IH]. Qed.

Lemma first_ok_none D : first_ok D = None <-> all_err D.
Proof.
  unfold all_err. induction D as [|[j [v|e]] D IH]; cbn.
  - split; [intros _ ? ? []|reflexivity].
  - split; [discriminate|]. intros H. exfalso. apply (H j v). now left.
  - rewrite IH. split; intros H i v; [intros [E|Hin]; [discriminate|now apply (H i v)] | intros Hin; apply (H i v); now right].
Qed.

Lemma first_ok_in D v : first_ok D = Some v -> exists i, In (i, Ok v) D.
Proof.
  induction D as [|[j [v'|e']] D IH]; cbn; [discriminate| |].
  - intros H. inversion H; subst. exists j. now left.
  - intros H. destruct (IH H) as [i Hi]. exists i. now right.
Qed.

Lemma first_ok_app_some a b v : first_ok a = Some v -> first_ok (a ++ b) = Some v.
Proof. induction a as [|[j [v'|e']] a IH]; cbn; [discriminate|trivial|exact IH]. Qed.

Lemma first_ok_app_none a b : first_ok a = None -> first_ok (a ++ b) = first_ok b.
Proof. induction a as [|[j [v'|e']] a IH]; cbn; [trivial|discriminate|exact IH]. Qed.

(* ---- set_nth ------------------------------------------------------------------------------------ *)
Lemma set_nth_length {A} (x : A) : forall l i, length (set_nth i x l) = length l.
Proof. induction l as [|y l IH]; intros [|i]; cbn; try reflexivity. now rewrite IH. Qed.

Lemma nth_set_nth_same {A} (x d : A) : forall l i, i < length l -> nth i (set_nth i x l) d = x.
Proof. induction l as [|y l IH]; intros [|i] H; cbn in *; try lia; [reflexivity|apply IH; lia]. Qed.

Lemma nth_set_nth_other {A} (x d : A) : forall l i j, i <> j -> nth j (set_nth i x l) d = nth j l d.
Proof.
  induction l as [|y l IH]; intros [|i] [|j] H; cbn; try reflexivity; try lia. apply IH. lia.
Qed.

Lemma list_is_map_seq {A} (l : list A) (d : A) (f : nat -> A) n :
  length l = n -> (forall i, i < n -> nth i l d = f i) -> l = map f (seq 0 n).
Proof.
  intros Hl Hn. apply (nth_ext _ _ d (f 0)).
  - now rewrite map_length, seq_length.
  - intros i Hi. rewrite Hl in Hi. rewrite map_nth, seq_nth by assumption. now apply Hn.
Qed.

(* ---- value_of ----------------------------------------------------------------------------------- *)
Lemma value_of_snoc_other D i o j : j <> i -> value_of (D ++ [(i, o)]) j = value_of D j.
Proof.
  intros H. unfold value_of. rewrite assoc_app. destruct (assoc j D); [reflexivity|].
  unfold assoc; cbn. destruct (Nat.eqb_spec i j); [congruence|reflexivity].
Qed.

Lemma value_of_snoc_same D i o : ~ In i (map fst D) ->
  value_of (D ++ [(i, o)]) i = match o with Ok v => Some v | Err _ => None end.
Proof.
  intros H. unfold value_of. rewrite assoc_app. apply assoc_none in H. rewrite H.
  unfold assoc; cbn. now rewrite Nat.eqb_refl.
Qed.

Lemma value_of_in D i v : NoDup (map fst D) -> In (i, Ok v) D -> value_of D i = Some v.
Proof. intros Hn Hin. unfold value_of. now rewrite (assoc_nodup i (Ok v) D Hn Hin). Qed.

(* ---- WhenAll ------------------------------------------------------------------------------------ *)
Definition all_inv (n : nat) (D : list (nat * outcome Z)) (s : all_st) : Prop :=
  match last_err D with
  | Some e => a_ret s = mkCell None (Some e)
  | None =>
      a_total s = (Z.of_nat n - Z.of_nat (length D))%Z /\ length (a_results s) = n /\
      (forall i, i < n -> nth i (a_results s) None = value_of D i) /\
      a_ret s = if length D =? n then mkCell (Some (a_results s)) None else cempty
  end.

Lemma snoc_bounds (D : list (nat * outcome Z)) i o n :
  NoDup (map fst (D ++ [(i, o)])) -> (forall j, In j (map fst (D ++ [(i, o)])) -> j < n) ->
  NoDup (map fst D) /\ (forall j, In j (map fst D) -> j < n) /\ ~ In i (map fst D) /\ i < n /\ length D < n.
Proof.
  rewrite map_app. cbn. intros Hn Hb.
  assert (length (map fst D ++ [i]) <= n) as Hl by (apply NoDup_bounded_length; assumption).
  rewrite app_length, map_length in Hl. cbn in Hl.
  split; [now apply NoDup_app_remove_r in Hn|]. split; [intros j Hj; apply Hb, in_or_app; now left|].
  split; [intros H; apply (NoDup_app_disjoint _ _ Hn i H); now left|].
  split; [apply Hb, in_or_app; right; now left | lia].
Qed.

Lemma all_fold n : forall D, NoDup (map fst D) -> (forall i, In i (map fst D) -> i < n) ->
  all_inv n D (fold_left (cbf all_cb (fun pos => pos)) D (all_new n)).
Proof.
  induction D as [|[i o] D IH] using rev_ind; intros Hn Hb.
  - unfold all_inv; cbn. rewrite repeat_length. repeat split.
    + lia.
    + intros i Hi. unfold value_of; cbn. apply nth_repeat.
    + destruct n; reflexivity.
  - destruct (snoc_bounds _ _ _ _ Hn Hb) as (Hn' & Hb' & Hni & Hi & Hl).
    specialize (IH Hn' Hb'). rewrite fold_left_app. cbn. set (s := fold_left _ D _) in *.
    unfold all_inv in *. unfold cbf at 1. cbn [fst snd].
    destruct o as [v|e].
    + rewrite last_err_snoc_ok. destruct (last_err D) as [e'|].
      * unfold all_cb; cbn. rewrite IH. cbn. exact IH.
      * destruct IH as (Ht & Hlen & Hnth & Hret).
        destruct (Nat.eqb_spec (length D) n) as [?|_]; [lia|].
        unfold all_cb; cbn. rewrite Hret. cbn. rewrite app_length. cbn.
        repeat split.
        -- lia.
        -- now rewrite set_nth_length.
        -- intros j Hj. destruct (Nat.eq_dec j i) as [->|Hne].
           ++ rewrite nth_set_nth_same by lia. now rewrite value_of_snoc_same.
           ++ rewrite nth_set_nth_other by congruence. rewrite value_of_snoc_other by assumption. now apply Hnth.
        -- rewrite Ht. destruct (Z.eqb_spec (Z.of_nat n - Z.of_nat (length D) - 1) 0) as [E|E];
             destruct (Nat.eqb_spec (length D + 1) n) as [E'|E']; try lia; reflexivity.
    + rewrite last_err_snoc_err. unfold all_cb; cbn. destruct (last_err D) as [e'|].
      * now rewrite IH.
      * destruct IH as (_ & _ & _ & Hret). destruct (Nat.eqb_spec (length D) n) as [?|_]; [lia|]. now rewrite Hret.
Qed.

Lemma all_run_ret n pre evs : wf n pre evs ->
  all_inv n (delivered n pre evs) (comb (all_run n pre evs)).
Proof.
  intros H. unfold all_run, all_run_on, all_call_on. rewrite !seq_length.
  rewrite (machine_delivers all_cb (fun pos => pos) n n pre evs (all_new n) H).
  destruct (wf_delivered n pre evs H) as [Hn Hb]. now apply all_fold.
Qed.

Lemma all_results_full n D l :
  NoDup (map fst D) -> (forall i, In i (map fst D) -> i < n) -> length D = n -> all_ok D ->
  length l = n -> (forall i, i < n -> nth i l None = value_of D i) ->
  l = values_in_input_order n D /\ forall i, i < n -> exists v, In (i, Ok v) D /\ value_of D i = Some v.
Proof.
  intros Hn Hb Hl Hok Hlen Hnth. split.
  - unfold values_in_input_order. now apply (list_is_map_seq l None).
  - intros i Hi. assert (In i (map fst D)) as Hin.
    { apply (NoDup_full _ n); try assumption. now rewrite map_length. }
    apply in_map_iff in Hin as ([j [v|e]] & E & Hin); cbn in E; subst j.
    + exists v. split; [assumption|now apply value_of_in].
    + exfalso. now apply (Hok i e).
Qed.

(* ---- WhenAny ------------------------------------------------------------------------------------ *)
(* the result when no input had succeeded at call time, as a function of the deliveries *)
Definition any_spec_ret (n : nat) (D : list (nat * outcome Z)) : cell Z :=
  match first_ok D with
  | Some v => mkCell (Some v) None
  | None => if (0 <? length D) && (length D =? n) then mkCell None (last_err D) else cempty
  end.

Definition any_inv (n : nat) (D : list (nat * outcome Z)) (s : any_st) : Prop :=
  y_total s = (Z.of_nat n - Z.of_nat (length D))%Z /\ y_bad s = false /\ y_alias s = None /\
  y_ret s = any_spec_ret n D.

Lemma any_fold n : forall D, NoDup (map fst D) -> (forall i, In i (map fst D) -> i < n) ->
  any_inv n D (fold_left (cbf any_cb (fun _ => 0)) D (mkAny None (Z.of_nat n) cempty false)).
Proof.
  induction D as [|[i o] D IH] using rev_ind; intros Hn Hb.
  - unfold any_inv, any_spec_ret; cbn. repeat split. lia.
  - destruct (snoc_bounds _ _ _ _ Hn Hb) as (Hn' & Hb' & Hni & Hi & Hl).
    specialize (IH Hn' Hb'). rewrite fold_left_app. cbn. set (s := fold_left _ D _) in *.
    destruct IH as (Ht & Hbad & Hal & Hret). unfold any_inv, any_spec_ret in *.
    rewrite app_length. cbn [length]. unfold cbf. cbn [fst snd].
    assert ((0 <? length D + 1) = true) as Hpos by (apply Nat.ltb_lt; lia). rewrite Hpos.
    assert ((0 <? length D) && (length D =? n) = false) as Hnf.
    { destruct (Nat.eqb_spec (length D) n); [lia|]. now rewrite andb_false_r. }
    rewrite Hnf in Hret.
    destruct o as [v|e].
    + rewrite first_ok_snoc_ok. unfold any_cb; cbn. rewrite Hret.
      destruct (first_ok D) as [v'|]; cbn; repeat split; try assumption; lia.
    + rewrite first_ok_snoc_err, last_err_snoc_err. unfold any_cb; cbn. rewrite Hret.
      destruct (first_ok D) as [v'|]; cbn; [repeat split; try assumption; lia|].
      rewrite Ht.
      destruct (Z.eqb_spec (Z.of_nat n - Z.of_nat (length D) - 1) 0) as [E|E];
        destruct (Nat.eqb_spec (length D + 1) n) as [E'|E']; try lia; cbn;
        repeat split; try assumption; lia.
Qed.

(* nothing is linked (the shortcut returned an input): events only write the inputs they name *)
Lemma unlinked_run {S} (cb : S -> nat -> cell Z -> S) N : forall evs (m : mach S),
  queue m = [] -> (forall j, plinks (ins m j) = []) ->
  let m' := fold_left (step cb N) evs m in
  comb m' = comb m /\ forall j, ~ In j (map fst (completions evs)) -> ins m' j = ins m j.
Proof.
  induction evs as [|[i o|] r IH]; intros m Hq Hl; cbn.
  - split; reflexivity.
  - assert (complete m i o = mkMach (upd (ins m) i (mkP (cput (pcell (ins m i)) o) [] (ppend (ins m i)))) [] (comb m)) as E.
    { unfold complete. rewrite (Hl i), Hq. reflexivity. }
    rewrite E. match goal with |- context [fold_left _ r ?m1] => destruct (IH m1) as [Hc Hi] end.
    + reflexivity.
    + intros j. cbn. unfold upd. destruct (Nat.eqb j i); [reflexivity|apply Hl].
    + cbn in *. split; [exact Hc|]. intros j Hj. rewrite Hi by tauto.
      unfold upd. destruct (Nat.eqb_spec j i); [subst; tauto|reflexivity].
  - assert (run cb N m = m) as E by (unfold run; now apply drain_nil).
    rewrite E. destruct (IH m Hq Hl) as [Hc Hi]. split; assumption.
Qed.

Lemma find_first_ok pre (g : nat -> cell Z) :
  (forall i, g i = match assoc i pre with Some o => cell_of o | None => cempty end) ->
  forall l,
  match find (fun i => csucc (g i)) l with
  | Some i => exists v, assoc i pre = Some (Ok v) /\
              first_ok (flat_map (fun i => match assoc i pre with Some o => [(i, o)] | None => [] end) l) = Some v
  | None => first_ok (flat_map (fun i => match assoc i pre with Some o => [(i, o)] | None => [] end) l) = None
  end.
Proof.
  intros Hg. induction l as [|i l IH]; cbn; [reflexivity|].
  rewrite (Hg i). destruct (assoc i pre) as [[v|e]|] eqn:E; cbn.
  - exists v. split; [assumption|reflexivity].
  - exact IH.
  - exact IH.
Qed.

Theorem any_run_ret n pre evs : wf n pre evs ->
  any_ret (any_run n pre evs)
  = match first_ok (pre_order n pre) with
    | Some v => mkCell (Some v) None
    | None => any_spec_ret n (delivered n pre evs)
    end
  /\ y_bad (comb (any_run n pre evs)) = false.
Proof.
  intros H. pose proof H as [Hn Hb]. pose proof (NoDup_app_remove_r _ _ Hn) as Hnp.
  unfold any_run, any_run_on, any_call_on. rewrite !seq_length.
  destruct (precomplete_spec (mkAny None (Z.of_nat n) cempty false) pre Hnp) as (Hq & Hc & Hins).
  set (m0 := precomplete _ pre) in *.
  pose proof (find_first_ok pre (fun i => pcell (ins m0 i))) as Hf.
  specialize (Hf (fun i => f_equal pcell (Hins i)) (seq 0 n)). cbn beta in Hf. fold (pre_order n pre) in Hf.
  destruct (find _ (seq 0 n)) as [i|].
  - destruct Hf as (v & Ha & Hfo). rewrite Hfo.
    match goal with |- context [fold_left _ evs ?m1] => destruct (unlinked_run any_cb n evs m1) as [Hcm Him] end.
    + exact Hq.
    + intros j. cbn. now rewrite Hins.
    + cbn in *. unfold any_ret. rewrite Hcm. cbn. split; [|reflexivity].
      rewrite Him, Hins, Ha; [reflexivity|].
      apply (NoDup_app_disjoint _ _ Hn). apply assoc_in in Ha. change i with (fst (i, Ok v)). now apply in_map.
  - rewrite Hf. unfold any_ret. subst m0.
    rewrite (machine_delivers any_cb (fun _ => 0) n n pre evs _ H).
    destruct (wf_delivered n pre evs H) as [Hnd Hbd].
    destruct (any_fold n _ Hnd Hbd) as (_ & Hbad & Hal & Hret). rewrite Hal. split; assumption.
Qed.

(* ---- Unwrap ------------------------------------------------------------------------------------- *)
(* the chain occupies heap cells base .. base+depth; `done` = the levels that are complete *)
Definition shape (ch : chain) (base : nat) (done : list nat) (h : heap) : Prop :=
  forall j, j <= depth ch ->
    (In j done -> h (base + j) = cell_of (content ch base j)) /\ (~ In j done -> h (base + j) = cempty).

(* the helper, started on level w with every level below w complete, either stops at the first
   incomplete level (and links it) or reaches the end and completes the target *)
Definition walked (ch : chain) (base : nat) (done : list nat) (tgt : cell Z) (s : ust) : Prop :=
  u_bad s = false /\ u_pend s = false /\
  ((exists w, w <= depth ch /\ u_wait s = Some (base + w) /\ (forall t, t < w -> In t done) /\
              ~ In w done /\ u_target s = tgt)
   \/ (u_wait s = None /\ all_levels ch done /\ u_target s = cput tgt (term ch))).

Lemma walk_spec ch base done h tgt : shape ch base done h ->
  forall r w fuel, w + r = depth ch -> r < fuel -> (forall t, t < w -> In t done) ->
  walked ch base done tgt (unwrap_helper fuel h (base + w) (mkU None false tgt false)).
Proof.
  intros Hs. induction r as [|r IH]; intros w fuel Hw Hf Hpre; (destruct fuel as [|fuel]; [lia|]);
    cbn [unwrap_helper]; destruct (Hs w ltac:(lia)) as [Hd Hnd];
    destruct (in_dec Nat.eq_dec w done) as [Hin|Hnin].
  - (* last level, complete *)
    rewrite (Hd Hin). unfold content. replace (w <? depth ch) with false by (symmetry; apply Nat.ltb_ge; lia).
    assert (all_levels ch done) as Hall.
    { intros j Hj. destruct (Nat.eq_dec j w) as [->|Hne]; [assumption|apply Hpre; lia]. }
    unfold walked. destruct (term ch) as [v|e]; cbn; (split; [reflexivity|split; [reflexivity|right; repeat split; assumption]]).
  - rewrite (Hnd Hnin). cbn. split; [reflexivity|split; [reflexivity|left]].
    exists w. repeat split; try assumption. lia.
  - rewrite (Hd Hin). unfold content. replace (w <? depth ch) with true by (symmetry; apply Nat.ltb_lt; lia).
    cbn. replace (base + w + 1) with (base + (w + 1)) by lia. apply IH; [lia|lia|].
    intros t Ht. destruct (Nat.eq_dec t w) as [->|Hne]; [assumption|apply Hpre; lia].
  - rewrite (Hnd Hnin). cbn. split; [reflexivity|split; [reflexivity|left]].
    exists w. repeat split; try assumption. lia.
Qed.

Definition uinv (ch : chain) (base : nat) (done : list nat) (s : ust) : Prop :=
  u_bad s = false /\
  ((exists w, w <= depth ch /\ u_wait s = Some (base + w) /\ (forall t, t < w -> In t done) /\
              u_target s = cempty /\ (u_pend s = true -> In w done) /\ (u_pend s = false -> ~ In w done))
   \/ (u_wait s = None /\ u_pend s = false /\ all_levels ch done /\ u_target s = cell_of (term ch))).

Lemma walked_uinv ch base done s : walked ch base done cempty s -> uinv ch base done s /\ u_pend s = false.
Proof.
  intros (Hb & Hp & [(w & Hw & Hwt & Hpre & Hn & Ht)|(Hwt & Hall & Ht)]); (split; [split; [assumption|]|assumption]).
  - left. exists w. repeat split; try assumption; [rewrite Hp; discriminate|intros _; assumption].
  - right. repeat split; assumption.
Qed.

Lemma shape_complete ch base done h j : shape ch base done h -> j <= depth ch -> ~ In j done ->
  shape ch base (done ++ [j]) (hupd h (base + j) (cput (h (base + j)) (content ch base j))).
Proof.
  intros Hs Hj Hn j' Hj'. unfold hupd. destruct (Hs j' Hj') as [Hd Hnd].
  destruct (Nat.eqb_spec (base + j') (base + j)) as [E|E].
  - assert (j' = j) by lia. subst j'. split; [|intros H; exfalso; apply H, in_or_app; right; now left].
    intros _. now rewrite (Hnd Hn).
  - split; intros H.
    + apply Hd. apply in_app_or in H as [H|[H|[]]]; [assumption|]. subst. lia.
    + apply Hnd. intros H'. apply H, in_or_app. now left.
Qed.

Lemma shape_other ch base done h k c : shape ch base done h -> (forall j, j <= depth ch -> base + j <> k) ->
  shape ch base done (hupd h k c).
Proof.
  intros Hs Hk j Hj. unfold hupd. destruct (Nat.eqb_spec (base + j) k) as [E|E]; [exfalso; now apply (Hk j Hj)|].
  now apply Hs.
Qed.

Lemma uinv_complete ch base done h s j o : uinv ch base done s -> j <= depth ch -> ~ In j done ->
  uinv ch base (done ++ [j]) (snd (u_complete_at h s (base + j) o)).
Proof.
  intros (Hb & [(w & Hw & Hwt & Hpre & Ht & Hp1 & Hp0)|(Hwt & Hp & Hall & Ht)]) Hj Hn; unfold u_complete_at; cbn [snd]; rewrite Hwt.
  - destruct (Nat.eqb_spec (base + w) (base + j)) as [E|E]; cbn [andb].
    + assert (w = j) by lia. subst w. destruct (u_pend s) eqn:Ep; [exfalso; now apply Hn, Hp1|]. cbn.
      split; [assumption|left]. exists j. repeat split; try assumption.
      * intros t Htl. apply in_or_app. left. now apply Hpre.
      * intros _. apply in_or_app. right. now left.
      * discriminate.
    + split; [assumption|left]. exists w. repeat split; try assumption.
      * intros t Htl. apply in_or_app. left. now apply Hpre.
      * intros Hpt. apply in_or_app. left. now apply Hp1.
      * intros Hpf Hin. apply in_app_or in Hin as [Hin|[Hin|[]]]; [now apply (Hp0 Hpf)|]. subst. lia.
  - split; [assumption|right]. repeat split; try assumption. intros t Htl. apply in_or_app. left. now apply Hall.
Qed.

Lemma uinv_drain ch base done h s fuel : shape ch base done h -> uinv ch base done s -> depth ch < fuel ->
  uinv ch base done (u_drain fuel h s) /\ u_pend (u_drain fuel h s) = false.
Proof.
  intros Hs Hu Hf. pose proof Hu as (Hb & [(w & Hw & Hwt & Hpre & Ht & Hp1 & Hp0)|(Hwt & Hp & Hall & Ht)]);
    unfold u_drain.
  - destruct (u_pend s) eqn:Ep; [|split; assumption].
    rewrite Hwt, Ht, Hb. apply walked_uinv.
    apply (walk_spec ch base done h cempty Hs (depth ch - w) w fuel); [lia|lia|assumption].
  - rewrite Hp. split; assumption.
Qed.

Fixpoint heap_fill (ch : chain) (base : nat) (h : heap) (l : list nat) : heap :=
  match l with
  | [] => h
  | j :: r => heap_fill ch base (hupd h (base + j) (cput (h (base + j)) (content ch base j))) r
  end.

Lemma heap_fill_shape ch base : forall l done h, shape ch base done h -> NoDup (done ++ l) ->
  (forall j, In j l -> j <= depth ch) -> shape ch base (done ++ l) (heap_fill ch base h l).
Proof.
  induction l as [|j l IH]; intros done h Hs Hn Hb; cbn.
  - now rewrite app_nil_r.
  - replace (done ++ j :: l) with ((done ++ [j]) ++ l) in * by (rewrite <- app_assoc; reflexivity).
    apply IH; [|assumption|intros x Hx; apply Hb; now right].
    apply shape_complete; [assumption|apply Hb; now left|].
    apply NoDup_app_remove_r in Hn. intros H. apply (NoDup_app_disjoint _ _ Hn j H). now left.
Qed.

Lemma shape_empty ch base : shape ch base [] (fun _ => cempty).
Proof. intros j _. split; [intros []|reflexivity]. Qed.

Lemma u_done_app a b : u_done (a ++ b) = u_done a ++ u_done b.
Proof. induction a as [|[j|] a IH]; cbn; [reflexivity|now rewrite IH|exact IH]. Qed.

Lemma unwrap_events ch : forall evs m done,
  shape ch 0 done (um_heap m) -> uinv ch 0 done (um_u m) ->
  NoDup (done ++ u_done evs) -> (forall j, In j (u_done evs) -> j <= depth ch) ->
  let m' := fold_left (ustep ch) evs m in
  shape ch 0 (done ++ u_done evs) (um_heap m') /\ uinv ch 0 (done ++ u_done evs) (um_u m').
Proof.
  induction evs as [|[j|] r IH]; intros m done Hs Hu Hn Hb; cbn.
  - rewrite app_nil_r. split; assumption.
  - cbn in Hn. replace (done ++ j :: u_done r) with ((done ++ [j]) ++ u_done r) in * by (rewrite <- app_assoc; reflexivity).
    assert (j <= depth ch) as Hj by (apply Hb; now left).
    assert (~ In j done) as Hnj.
    { apply NoDup_app_remove_r in Hn. intros H. apply (NoDup_app_disjoint _ _ Hn j H). now left. }
    apply IH; try assumption.
    + cbn. now apply (shape_complete ch 0).
    + pose proof (uinv_complete ch 0 done (um_heap m) (um_u m) j (content ch 0 j) Hu Hj Hnj) as X.
      unfold u_complete_at in X |- *. cbn in X |- *. exact X.
    + intros x Hx. apply Hb. now right.
  - apply IH; try assumption. cbn. apply (uinv_drain ch 0 done); try assumption. unfold ufuel. lia.
Qed.

Lemma unwrap_call_inv ch pre : NoDup pre -> (forall j, In j pre -> j <= depth ch) ->
  shape ch 0 pre (um_heap (unwrap_call ch pre)) /\ uinv ch 0 pre (um_u (unwrap_call ch pre)).
Proof.
  intros Hn Hb. unfold unwrap_call.
  assert (forall l h, fold_left (fun h j => hupd h j (cput (h j) (content ch 0 j))) l h = heap_fill ch 0 h l) as Hfill.
  { induction l as [|j l IHl]; intros h; cbn; [reflexivity|apply IHl]. }
  rewrite Hfill. cbn [um_heap um_u].
  pose proof (heap_fill_shape ch 0 pre [] _ (shape_empty ch 0) Hn Hb) as Hs. cbn in Hs.
  split; [assumption|].
  apply walked_uinv. apply (walk_spec ch 0 pre _ cempty Hs (depth ch) 0); [lia|unfold ufuel; lia|intros t Ht; lia].
Qed.

Theorem unwrap_run_inv ch pre evs : uwf ch pre evs ->
  let m := unwrap_run ch pre evs in
  shape ch 0 (pre ++ u_done evs) (um_heap m) /\ uinv ch 0 (pre ++ u_done evs) (um_u m).
Proof.
  intros [Hn Hb]. destruct (unwrap_call_inv ch pre) as [Hs Hu].
  - now apply NoDup_app_remove_r in Hn.
  - intros j Hj. apply Hb, in_or_app. now left.
  - apply unwrap_events; try assumption. intros j Hj. apply Hb, in_or_app. now right.
Qed.

Theorem unwrap_safe ch pre evs : uwf ch pre evs ->
  let m := unwrap_run ch pre evs in
  u_bad (um_u m) = false /\
  (unwrap_ret m = cempty \/ (unwrap_ret m = cell_of (term ch) /\ all_levels ch (pre ++ u_done evs))).
Proof.
  intros H. destruct (unwrap_run_inv ch pre evs H) as [_ (Hb & [(w & _ & _ & _ & Ht & _)|(_ & _ & Hall & Ht)])];
    (split; [assumption|]); [left|right]; unfold unwrap_ret; [assumption|split; assumption].
Qed.

Theorem unwrap_live ch pre evs : uwf ch pre (evs ++ [URun]) -> all_levels ch (pre ++ u_done evs) ->
  unwrap_ret (unwrap_run ch pre (evs ++ [URun])) = cell_of (term ch).
Proof.
  intros H Hall. assert (uwf ch pre evs) as H'.
  { unfold uwf in *. rewrite u_done_app in H. cbn in H. now rewrite app_nil_r in H. }
  destruct (unwrap_run_inv ch pre evs H') as [Hs Hu].
  unfold unwrap_run in *. rewrite fold_left_app. cbn. set (m := fold_left _ evs _) in *.
  destruct (uinv_drain ch 0 _ (um_heap m) (um_u m) (ufuel ch) Hs Hu) as [Hu' Hp]; [unfold ufuel; lia|].
  unfold unwrap_ret. cbn.
  destruct Hu' as (_ & [(w & Hw & _ & _ & _ & _ & Hp0)|(_ & _ & _ & Ht)]); [|assumption].
  exfalso. apply (Hp0 Hp). now apply Hall.
Qed.

(* ---- ContinueWith ------------------------------------------------------------------------------- *)
Section Cont.
  Variable fn : cell Z -> outcome Z.
  Variable on_hub : bool.

  Definition cinv (p : phase) (s : cst) : Prop :=
    match p with
    | Pending => s = mkC (mkInput cempty true false) cempty [] false
    | Completed o => s = mkC (mkInput (cell_of o) true true) cempty [] false
    | Delivered o => s = mkC (mkInput (cell_of o) false false) (cell_of (fn (cell_of o))) [cell_of o] false
    end.

  Lemma cinv_step p s e : cinv p s -> match e with CComplete _ => p = Pending | CRun => True end ->
    cinv (c_phase_step p e) (cstep fn on_hub s e).
  Proof.
    intros Hs He. destruct p as [|o|o]; cbn in Hs; subst s; destruct e as [o'|]; try discriminate He; cbn.
    - reflexivity.
    - reflexivity.
    - unfold c_drain; cbn. destruct on_hub; reflexivity.
    - reflexivity.
  Qed.

  Lemma cinv_run : forall evs p s, cinv p s -> cwf p evs ->
    cinv (fold_left c_phase_step evs p) (fold_left (cstep fn on_hub) evs s).
  Proof.
    induction evs as [|e r IH]; intros p s Hs Hw; cbn; [assumption|].
    destruct Hw as [He Hw]. apply IH; [|assumption]. now apply cinv_step.
  Qed.

  Theorem cont_run_inv pre evs : cwf (phase0 pre) evs -> cinv (c_phase pre evs) (cont_run fn on_hub pre evs).
  Proof.
    intros Hw. unfold c_phase, cont_run. apply cinv_run; [|assumption]. destruct pre; reflexivity.
  Qed.
End Cont.

(* ---- Map ---------------------------------------------------------------------------------------- *)
Section MapP.
  Variable f : mact.
  Variable ch : chain.

  Definition m_calls_of (o : outcome Z) : list Z := match o with Ok v => [v] | Err _ => [] end.

  Definition minv (p : phase) (done : list nat) (s : mst) : Prop :=
    shape ch mbase done (m_heap s) /\
    match p with
    | Pending =>
        m_heap s 0 = cempty /\ m_heap s 1 = cempty /\ m_linked s = true /\ m_pend s = false /\
        m_u s = mkU (Some 0) false cempty false /\ m_calls s = []
    | Completed o =>
        m_heap s 0 = cempty /\ m_heap s 1 = cell_of (lift_outcome o) /\ m_linked s = true /\ m_pend s = true /\
        m_u s = mkU (Some 0) false cempty false /\ m_calls s = []
    | Delivered o =>
        m_linked s = false /\ m_pend s = false /\ m_calls s = m_calls_of o /\
        match o with
        | Err e => m_u s = mkU None false (cell_of (Err e)) false
        | Ok v => match m_result f v with
                  | Some r => m_u s = mkU None false (cell_of r) false
                  | None => uinv ch mbase done (m_u s)
                  end
        end
    end.

  Lemma chain_not_low j k : k < mbase -> mbase + j <> k.
  Proof. unfold mbase. lia. Qed.

  Lemma mapper_deliver o done s : minv (Completed o) done s ->
    minv (Delivered o) done (mstep f ch s MRun) /\ u_pend (m_u (mstep f ch s MRun)) = false.
  Proof.
    destruct s as [h l pd u calls]. unfold minv. cbn [m_heap m_linked m_pend m_u m_calls].
    intros (Hs & H0 & H1 & Hl & Hpd & Hu & Hc). subst l pd u calls.
    unfold mstep. cbn [m_heap m_linked m_pend m_u m_calls]. unfold m_mapper. cbn [m_heap m_linked m_pend m_u m_calls]. rewrite H1.
    assert (forall c, shape ch mbase done (hupd h 0 c)) as Hs0.
    { intros c. apply shape_other; [assumption|]. intros j _. apply chain_not_low. unfold mbase. lia. }
    destruct o as [v|e]; cbn.
    - destruct f as [a|x|]; cbn.
      + unfold u_drain, mfuel; cbn. rewrite H0. cbn. split; [split; [apply Hs0|repeat split]|reflexivity].
      + unfold u_drain, mfuel; cbn. rewrite H0. cbn. split; [split; [apply Hs0|repeat split]|reflexivity].
      + unfold u_drain, mfuel; cbn. rewrite H0. cbn.
        pose proof (walk_spec ch mbase done _ cempty (Hs0 {| cval := Some (Ref mbase); cexc := None |})
                      (depth ch) 0 (Datatypes.S (Datatypes.S (depth ch)))) as W.
        cbn in W. specialize (W ltac:(lia) ltac:(lia) ltac:(intros; lia)).
        apply walked_uinv in W as [W Wp].
        split; [split; [apply Hs0|split; [reflexivity|split; [reflexivity|split; [reflexivity|exact W]]]]|exact Wp].
    - unfold u_drain, mfuel; cbn. rewrite H0. cbn. rewrite H1. cbn.
      split; [split; [apply Hs0|repeat split]|reflexivity].
  Qed.

  Definition m_step_ok (p : phase) (done : list nat) (e : mev) : Prop :=
    match e with
    | MIn _ => p = Pending
    | MLevel j => j <= depth ch /\ ~ In j done
    | MRun => True
    end.
  Definition m_done_step (done : list nat) (e : mev) : list nat :=
    match e with MLevel j => done ++ [j] | _ => done end.

  Lemma minv_step p done s e : minv p done s -> m_step_ok p done e ->
    minv (m_phase_step p e) (m_done_step done e) (mstep f ch s e) /\
    (e = MRun -> u_pend (m_u (mstep f ch s e)) = false).
  Proof.
    intros Hm He. destruct s as [h l pd u calls]. unfold minv in Hm.
    cbn [m_heap m_linked m_pend m_u m_calls] in Hm. destruct Hm as [Hs Hp].
    destruct e as [o|j|].
    - (* the input completes *)
      cbn in He. subst p. split; [|discriminate].
      destruct Hp as (H0 & H1 & Hl & Hpd & Hu & Hc). subst l pd u calls. cbn.
      split; [apply shape_other; [assumption|intros j _; apply chain_not_low; unfold mbase; lia]|].
      unfold hupd; cbn. rewrite H1. repeat split. assumption.
    - (* a level of the chain completes *)
      destruct He as [Hj Hn]. split; [|discriminate].
      unfold mstep, m_done_step. unfold u_complete_at at 1.
      cbn [m_heap m_linked m_pend m_u m_calls].
      pose proof (shape_complete ch mbase done h j Hs Hj Hn) as Hs'.
      assert (forall k, k < mbase -> hupd h (mbase + j) (cput (h (mbase + j)) (content ch mbase j)) k = h k) as Hlow.
      { intros k Hk. unfold hupd. destruct (Nat.eqb_spec k (mbase + j)); [unfold mbase in *; lia|reflexivity]. }
      unfold minv. cbn [m_heap m_linked m_pend m_u m_calls].
      split; [exact Hs'|].
      destruct p as [|o|o]; cbn [m_phase_step].
      + destruct Hp as (H0 & H1 & Hl & Hpd & Hu & Hc). subst l pd u calls. cbn. repeat split; assumption.
      + destruct Hp as (H0 & H1 & Hl & Hpd & Hu & Hc). subst l pd u calls. cbn. repeat split; assumption.
      + destruct Hp as (Hl & Hpd & Hc & Hu). subst l pd calls.
        split; [reflexivity|split; [reflexivity|split; [reflexivity|]]].
        destruct o as [v|e]; [destruct (m_result f v) as [r|]|]; try (rewrite Hu; reflexivity).
        exact (uinv_complete ch mbase done h u j (content ch mbase j) Hu Hj Hn).
    - (* the hub runs *)
      destruct p as [|o|o]; cbn [m_phase_step m_done_step].
      + destruct Hp as (H0 & H1 & Hl & Hpd & Hu & Hc). subst l pd u calls. cbn.
        split; [|reflexivity]. split; [assumption|]. repeat split; assumption.
      + destruct (mapper_deliver o done (mkM h l pd u calls)) as [A B]; [|split; [exact A|intros _; exact B]].
        unfold minv. cbn [m_heap m_linked m_pend m_u m_calls]. split; assumption.
      + destruct Hp as (Hl & Hpd & Hc & Hu). subst l pd calls.
        unfold mstep, minv. cbn [m_heap m_linked m_pend m_u m_calls].
        destruct o as [v|e]; [destruct (m_result f v) as [r|] eqn:Er|].
        * rewrite Hu. cbn. split; [split; [assumption|repeat split]|reflexivity].
        * destruct (uinv_drain ch mbase done h u (mfuel ch) Hs Hu) as [Hu' Hp']; [unfold mfuel; lia|].
          split; [|intros _; exact Hp'].
          split; [assumption|split; [reflexivity|split; [reflexivity|split; [reflexivity|exact Hu']]]].
        * rewrite Hu. cbn. split; [split; [assumption|repeat split]|reflexivity].
  Qed.

  Fixpoint m_levels_wf (done : list nat) (evs : list mev) : Prop :=
    match evs with
    | [] => True
    | MLevel j :: r => j <= depth ch /\ ~ In j done /\ m_levels_wf (done ++ [j]) r
    | _ :: r => m_levels_wf done r
    end.

  Lemma m_levels_wf_intro : forall evs done, NoDup (done ++ m_done evs) ->
    (forall j, In j (m_done evs) -> j <= depth ch) -> m_levels_wf done evs.
  Proof.
    induction evs as [|[o|j|] r IH]; intros done Hn Hb; cbn in *; try (now apply IH); [exact I|].
    split; [apply Hb; now left|]. split.
    - pose proof (NoDup_remove_2 _ _ _ Hn) as H. intros Hin. apply H, in_or_app. now left.
    - apply IH; [now rewrite <- app_assoc|]. intros x Hx. apply Hb. now right.
  Qed.

  Lemma minv_run : forall evs p done s, minv p done s -> m_in_wf p evs -> m_levels_wf done evs ->
    minv (fold_left m_phase_step evs p) (done ++ m_done evs) (fold_left (mstep f ch) evs s).
  Proof.
    induction evs as [|e r IH]; intros p done s Hm Hi Hl; cbn.
    - now rewrite app_nil_r.
    - destruct Hi as [Hie Hi].
      assert (m_step_ok p done e) as Hok.
      { destruct e as [o|j|]; cbn in *; [assumption|tauto|exact I]. }
      destruct (minv_step p done s e Hm Hok) as [Hm' _].
      destruct e as [o|j|]; cbn in *.
      + now apply IH.
      + replace (done ++ j :: m_done r) with ((done ++ [j]) ++ m_done r) by (rewrite <- app_assoc; reflexivity).
        apply IH; tauto.
      + now apply IH.
  Qed.

  Lemma map_call_inv pre_in pre_levels : NoDup pre_levels -> (forall j, In j pre_levels -> j <= depth ch) ->
    minv (phase0 pre_in) pre_levels (map_call ch pre_in pre_levels).
  Proof.
    intros Hn Hb. unfold map_call.
    assert (forall l h, fold_left (fun h j => hupd h (mbase + j) (cput (h (mbase + j)) (content ch mbase j))) l h
                        = heap_fill ch mbase h l) as Hfill.
    { induction l as [|j l IHl]; intros h; cbn; [reflexivity|apply IHl]. }
    rewrite Hfill.
    pose proof (heap_fill_shape ch mbase pre_levels [] _ (shape_empty ch mbase) Hn Hb) as Hs. cbn [app] in Hs.
    set (h0 := heap_fill ch mbase (fun _ => cempty) pre_levels) in *.
    assert (forall k, k < mbase -> h0 k = cempty) as Hlow.
    { intros k Hk. unfold h0. clear -Hk.
      assert (forall l (h : heap), h k = cempty -> heap_fill ch mbase h l k = cempty) as G.
      { induction l as [|j l IHl]; intros h Hh; cbn [heap_fill]; [assumption|]. apply IHl. unfold hupd.
        destruct (Nat.eqb_spec k (mbase + j)); [unfold mbase in *; lia|assumption]. }
      apply G. reflexivity. }
    destruct pre_in as [o|]; cbn.
    - split; [apply shape_other; [assumption|intros j _; apply chain_not_low; unfold mbase; lia]|].
      unfold hupd; cbn. rewrite !Hlow by (unfold mbase; lia). repeat split.
    - split; [assumption|]. rewrite !Hlow by (unfold mbase; lia). repeat split.
  Qed.

  Theorem map_run_inv pre_in pre_levels evs : mwf ch pre_in pre_levels evs ->
    minv (m_phase pre_in evs) (pre_levels ++ m_done evs) (map_run f ch pre_in pre_levels evs).
  Proof.
    intros (Hn & Hb & Hi). unfold m_phase, map_run. apply minv_run; [|assumption|].
    - apply map_call_inv; [now apply NoDup_app_remove_r in Hn|]. intros j Hj. apply Hb, in_or_app. now left.
    - apply m_levels_wf_intro; [assumption|]. intros j Hj. apply Hb, in_or_app. now right.
  Qed.
  Lemma m_done_app a b : m_done (a ++ b) = m_done a ++ m_done b.
  Proof. induction a as [|[o|j|] a IH]; cbn; try exact IH; [reflexivity|now rewrite IH]. Qed.

  Lemma m_in_wf_app_l : forall a b p, m_in_wf p (a ++ b) -> m_in_wf p a.
  Proof. induction a as [|e a IH]; intros b p H; cbn in *; [exact I|]. destruct H as [H1 H2]. split; [assumption|now apply (IH b)]. Qed.

  Lemma mwf_prefix pre_in pre_levels evs : mwf ch pre_in pre_levels (evs ++ [MRun]) -> mwf ch pre_in pre_levels evs.
  Proof.
    unfold mwf. rewrite m_done_app. cbn. rewrite app_nil_r. intros (Hn & Hb & Hi).
    repeat split; try assumption. now apply m_in_wf_app_l in Hi.
  Qed.

  (* once fn has returned the chain, every level is complete and the hub has run, the result is the
     innermost outcome *)
  Theorem map_live pre_in pre_levels evs v : mwf ch pre_in pre_levels (evs ++ [MRun]) ->
    m_phase pre_in (evs ++ [MRun]) = Delivered (Ok v) -> m_result f v = None ->
    all_levels ch (pre_levels ++ m_done evs) ->
    map_ret (map_run f ch pre_in pre_levels (evs ++ [MRun])) = cell_of (term ch).
  Proof.
    intros Hw Hph Hres Hall. pose proof (map_run_inv _ _ _ (mwf_prefix _ _ _ Hw)) as Hm.
    unfold m_phase, map_run in *. rewrite fold_left_app in *. cbn [fold_left] in *.
    set (p0 := fold_left m_phase_step evs (phase0 pre_in)) in *.
    set (s := fold_left (mstep f ch) evs (map_call ch pre_in pre_levels)) in *.
    destruct (minv_step p0 _ s MRun Hm I) as [Hm' Hp]. specialize (Hp eq_refl).
    cbn [m_done_step] in Hm'. rewrite Hph in Hm'. destruct Hm' as (_ & _ & _ & _ & Hu). rewrite Hres in Hu.
    unfold map_ret. destruct Hu as (_ & [(w & Hw' & _ & _ & _ & _ & Hp0)|(_ & _ & _ & Ht)]); [|assumption].
    exfalso. apply (Hp0 Hp). now apply Hall.
  Qed.
End MapP.

(* ---- facts used to phrase the property theorems -------------------------------------------------- *)
Lemma values_nth n D i : i < n -> nth i (values_in_input_order n D) None = value_of D i.
Proof.
  intros Hi. unfold values_in_input_order.
  rewrite (nth_indep _ None (value_of D 0)) by (now rewrite map_length, seq_length).
  now rewrite map_nth, seq_nth.
Qed.

Lemma wf_prefix n pre a b : wf n pre (a ++ b) -> wf n pre a.
Proof.
  unfold wf. rewrite completions_app, map_app, app_assoc. intros [Hn Hb]. split.
  - now apply NoDup_app_remove_r in Hn.
  - intros i Hi. apply Hb, in_or_app. now left.
Qed.

Lemma delivered_app n pre a b : exists q, delivered n pre (a ++ b) = delivered n pre a ++ sched q b.
Proof. unfold delivered. apply sched_app. Qed.

Lemma delivered_nil n pre evs : wf n pre evs -> n = 0 -> delivered n pre evs = [].
Proof.
  intros H Hn. destruct (wf_delivered n pre evs H) as [_ Hb]. destruct (delivered n pre evs) as [|[i o] D]; [reflexivity|].
  exfalso. specialize (Hb i (or_introl eq_refl)). lia.
Qed.

(* ---- SafeLink / Run / RunInline ------------------------------------------------------------------ *)
Lemma runfn_done res : forall runs, runfn_run res runs (mkR (cell_of res) false 1) = mkR (cell_of res) false 1.
Proof. induction runs as [|k IH]; cbn; [reflexivity|exact IH]. Qed.

Lemma runfn_spec inline res runs :
  runfn_run res runs (runfn_call inline res)
  = if inline || (0 <? runs) then mkR (cell_of res) false 1 else mkR cempty true 0.
Proof.
  destruct inline; cbn.
  - apply runfn_done.
  - destruct runs as [|k]; cbn; [reflexivity|apply runfn_done].
Qed.

(* ================================================================================================ *)
(* WhenAll on an input list in which a result may occupy several positions                           *)
(* ================================================================================================ *)
Definition Pof (ars : list nat) (r : nat) : list nat :=
  positions_upto (fun pos => nth pos ars 0) (length ars) r.

Lemma Pof_in ars r pos : In pos (Pof ars r) <-> pos < length ars /\ nth pos ars 0 = r.
Proof.
  unfold Pof, positions_upto. rewrite filter_In, in_seq, Nat.eqb_eq. split; intros [H1 H2]; split; try assumption; lia.
Qed.

Lemma Pof_nodup ars r : NoDup (Pof ars r).
Proof. apply NoDup_filter, seq_NoDup. Qed.

Lemma Pof_nonempty ars r : In r ars -> Pof ars r <> [].
Proof.
  intros H. destruct (In_nth ars r 0 H) as (pos & Hp & Hn). intros E.
  assert (In pos (Pof ars r)) as Hin by (apply Pof_in; split; assumption). rewrite E in Hin. contradiction.
Qed.

Lemma last_in {A} (l : list A) d : l <> [] -> In (last l d) l.
Proof.
  induction l as [|a l IH]; intros H; [contradiction|]. destruct l as [|b l]; [now left|].
  right. apply IH. discriminate.
Qed.

(* distinct callables: every link is called, none is left *)
Lemma notify_list_all : forall L done, NoDup L -> (forall x, In x L -> ~ In x done) -> L <> [] ->
  notify_list (last L 0) done L = (L, []).
Proof.
  induction L as [|l r IH]; intros done Hn Hd Hne; [contradiction|].
  inversion Hn as [|? ? Hnl Hnr]; subst. cbn [notify_list].
  assert (existsb (Nat.eqb l) done = false) as Ef.
  { destruct (existsb (Nat.eqb l) done) eqn:E; [|reflexivity]. apply existsb_exists in E as (x & Hx & Hxe).
    apply Nat.eqb_eq in Hxe. subst x. exfalso. apply (Hd l); [now left|assumption]. }
  rewrite Ef. cbn [negb]. destruct r as [|l' r'].
  - cbn. now rewrite Nat.eqb_refl.
  - change (last (l :: l' :: r') 0) with (last (l' :: r') 0).
    assert (Nat.eqb l (last (l' :: r') 0) = false) as En.
    { apply Nat.eqb_neq. intros E. apply Hnl. rewrite E. apply last_in. discriminate. }
    rewrite En. rewrite IH; [reflexivity|assumption| |discriminate].
    intros x Hx [<-|Hxd]; [now apply Hnl|]. apply (Hd x); [now right|assumption].
Qed.

Section AliasAll.
  Context {S : Type}.
  Variable cb : S -> nat -> cell Z -> S.
  Variable ars : list nat.

  Definition cbp (s : S) (p : nat * outcome Z) : S := cb s (fst p) (cell_of (snd p)).

  (* the deliveries of a result, position by position *)
  Definition expand1 (p : nat * outcome Z) : list (nat * outcome Z) := map (fun pos => (pos, snd p)) (Pof ars (fst p)).
  Definition expand (q : list (nat * outcome Z)) : list (nat * outcome Z) := flat_map expand1 q.

  Lemma notify_all (m : mach S) r c L : ins m r = mkP c L true -> NoDup L -> L <> [] ->
    notify cb m r = mkMach (upd (ins m) r (mkP c [] false)) (queue m) (fold_left (fun s k => cb s k c) L (comb m)).
  Proof.
    intros H Hn Hne. unfold notify. rewrite H. cbn [pcell plinks].
    rewrite notify_list_all; [reflexivity|assumption|intros ? ? []|assumption].
  Qed.

  Lemma fold_positions o : forall L (s : S),
    fold_left (fun s k => cb s k (cell_of o)) L s = fold_left cbp (map (fun pos => (pos, o)) L) s.
  Proof. induction L as [|k L IH]; intros s; cbn; [reflexivity|apply IH]. Qed.

  (* registering the links position by position *)
  Lemma link_from_alias (f : nat -> nat) (rdy : nat -> bool) : forall k (m : mach S), queue m = [] ->
    (forall r, plinks (ins m r) = [] /\ ppend (ins m r) = false) ->
    (forall r, cready (pcell (ins m r)) = rdy r) ->
    let m' := link_from f (fun pos => pos) k m in
    comb m' = comb m /\ queue m' = ready_queue rdy f k /\
    forall r, ins m' r = mkP (pcell (ins m r)) (positions_upto f k r) (existsb (Nat.eqb r) (ready_queue rdy f k)).
  Proof.
    unfold link_from. induction k as [|k IH]; intros m Hq Hfl Hr; cbn -[seq].
    - cbn. repeat split; try assumption. intros r. destruct (Hfl r) as [Hl Hp]. destruct (ins m r); cbn in *. now subst.
    - rewrite seq_S, fold_left_app. cbn [fold_left Nat.add].
      destruct (IH m Hq Hfl Hr) as (Hc & Hqu & Hins). set (m1 := fold_left _ (seq 0 k) m) in *.
      unfold rawlink. cbv zeta. rewrite (Hins (f k)). cbn [pcell plinks ppend]. rewrite Hr.
      assert (forall r, positions_upto f (Datatypes.S k) r
                        = positions_upto f k r ++ (if Nat.eqb (f k) r then [k] else [])) as Hpos.
      { intros r. unfold positions_upto. rewrite seq_S, filter_app. cbn. reflexivity. }
      destruct (rdy (f k) && negb (existsb (Nat.eqb (f k)) (ready_queue rdy f k))) eqn:Ec; cbn [ins queue comb].
      + split; [assumption|]. split; [now rewrite Hqu|]. intros r. rewrite Hpos. unfold upd.
        destruct (Nat.eqb_spec r (f k)) as [->|Hne].
        * rewrite Nat.eqb_refl. rewrite existsb_app. cbn. rewrite Nat.eqb_refl, orb_true_r. reflexivity.
        * rewrite Hins. replace (Nat.eqb (f k) r) with false by (symmetry; apply Nat.eqb_neq; congruence).
          rewrite app_nil_r, existsb_app. cbn.
          replace (Nat.eqb r (f k)) with false by (symmetry; now apply Nat.eqb_neq). now rewrite !orb_false_r.
      + split; [assumption|]. split; [assumption|]. intros r. rewrite Hpos. unfold upd.
        destruct (Nat.eqb_spec r (f k)) as [->|Hne].
        * rewrite Nat.eqb_refl. reflexivity.
        * rewrite Hins. replace (Nat.eqb (f k) r) with false by (symmetry; apply Nat.eqb_neq; congruence).
          now rewrite app_nil_r.
  Qed.
  Fixpoint wf_evs_a (used : list nat) (evs : list ev) : Prop :=
    match evs with
    | [] => True
    | Complete r _ :: t => In r ars /\ ~ In r used /\ wf_evs_a (r :: used) t
    | Run :: t => wf_evs_a used t
    end.

  Record Inv_a (used : list nat) (q : list (nat * outcome Z)) (m : mach S) : Prop := {
    inva_queue : queue m = map fst q;
    inva_nodup : NoDup (map fst q);
    inva_queued : forall r o, In (r, o) q -> ins m r = mkP (cell_of o) (Pof ars r) true /\ In r ars;
    inva_fresh : forall r, In r ars -> ~ In r used -> ins m r = mkP cempty (Pof ars r) false;
    inva_used : forall r, In r (map fst q) -> In r used
  }.

  Lemma upd_same_a f i x : upd f i x i = x.
  Proof. unfold upd. now rewrite Nat.eqb_refl. Qed.
  Lemma upd_other_a f i x j : j <> i -> upd f i x j = f j.
  Proof. unfold upd. intros H. destruct (Nat.eqb_spec j i); [contradiction|reflexivity]. Qed.

  Lemma complete_inv_a used q m r o : Inv_a used q m -> In r ars -> ~ In r used ->
    Inv_a (r :: used) (q ++ [(r, o)]) (complete m r o) /\ comb (complete m r o) = comb m.
  Proof.
    intros [Hq Hn Hqd Hf Hu] Hr Hnu. unfold complete. rewrite (Hf r Hr Hnu). cbn [pcell plinks ppend].
    pose proof (Pof_nonempty ars r Hr) as Hne. destruct (Pof ars r) as [|k L] eqn:EP; [contradiction|]. cbn.
    split; [|reflexivity]. constructor; cbn.
    - rewrite Hq, map_app. reflexivity.
    - rewrite map_app. cbn. apply NoDup_app_intro; [assumption|repeat constructor; intros []|].
      intros j Hj [<-|[]]. now apply Hnu, Hu.
    - intros j o' Hin. apply in_app_or in Hin as [Hin|[E|[]]].
      + assert (j <> r) as Hner. { intros ->. apply Hnu, Hu. change r with (fst (r, o')). now apply in_map. }
        rewrite upd_other_a by assumption. now apply Hqd.
      + inversion E; subst. rewrite upd_same_a, EP. split; [reflexivity|assumption].
    - intros j Hj Hnj. rewrite upd_other_a by (intros ->; apply Hnj; now left).
      apply Hf; [assumption|]. intros H. apply Hnj. now right.
    - intros j Hj. rewrite map_app in Hj. apply in_app_or in Hj as [Hj|[<-|[]]]; [right; now apply Hu|now left].
  Qed.

  Lemma drain_queue_a : forall q (m : mach S) fuel, length q <= fuel -> queue m = map fst q -> NoDup (map fst q) ->
    (forall r o, In (r, o) q -> ins m r = mkP (cell_of o) (Pof ars r) true /\ In r ars) ->
    let m' := drain cb fuel m in
    comb m' = fold_left cbp (expand q) (comb m) /\ queue m' = [] /\
    (forall j, ~ In j (map fst q) -> ins m' j = ins m j).
  Proof.
    induction q as [|[r o] q IH]; intros m fuel Hf Hqm Hn Hq; cbn in Hqm |- *.
    - rewrite (drain_nil cb fuel m Hqm). repeat split; assumption.
    - destruct fuel as [|fuel]; [cbn in Hf; lia|]. cbn [drain]. rewrite Hqm.
      inversion Hn as [|? ? Hni Hr]; subst.
      destruct (Hq r o (or_introl eq_refl)) as [Hir Hra].
      rewrite (notify_all _ r (cell_of o) (Pof ars r)); [|exact Hir|apply Pof_nodup|now apply Pof_nonempty].
      cbn [ins queue comb].
      match goal with |- context [drain cb fuel ?m1] => specialize (IH m1 fuel) end.
      destruct IH as (Hc & Hqu & Hins); cbn [ins queue comb]; try assumption; [cbn in Hf; lia|reflexivity| |].
      + intros j o' Hin. rewrite upd_other_a. * apply Hq. now right.
        * intros ->. apply Hni. change r with (fst (r, o')). now apply in_map.
      + split; [|split].
        * rewrite Hc, fold_left_app. unfold expand1 at 2. cbn [fst snd]. now rewrite fold_positions.
        * exact Hqu.
        * intros j Hj. rewrite Hins by tauto. apply upd_other_a. intros ->. tauto.
  Qed.

  Lemma run_inv_a N used q m : Inv_a used q m ->
    Inv_a used [] (run cb N m) /\ comb (run cb N m) = fold_left cbp (expand q) (comb m).
  Proof.
    intros [Hq Hn Hqd Hf Hu]. unfold run.
    destruct (drain_queue_a q m (length (queue m) + N)) as (Hc & Hqu & Hins); try assumption.
    { rewrite Hq, map_length. lia. }
    split; [|exact Hc]. constructor.
    - exact Hqu.
    - constructor.
    - intros ? ? [].
    - intros i Hi Hnu. rewrite Hins; [now apply Hf|]. intros H. now apply Hnu, Hu.
    - intros ? [].
  Qed.

  Lemma expand_app a b : expand (a ++ b) = expand a ++ expand b.
  Proof. unfold expand. apply flat_map_app. Qed.

  Lemma events_comb_a N : forall evs used q m, Inv_a used q m -> wf_evs_a used evs ->
    comb (fold_left (step cb N) evs m) = fold_left cbp (expand (sched q evs)) (comb m).
  Proof.
    induction evs as [|[i o|] r IH]; intros used q m HI Hw; cbn.
    - reflexivity.
    - destruct Hw as (Hi & Hnu & Hw). destruct (complete_inv_a _ _ _ i o HI Hi Hnu) as [HI' Hc].
      rewrite (IH _ _ _ HI' Hw), Hc. reflexivity.
    - destruct (run_inv_a N _ _ _ HI) as [HI' Hc].
      rewrite (IH _ _ _ HI' Hw), Hc, expand_app, fold_left_app. reflexivity.
  Qed.

  (* the ready queue: no duplicates, only ready results that are listed *)
  Lemma ready_queue_spec rdy f : forall k,
    NoDup (ready_queue rdy f k) /\
    forall r, In r (ready_queue rdy f k) -> rdy r = true /\ exists pos, pos < k /\ f pos = r.
  Proof.
    induction k as [|k [IHn IHi]]; cbn; [split; [constructor|intros ? []]|].
    destruct (rdy (f k)) eqn:Er; cbn [andb]; [destruct (existsb (Nat.eqb (f k)) (ready_queue rdy f k)) eqn:Ee; cbn [negb]|].
    - split; [assumption|]. intros r Hr. destruct (IHi r Hr) as [H1 (pos & Hp & Hf)]. split; [assumption|]. exists pos. split; [lia|assumption].
    - split.
      + apply NoDup_app_intro; [assumption|repeat constructor; intros []|].
        intros x Hx [<-|[]]. assert (existsb (Nat.eqb (f k)) (ready_queue rdy f k) = true) as C.
        { apply existsb_exists. exists (f k). split; [assumption|apply Nat.eqb_refl]. }
        congruence.
      + intros r Hr. apply in_app_or in Hr as [Hr|[<-|[]]].
        * destruct (IHi r Hr) as [H1 (pos & Hp & Hf)]. split; [assumption|]. exists pos. split; [lia|assumption].
        * split; [assumption|]. exists k. split; [lia|reflexivity].
    - split; [assumption|]. intros r Hr. destruct (IHi r Hr) as [H1 (pos & Hp & Hf)]. split; [assumption|]. exists pos. split; [lia|assumption].
  Qed.

  Lemma pre_order_on_in pre r o : In (r, o) (pre_order_on ars pre) <->
    In r (ready_queue (is_pre pre) (fun pos => nth pos ars 0) (length ars)) /\ assoc r pre = Some o.
  Proof.
    unfold pre_order_on. rewrite in_flat_map. split.
    - intros (j & Hj & Hin). destruct (assoc j pre) as [o'|] eqn:E; cbn in Hin; [|contradiction].
      destruct Hin as [Hin|[]]. inversion Hin; subst. split; assumption.
    - intros [Hi E]. exists r. split; [assumption|]. rewrite E. now left.
  Qed.

  Lemma pre_order_on_fst pre :
    map fst (pre_order_on ars pre) = ready_queue (is_pre pre) (fun pos => nth pos ars 0) (length ars).
  Proof.
    unfold pre_order_on. rewrite pre_order_fst_filter.
    destruct (ready_queue_spec (is_pre pre) (fun pos => nth pos ars 0) (length ars)) as [_ Hi].
    induction (ready_queue _ _ _) as [|x l IH]; cbn; [reflexivity|].
    destruct (Hi x (or_introl eq_refl)) as [Hx _]. unfold is_pre in Hx. destruct (assoc x pre); [|discriminate].
    f_equal. apply IH. intros r Hr. apply Hi. now right.
  Qed.

  Lemma call_inv_a pre (s : S) : NoDup (map fst pre) ->
    let m := link_all (fun pos => pos) ars (precomplete s pre) in
    Inv_a (map fst pre) (pre_order_on ars pre) m /\ comb m = s.
  Proof.
    intros Hn. destruct (precomplete_spec s pre Hn) as (Hq & Hc & Hins).
    set (m0 := precomplete s pre) in *.
    assert (forall i, plinks (ins m0 i) = [] /\ ppend (ins m0 i) = false) as Hfl.
    { intros i. rewrite Hins. split; reflexivity. }
    assert (forall r, cready (pcell (ins m0 r)) = is_pre pre r) as Hrd.
    { intros r. rewrite Hins. unfold is_pre. cbn. destruct (assoc r pre); [apply cready_cell_of|reflexivity]. }
    unfold link_all.
    destruct (link_from_alias (fun pos => nth pos ars 0) (is_pre pre) (length ars) m0 Hq Hfl Hrd) as (Hc' & Hq' & Hi').
    destruct (ready_queue_spec (is_pre pre) (fun pos => nth pos ars 0) (length ars)) as [Hnd Hmem].
    cbn. split; [|congruence]. constructor.
    - now rewrite Hq', pre_order_on_fst.
    - now rewrite pre_order_on_fst.
    - intros r o Hin. apply pre_order_on_in in Hin as [Hr Ha]. rewrite Hi', Hins, Ha. cbn [pcell].
      assert (existsb (Nat.eqb r) (ready_queue (is_pre pre) (fun pos => nth pos ars 0) (length ars)) = true) as Ee.
      { apply existsb_exists. exists r. split; [assumption|apply Nat.eqb_refl]. }
      rewrite Ee. split; [reflexivity|]. destruct (Hmem r Hr) as [_ (pos & Hp & Hf)]. rewrite <- Hf. now apply nth_In.
    - intros r Hr Hnu. rewrite Hi', Hins. apply assoc_none in Hnu. rewrite Hnu. cbn [pcell].
      destruct (existsb (Nat.eqb r) _) eqn:Ee; [|reflexivity].
      apply existsb_exists in Ee as (x & Hx & Hxe). apply Nat.eqb_eq in Hxe. subst x.
      destruct (Hmem r Hx) as [Hp _]. unfold is_pre in Hp. rewrite Hnu in Hp. discriminate.
    - intros r Hr. rewrite pre_order_on_fst in Hr. destruct (Hmem r Hr) as [Hp _]. unfold is_pre in Hp.
      destruct (assoc r pre) as [o|] eqn:E; [|discriminate]. apply assoc_in in E. change r with (fst (r, o)). now apply in_map.
  Qed.

  Lemma awf_wf_evs_a : forall evs used,
    NoDup (used ++ map fst (completions evs)) ->
    (forall r, In r (map fst (completions evs)) -> In r ars) -> wf_evs_a used evs.
  Proof.
    induction evs as [|[i o|] t IH]; intros used Hn Hb; cbn in *.
    - exact I.
    - split; [apply Hb; now left|]. split.
      + intros Hin. apply (NoDup_app_disjoint _ _ Hn i Hin). now left.
      + apply IH.
        * apply NoDup_app_intro.
          -- constructor. ++ intros Hin. apply (NoDup_app_disjoint _ _ Hn i Hin). now left.
             ++ now apply NoDup_app_remove_r in Hn.
          -- apply NoDup_app_remove_l in Hn. now inversion Hn.
          -- intros x [<-|Hx] Hin.
             ++ apply NoDup_app_remove_l in Hn. now inversion Hn.
             ++ apply (NoDup_app_disjoint _ _ Hn x Hx). now right.
        * intros j Hj. apply Hb. now right.
    - now apply IH.
  Qed.

  Theorem machine_delivers_a N pre evs (s : S) : awf ars pre evs ->
    comb (fold_left (step cb N) evs (link_all (fun pos => pos) ars (precomplete s pre)))
    = fold_left cbp (expand (delivered_on ars pre evs)) s.
  Proof.
    intros [Hn Hb]. destruct (call_inv_a pre s (NoDup_app_remove_r _ _ Hn)) as [HI Hc].
    unfold delivered_on. rewrite <- Hc at 2. apply (events_comb_a N evs (map fst pre)); [exact HI|].
    apply awf_wf_evs_a; [assumption|]. intros i Hi. apply Hb, in_or_app. now right.
  Qed.

  (* the positions delivered: distinct, and position pos carries the outcome of the result listed there *)
  Lemma expand_in q pos o : In (pos, o) (expand q) <-> pos < length ars /\ In (nth pos ars 0, o) q.
  Proof.
    unfold expand, expand1. rewrite in_flat_map. split.
    - intros ([r o'] & Hq & Hin). cbn in Hin. apply in_map_iff in Hin as (k & E & Hk). inversion E; subst.
      apply Pof_in in Hk as [Hl Hr]. split; [assumption|]. now rewrite Hr.
    - intros [Hl Hin]. exists (nth pos ars 0, o). split; [assumption|]. cbn. apply in_map_iff. exists pos.
      split; [reflexivity|]. apply Pof_in. split; [assumption|reflexivity].
  Qed.

  Lemma expand_fst_in q pos : In pos (map fst (expand q)) <-> pos < length ars /\ In (nth pos ars 0) (map fst q).
  Proof.
    rewrite in_map_iff. split.
    - intros ([p o] & E & Hin). cbn in E. subst p. apply expand_in in Hin as [Hl Hin]. split; [assumption|].
      change (nth pos ars 0) with (fst (nth pos ars 0, o)). now apply in_map.
    - intros [Hl Hin]. apply in_map_iff in Hin as ([r o] & E & Hin). cbn in E. subst r.
      exists (pos, o). split; [reflexivity|]. apply expand_in. split; assumption.
  Qed.

  Lemma expand_nodup : forall q, NoDup (map fst q) -> NoDup (map fst (expand q)).
  Proof.
    induction q as [|[r o] q IH]; intros Hn; cbn; [constructor|].
    inversion Hn as [|? ? Hnr Hnq]; subst. rewrite map_app. apply NoDup_app_intro.
    - unfold expand1. cbn. rewrite map_map. cbn. rewrite map_id. apply Pof_nodup.
    - now apply IH.
    - intros pos Hp Hq. unfold expand1 in Hp. cbn in Hp. rewrite map_map in Hp. cbn in Hp. rewrite map_id in Hp.
      apply Pof_in in Hp as [_ Hr]. apply expand_fst_in in Hq as [_ Hq]. rewrite Hr in Hq. contradiction.
  Qed.
End AliasAll.

Lemma map_nth_seq {A} (g : nat -> A) : forall ars : list nat,
  map (fun pos => g (nth pos ars 0)) (seq 0 (length ars)) = map g ars.
Proof.
  induction ars as [|a t IH]; [reflexivity|]. cbn [length]. rewrite <- cons_seq, <- seq_shift. cbn [map].
  rewrite map_map. cbn. now rewrite IH.
Qed.

Lemma awf_delivered_on ars pre evs : awf ars pre evs ->
  NoDup (map fst (delivered_on ars pre evs)) /\ (forall r, In r (map fst (delivered_on ars pre evs)) -> In r ars).
Proof.
  intros [Hn Hb]. unfold delivered_on.
  destruct (sched_prefix evs (pre_order_on ars pre)) as [rest E].
  destruct (ready_queue_spec (is_pre pre) (fun pos => nth pos ars 0) (length ars)) as [Hnd Hmem].
  assert (forall r, In r (map fst (pre_order_on ars pre)) -> In r (map fst pre) /\ In r ars) as Hpo.
  { intros r Hr. rewrite pre_order_on_fst in Hr. destruct (Hmem r Hr) as [Hp (pos & Hl & Hf)]. split.
    - unfold is_pre in Hp. destruct (assoc r pre) as [o|] eqn:Ea; [|discriminate]. apply assoc_in in Ea.
      change r with (fst (r, o)). now apply in_map.
    - rewrite <- Hf. now apply nth_In. }
  assert (NoDup (map fst (pre_order_on ars pre ++ completions evs))) as Hk.
  { rewrite map_app. apply NoDup_app_intro.
    - now rewrite pre_order_on_fst.
    - now apply NoDup_app_remove_l in Hn.
    - intros r Hr. apply Hpo in Hr as [Hr _]. now apply (NoDup_app_disjoint _ _ Hn). }
  rewrite E, map_app in Hk. split; [now apply NoDup_app_remove_r in Hk|].
  intros r Hr. assert (In r (map fst (pre_order_on ars pre ++ completions evs))) as Hin.
  { rewrite E, map_app. apply in_or_app. now left. }
  rewrite map_app in Hin. apply in_app_or in Hin as [Hin|Hin]; [now apply Hpo in Hin|].
  apply Hb, in_or_app. now right.
Qed.

Lemma all_alias_inv ars pre evs : awf ars pre evs ->
  all_inv (length ars) (expand ars (delivered_on ars pre evs)) (comb (all_run_on ars pre evs)).
Proof.
  intros H. unfold all_run_on, all_call_on.
  rewrite (machine_delivers_a all_cb ars (length ars) pre evs (all_new (length ars)) H).
  destruct (awf_delivered_on ars pre evs H) as [Hn _].
  change (cbp all_cb) with (cbf all_cb (fun pos => pos)). apply all_fold.
  - now apply expand_nodup.
  - intros pos Hp. now apply expand_fst_in in Hp.
Qed.

Theorem all_alias_spec ars pre evs : awf ars pre evs ->
  let Q := delivered_on ars pre evs in
  let r := all_ret (all_run_on ars pre evs) in
  (forall a e, In (a, Err e) Q -> cval r = None /\ exists a' e', In (a', Err e') Q /\ cexc r = Some e') /\
  (all_ok Q -> (forall a, In a ars -> In a (map fst Q)) ->
     r = mkCell (Some (map (value_of Q) ars)) None /\
     forall a, In a ars -> exists v, In (a, Ok v) Q /\ value_of Q a = Some v) /\
  (all_ok Q -> (exists a, In a ars /\ ~ In a (map fst Q)) -> r = cempty) /\
  (csucc r = true -> all_ok Q /\ forall a, In a ars -> In a (map fst Q)).
Proof.
  intros H Q r. pose proof (all_alias_inv ars pre evs H) as Hinv. fold Q in Hinv.
  destruct (awf_delivered_on ars pre evs H) as [HnQ HbQ]. fold Q in HnQ, HbQ.
  set (n := length ars) in *. set (D := expand ars Q) in *.
  assert (NoDup (map fst D)) as HnD by now apply expand_nodup.
  assert (forall pos, In pos (map fst D) -> pos < n) as HbD by (intros pos Hp; now apply expand_fst_in in Hp).
  assert (length D <= n) as Hle by (rewrite <- (map_length fst); now apply NoDup_bounded_length).
  assert (all_ok Q -> all_ok D) as HokD.
  { intros Hok pos e Hin. apply expand_in in Hin as [_ Hin]. now apply (Hok (nth pos ars 0) e). }
  assert ((forall a, In a ars -> In a (map fst Q)) -> length D = n) as Hfull.
  { intros Hall. apply Nat.le_antisymm; [assumption|].
    rewrite <- (map_length fst D), <- (seq_length n 0). apply NoDup_incl_length; [apply seq_NoDup|].
    intros pos Hp. apply in_seq in Hp. apply expand_fst_in. split; [lia|]. apply Hall, nth_In. lia. }
  assert (forall a, In a ars -> ~ In a (map fst Q) -> length D < n) as Hpart.
  { intros a Ha Hna. destruct (Nat.eq_dec (length D) n) as [E|E]; [|lia]. exfalso.
    destruct (In_nth ars a 0 Ha) as (pos & Hp & Hnth).
    assert (In pos (map fst D)) as Hin by (apply (NoDup_full _ n); try assumption; now rewrite map_length).
    apply expand_fst_in in Hin as [_ Hin]. rewrite Hnth in Hin. contradiction. }
  unfold all_inv in Hinv.
  assert (forall a e, In (a, Err e) Q -> cval r = None /\ exists a' e', In (a', Err e') Q /\ cexc r = Some e') as Hfail.
  { intros a e Hin. assert (In a ars) as Ha by (apply HbQ; change a with (fst (a, @Err Z e)); now apply in_map).
    destruct (In_nth ars a 0 Ha) as (pos & Hp & Hnth).
    assert (In (pos, Err e) D) as HinD by (apply expand_in; split; [assumption|now rewrite Hnth]).
    destruct (last_err D) as [e'|] eqn:El.
    - unfold r, all_ret. rewrite Hinv. split; [reflexivity|]. apply last_err_in in El as (pos' & Hpe).
      apply expand_in in Hpe as [_ Hpe]. exists (nth pos' ars 0), e'. split; [assumption|reflexivity].
    - exfalso. apply last_err_none in El. now apply (El pos e). }
  assert (all_ok Q -> (forall a, In a ars -> In a (map fst Q)) ->
          r = mkCell (Some (map (value_of Q) ars)) None /\
          forall a, In a ars -> exists v, In (a, Ok v) Q /\ value_of Q a = Some v) as Hsucc.
  { intros Hok Hall. pose proof (HokD Hok) as HokD'. pose proof (Hfull Hall) as Hl.
    pose proof HokD' as El. apply last_err_none in El. rewrite El in Hinv.
    destruct Hinv as (_ & Hlen & Hnth & Hret). rewrite Hl, Nat.eqb_refl in Hret.
    destruct (all_results_full n D _ HnD HbD Hl HokD' Hlen Hnth) as [Hv Hex].
    assert (forall pos, pos < n -> exists v, In (nth pos ars 0, Ok v) Q /\ value_of D pos = Some v /\ value_of Q (nth pos ars 0) = Some v) as Hpos.
    { intros pos Hp. destruct (Hex pos Hp) as (v & Hin & Hvo). apply expand_in in Hin as [_ Hin].
      exists v. split; [assumption|]. split; [assumption|]. now apply value_of_in. }
    split.
    - unfold r, all_ret. rewrite Hret, Hv. f_equal. f_equal. unfold values_in_input_order.
      rewrite <- (map_nth_seq (value_of Q) ars). apply map_ext_in. intros pos Hp. apply in_seq in Hp.
      destruct (Hpos pos) as (v & _ & E1 & E2); [lia|]. now rewrite E1, E2.
    - intros a Ha. destruct (In_nth ars a 0 Ha) as (pos & Hp & Hn'). destruct (Hpos pos Hp) as (v & Hin & _ & E2).
      rewrite Hn' in *. exists v. split; assumption. }
  assert (all_ok Q -> (exists a, In a ars /\ ~ In a (map fst Q)) -> r = cempty) as Hpend.
  { intros Hok (a & Ha & Hna). pose proof (Hpart a Ha Hna) as Hl. pose proof (HokD Hok) as El.
    apply last_err_none in El. rewrite El in Hinv. destruct Hinv as (_ & _ & _ & Hret).
    destruct (Nat.eqb_spec (length D) n); [lia|exact Hret]. }
  split; [exact Hfail|split; [exact Hsucc|split; [exact Hpend|]]].
  intros Hs.
  assert (all_ok Q) as Hok.
  { intros a e Hin. destruct (Hfail a e Hin) as [Hv _]. unfold csucc in Hs. rewrite Hv in Hs. discriminate. }
  split; [assumption|]. intros a Ha.
  destruct (in_dec Nat.eq_dec a (map fst Q)) as [Hin|Hnin]; [assumption|].
  rewrite (Hpend Hok (ex_intro _ a (conj Ha Hnin))) in Hs. discriminate.
Qed.
